#!/bin/bash
# Builds the analysers offline into /verif/target (MANIFEST.setup_cmd).
set -e
cd "$(dirname "$0")"
export CARGO_NET_OFFLINE=true
( cd tools/astdump && CARGO_TARGET_DIR=/verif/target/astdump cargo build --release --offline -q )
if [ -d tools/mirfacts ]; then
  ( cd tools/mirfacts && CARGO_TARGET_DIR=/verif/target/mirfacts cargo +nightly build --release --offline -q )
fi
echo "setup ok"
