#!/bin/bash
# usage: try_seeds.sh <root> <prop>... : run each property's check against <root>/out/<prop>/{1,2,3}/patch.diff
R=$1; shift
for p in "$@"; do for k in 1 2 3; do
  [ -f $R/out/$p/$k/patch.diff ] || continue
  echo "--- $p/$k: $(MAXL=${MAXL:-2} /verif/tools/check_patch.sh $R/out/$p/$k/patch.diff $p | cut -c1-${W:-260} | tr '\n' ' ')"
done; done
