#!/usr/bin/env python3
"""Regenerates MANIFEST.json from lib/props.py (claimed checks) + the not-applicable table below."""
import json, os, sys
HERE = os.path.dirname(os.path.dirname(os.path.abspath(__file__)))
sys.path.insert(0, os.path.join(HERE, "lib"))
import props

NA = {
 "C01": "equivalence of the optimised IR with canonical semantics is a value-level theorem about a 1400-line symbolic optimiser (trip counts, closed forms, clobber sets); no clause is visible in the shape of the code and no sound static argument in reach bounds it (DESIGN.md section 5)",
 "C05": "preservation of divergence depends on the optimiser's never/infinite/no_return classification being semantically right per loop - the same value-level reasoning as C01; its one shape clause (an unlimited run never consults the budget) is enforced as LIM-GUARD under C07",
 "C15": "agreement of the expression algebra with arithmetic modulo 2^w is an algebraic identity over all polynomials and assignments; nothing of it is decidable from the shape of the code, and a CAS/SMT argument is a different family",
}
PENDING = "check not built yet (build phase in progress); see DESIGN.md section 4 for the planned decision"

def main():
    ids = [json.loads(l)["id"] for l in open(os.path.join(HERE, "properties.jsonl"))]
    checks = []
    for pid in ids:
        if pid in props.REGISTRY:
            sp = props.REGISTRY[pid]
            checks.append({
                "property_id": pid,
                "quick_cmd": f"./check {pid} --tier quick",
                "thorough_cmd": f"./check {pid} --tier thorough",
                "evidence_file": f"evidence/{pid}.json",
                "replay_cmd_template": f"./check {pid} --replay {{path}}",
                "engine": sp.get("engine", "E1 syntax-tree analyser (astdump + lib/*.py)"),
                "level_claimed": {"category": sp.get("level", "other"), "text": sp["claim"], "design_ref": sp.get("design_ref", "DESIGN.md section 4, " + pid)},
                "level_note": sp["note"],
                "technique": sp["technique"],
            })
    na = [{"property_id": p, "reason": NA.get(p, PENDING)} for p in ids if p not in props.REGISTRY]
    m = {
        "version": 1,
        "setup_cmd": "./setup.sh",
        "hooks": {"guard": "hpbf_verif", "enable": "none needed: the analysers read /repo's source, MIR and layouts directly; no hook commit exists in /repo", "baseline_off_cmd": "cd /repo && cargo test --workspace --no-fail-fast --offline", "source_commits": [], "add_only": True},
        "engines": [
            {"name": "E1 astdump + rule library", "path": "tools/astdump, lib/", "serves_properties": sorted(props.REGISTRY), "kind_free_text": "syn-based syntax tree dump of every file under /repo/src (all cfg variants), analysed by repository-specific rules in Python: template effect analysis (abstract interpretation of emitter/op templates over finite operand domains with polynomial values), path-sensitive typestate, pairing/ordering, sibling agreement, table checks"},
        ],
        "checks": checks,
        "notes": "Static analysis only: nothing of hpbf is executed by any check. Repairs of genuine defects found by the checks are the 'fix:' commits in /repo (see known_findings.json). Seeded changes used to test the checks are under seeded/.",
        "not_applicable": na,
    }
    json.dump(m, open(os.path.join(HERE, "MANIFEST.json"), "w"), indent=1)
    print("claimed:", [c["property_id"] for c in checks], "n/a:", [x["property_id"] for x in na])

main()
