//! mirfacts: a rustc_private driver that type-checks one crate and dumps facts as JSON
//! (MIR of every local function with resolved callees and full types, layouts, Freeze-ness,
//! const-evaluated associated constants, statics).  Used as RUSTC_WORKSPACE_WRAPPER under
//! `cargo +nightly check`; the output directory is taken from MIRFACTS_OUT.  Nothing of the
//! analysed crate is executed.
#![feature(rustc_private)]
#![allow(clippy::all)]

extern crate rustc_abi;
extern crate rustc_driver;
extern crate rustc_hir;
extern crate rustc_interface;
extern crate rustc_middle;
extern crate rustc_span;

use rustc_hir::def::DefKind;
use rustc_middle::mir::*;
use rustc_middle::ty::{self, Instance, Ty, TyCtxt, TyKind, TypingEnv};
use std::fmt::Write as _;

fn esc(s: &str) -> String {
    let mut o = String::with_capacity(s.len() + 2);
    o.push('"');
    for c in s.chars() {
        match c {
            '"' => o.push_str("\\\""),
            '\\' => o.push_str("\\\\"),
            '\n' => o.push_str("\\n"),
            '\t' => o.push_str("\\t"),
            '\r' => o.push_str("\\r"),
            c if (c as u32) < 0x20 => {
                let _ = write!(o, "\\u{:04x}", c as u32);
            }
            c => o.push(c),
        }
    }
    o.push('"');
    o
}

/// Type printer that never elides default generic arguments (the hasher of a HashMap).
fn full_ty<'tcx>(tcx: TyCtxt<'tcx>, t: Ty<'tcx>) -> String {
    match t.kind() {
        TyKind::Adt(def, args) => {
            let mut s = tcx.def_path_str(def.did());
            // def_path_str of a generic ADT may already print `<..>`? It prints the bare path.
            let a: Vec<String> = args
                .iter()
                .map(|ga| match ga.kind() {
                    ty::GenericArgKind::Type(t) => full_ty(tcx, t),
                    ty::GenericArgKind::Lifetime(_) => "'_".to_string(),
                    ty::GenericArgKind::Const(c) => format!("{c}"),
                })
                .collect();
            if !a.is_empty() {
                s.push('<');
                s.push_str(&a.join(", "));
                s.push('>');
            }
            s
        }
        TyKind::Ref(_, inner, m) => format!("&{}{}", if m.is_mut() { "mut " } else { "" }, full_ty(tcx, *inner)),
        TyKind::RawPtr(inner, m) => format!("*{} {}", if m.is_mut() { "mut" } else { "const" }, full_ty(tcx, *inner)),
        TyKind::Tuple(ts) => format!("({})", ts.iter().map(|t| full_ty(tcx, t)).collect::<Vec<_>>().join(", ")),
        TyKind::Array(inner, n) => format!("[{}; {}]", full_ty(tcx, *inner), n),
        TyKind::Slice(inner) => format!("[{}]", full_ty(tcx, *inner)),
        TyKind::FnDef(did, args) => {
            let a: Vec<String> = args
                .iter()
                .filter_map(|ga| match ga.kind() {
                    ty::GenericArgKind::Type(t) => Some(full_ty(tcx, t)),
                    _ => None,
                })
                .collect();
            format!("fn#{}<{}>", tcx.def_path_str(*did), a.join(", "))
        }
        TyKind::Closure(did, _) => format!("closure#{}", tcx.def_path_str(*did)),
        _ => format!("{t}"),
    }
}

struct Dump<'tcx> {
    tcx: TyCtxt<'tcx>,
}

impl<'tcx> Dump<'tcx> {
    fn line(&self, span: rustc_span::Span) -> String {
        let sm = self.tcx.sess.source_map();
        let lo = sm.lookup_char_pos(span.lo());
        let f = match &lo.file.name {
            rustc_span::FileName::Real(r) => r
                .local_path()
                .map(|p| p.to_string_lossy().to_string())
                .unwrap_or_else(|| format!("{:?}", lo.file.name)),
            other => format!("{other:?}"),
        };
        format!("{}:{}", f, lo.line)
    }

    fn place(&self, body: &Body<'tcx>, p: &Place<'tcx>) -> String {
        let mut s = format!("{{\"local\":{},\"proj\":[", p.local.as_usize());
        let mut first = true;
        for (i, elem) in p.projection.iter().enumerate() {
            if !first {
                s.push(',');
            }
            first = false;
            match elem {
                ProjectionElem::Deref => s.push_str("{\"k\":\"deref\"}"),
                ProjectionElem::Field(fi, fty) => {
                    // name of the field, from the type of the prefix
                    let prefix = PlaceRef { local: p.local, projection: &p.projection[..i] };
                    let pty = prefix.ty(&body.local_decls, self.tcx);
                    let mut name = String::new();
                    let mut owner = String::new();
                    if let TyKind::Adt(def, _) = pty.ty.kind() {
                        let v = pty.variant_index.unwrap_or(rustc_abi::FIRST_VARIANT);
                        if def.variants().len() > v.as_usize() {
                            let var = def.variant(v);
                            if var.fields.len() > fi.as_usize() {
                                name = var.fields[fi].name.to_string();
                            }
                        }
                        owner = self.tcx.def_path_str(def.did());
                    }
                    let _ = write!(s, "{{\"k\":\"field\",\"i\":{},\"name\":{},\"owner\":{},\"ty\":{}}}", fi.as_usize(), esc(&name), esc(&owner), esc(&full_ty(self.tcx, fty)));
                }
                ProjectionElem::Index(l) => {
                    let _ = write!(s, "{{\"k\":\"index\",\"local\":{}}}", l.as_usize());
                }
                ProjectionElem::ConstantIndex { offset, from_end, .. } => {
                    let _ = write!(s, "{{\"k\":\"cindex\",\"offset\":{},\"from_end\":{}}}", offset, from_end);
                }
                ProjectionElem::Subslice { from, to, from_end } => {
                    let _ = write!(s, "{{\"k\":\"subslice\",\"from\":{},\"to\":{},\"from_end\":{}}}", from, to, from_end);
                }
                ProjectionElem::Downcast(name, v) => {
                    let _ = write!(s, "{{\"k\":\"downcast\",\"variant\":{},\"name\":{}}}", v.as_usize(), esc(&name.map(|n| n.to_string()).unwrap_or_default()));
                }
                _ => s.push_str("{\"k\":\"other\"}"),
            }
        }
        s.push_str("]}");
        s
    }

    fn operand(&self, body: &Body<'tcx>, def_id: rustc_hir::def_id::DefId, o: &Operand<'tcx>) -> String {
        match o {
            Operand::Copy(p) => format!("{{\"k\":\"copy\",\"place\":{}}}", self.place(body, p)),
            Operand::Move(p) => format!("{{\"k\":\"move\",\"place\":{}}}", self.place(body, p)),
            Operand::Constant(c) => {
                let t = c.const_.ty();
                let mut extra = String::new();
                if let TyKind::FnDef(did, args) = t.kind() {
                    let _ = write!(extra, ",\"fn\":{}", esc(&self.tcx.def_path_str(*did)));
                    let targs: Vec<String> = args
                        .iter()
                        .filter_map(|ga| match ga.kind() {
                            ty::GenericArgKind::Type(t) => Some(esc(&full_ty(self.tcx, t))),
                            _ => None,
                        })
                        .collect();
                    let _ = write!(extra, ",\"targs\":[{}]", targs.join(","));
                    let env = TypingEnv::post_analysis(self.tcx, def_id);
                    if let Ok(Some(inst)) = Instance::try_resolve(self.tcx, env, *did, args) {
                        let _ = write!(extra, ",\"resolved\":{}", esc(&self.tcx.def_path_str(inst.def_id())));
                    }
                }
                // scalar value when it is one
                let mut val = String::new();
                if t.is_integral() || t.is_bool() || t.is_char() {
                    let env = TypingEnv::post_analysis(self.tcx, def_id);
                    if let Some(sc) = c.const_.try_eval_scalar_int(self.tcx, env) {
                        let bits = sc.to_bits(sc.size());
                        let _ = write!(val, ",\"bits\":\"{}\",\"size\":{}", bits, sc.size().bytes());
                    }
                }
                format!("{{\"k\":\"const\",\"ty\":{},\"s\":{}{}{}}}", esc(&full_ty(self.tcx, t)), esc(&format!("{}", c.const_)), extra, val)
            }
            _ => "{\"k\":\"other\"}".to_string(),
        }
    }

    fn rvalue(&self, body: &Body<'tcx>, def_id: rustc_hir::def_id::DefId, rv: &Rvalue<'tcx>) -> String {
        match rv {
            Rvalue::Use(o, _) => format!("{{\"k\":\"use\",\"op\":{}}}", self.operand(body, def_id, o)),
            Rvalue::Cast(kind, o, t) => format!(
                "{{\"k\":\"cast\",\"kind\":{},\"op\":{},\"ty\":{}}}",
                esc(&format!("{kind:?}")),
                self.operand(body, def_id, o),
                esc(&full_ty(self.tcx, *t))
            ),
            Rvalue::BinaryOp(op, b) => format!(
                "{{\"k\":\"binary\",\"op\":{},\"l\":{},\"r\":{}}}",
                esc(&format!("{op:?}")),
                self.operand(body, def_id, &b.0),
                self.operand(body, def_id, &b.1)
            ),
            Rvalue::UnaryOp(op, o) => format!("{{\"k\":\"unary\",\"op\":{},\"v\":{}}}", esc(&format!("{op:?}")), self.operand(body, def_id, o)),
            Rvalue::Ref(_, bk, p) => format!(
                "{{\"k\":\"ref\",\"mut\":{},\"place\":{}}}",
                matches!(bk, BorrowKind::Mut { .. }),
                self.place(body, p)
            ),
            Rvalue::RawPtr(kind, p) => format!("{{\"k\":\"rawptr\",\"kind\":{},\"place\":{}}}", esc(&format!("{kind:?}")), self.place(body, p)),
            Rvalue::Discriminant(p) => format!("{{\"k\":\"discriminant\",\"place\":{}}}", self.place(body, p)),
            Rvalue::CopyForDeref(p) => format!("{{\"k\":\"use\",\"op\":{{\"k\":\"copy\",\"place\":{}}}}}", self.place(body, p)),
            Rvalue::Aggregate(kind, ops) => {
                let k = match &**kind {
                    AggregateKind::Adt(did, v, _, _, _) => format!("adt:{}:{}", self.tcx.def_path_str(*did), v.as_usize()),
                    AggregateKind::Tuple => "tuple".to_string(),
                    AggregateKind::Array(_) => "array".to_string(),
                    AggregateKind::Closure(did, _) => format!("closure:{}", self.tcx.def_path_str(*did)),
                    _ => "other".to_string(),
                };
                let os: Vec<String> = ops.iter().map(|o| self.operand(body, def_id, o)).collect();
                format!("{{\"k\":\"aggregate\",\"kind\":{},\"ops\":[{}]}}", esc(&k), os.join(","))
            }
            Rvalue::Repeat(o, n) => format!("{{\"k\":\"repeat\",\"op\":{},\"n\":{}}}", self.operand(body, def_id, o), esc(&format!("{n}"))),
            other => format!("{{\"k\":\"other\",\"s\":{}}}", esc(&format!("{other:?}"))),
        }
    }

    fn body(&self, def_id: rustc_hir::def_id::LocalDefId) -> String {
        let tcx = self.tcx;
        let did = def_id.to_def_id();
        let body = tcx.optimized_mir(did);
        let mut s = String::new();
        let sig_unsafe = matches!(tcx.def_kind(did), DefKind::Fn | DefKind::AssocFn) && tcx.fn_sig(did).skip_binder().safety().is_unsafe();
        let _ = write!(
            s,
            "{{\"name\":{},\"kind\":{},\"span\":{},\"unsafe\":{},\"arg_count\":{},\"locals\":[",
            esc(&tcx.def_path_str(did)),
            esc(&format!("{:?}", tcx.def_kind(did))),
            esc(&self.line(body.span)),
            sig_unsafe,
            body.arg_count
        );
        let mut names: Vec<Option<String>> = vec![None; body.local_decls.len()];
        for vdi in &body.var_debug_info {
            if let VarDebugInfoContents::Place(p) = &vdi.value {
                if p.projection.is_empty() {
                    names[p.local.as_usize()] = Some(vdi.name.to_string());
                }
            }
        }
        for (i, ld) in body.local_decls.iter().enumerate() {
            if i > 0 {
                s.push(',');
            }
            let _ = write!(
                s,
                "{{\"ty\":{},\"name\":{},\"line\":{}}}",
                esc(&full_ty(tcx, ld.ty)),
                names[i].as_ref().map(|n| esc(n)).unwrap_or_else(|| "null".into()),
                esc(&self.line(ld.source_info.span))
            );
        }
        s.push_str("],\"blocks\":[");
        for (bi, bb) in body.basic_blocks.iter().enumerate() {
            if bi > 0 {
                s.push(',');
            }
            let _ = write!(s, "{{\"cleanup\":{},\"stmts\":[", bb.is_cleanup);
            let mut first = true;
            for st in &bb.statements {
                let js = match &st.kind {
                    StatementKind::Assign(b) => Some(format!(
                        "{{\"k\":\"assign\",\"place\":{},\"rv\":{},\"line\":{}}}",
                        self.place(body, &b.0),
                        self.rvalue(body, did, &b.1),
                        esc(&self.line(st.source_info.span))
                    )),
                    StatementKind::SetDiscriminant { place, variant_index } => Some(format!(
                        "{{\"k\":\"setdisc\",\"place\":{},\"variant\":{}}}",
                        self.place(body, place),
                        variant_index.as_usize()
                    )),
                    StatementKind::Intrinsic(i) => Some(format!("{{\"k\":\"intrinsic\",\"s\":{},\"line\":{}}}", esc(&format!("{i:?}")), esc(&self.line(st.source_info.span)))),
                    _ => None,
                };
                if let Some(js) = js {
                    if !first {
                        s.push(',');
                    }
                    first = false;
                    s.push_str(&js);
                }
            }
            s.push_str("],\"term\":");
            let term = bb.terminator();
            let ln = esc(&self.line(term.source_info.span));
            let exp = term.source_info.span.from_expansion();
            match &term.kind {
                TerminatorKind::Goto { target } => {
                    let _ = write!(s, "{{\"k\":\"goto\",\"target\":{}}}", target.as_usize());
                }
                TerminatorKind::SwitchInt { discr, targets } => {
                    let ts: Vec<String> = targets.iter().map(|(v, t)| format!("[\"{}\",{}]", v, t.as_usize())).collect();
                    let _ = write!(
                        s,
                        "{{\"k\":\"switch\",\"discr\":{},\"targets\":[{}],\"otherwise\":{},\"line\":{}}}",
                        self.operand(body, did, discr),
                        ts.join(","),
                        targets.otherwise().as_usize(),
                        ln
                    );
                }
                TerminatorKind::Return => s.push_str("{\"k\":\"return\"}"),
                TerminatorKind::Unreachable => s.push_str("{\"k\":\"unreachable\"}"),
                TerminatorKind::UnwindResume => s.push_str("{\"k\":\"resume\"}"),
                TerminatorKind::UnwindTerminate(_) => s.push_str("{\"k\":\"terminate\"}"),
                TerminatorKind::Drop { place, target, .. } => {
                    let _ = write!(s, "{{\"k\":\"drop\",\"place\":{},\"target\":{},\"line\":{}}}", self.place(body, place), target.as_usize(), ln);
                }
                TerminatorKind::Call { func, args, destination, target, .. } => {
                    let a: Vec<String> = args.iter().map(|x| self.operand(body, did, &x.node)).collect();
                    let _ = write!(
                        s,
                        "{{\"k\":\"call\",\"func\":{},\"args\":[{}],\"dest\":{},\"target\":{},\"line\":{},\"from_expansion\":{}}}",
                        self.operand(body, did, func),
                        a.join(","),
                        self.place(body, destination),
                        target.map(|t| t.as_usize().to_string()).unwrap_or_else(|| "null".into()),
                        ln,
                        exp
                    );
                }
                TerminatorKind::TailCall { func, args, .. } => {
                    let a: Vec<String> = args.iter().map(|x| self.operand(body, did, &x.node)).collect();
                    let _ = write!(s, "{{\"k\":\"tailcall\",\"func\":{},\"args\":[{}],\"line\":{}}}", self.operand(body, did, func), a.join(","), ln);
                }
                TerminatorKind::Assert { cond, expected, target, msg, .. } => {
                    let _ = write!(
                        s,
                        "{{\"k\":\"assert\",\"cond\":{},\"expected\":{},\"target\":{},\"msg\":{},\"line\":{}}}",
                        self.operand(body, did, cond),
                        expected,
                        target.as_usize(),
                        esc(&format!("{msg:?}").chars().take(120).collect::<String>()),
                        ln
                    );
                }
                TerminatorKind::FalseEdge { real_target, .. } => {
                    let _ = write!(s, "{{\"k\":\"goto\",\"target\":{}}}", real_target.as_usize());
                }
                TerminatorKind::FalseUnwind { real_target, .. } => {
                    let _ = write!(s, "{{\"k\":\"goto\",\"target\":{}}}", real_target.as_usize());
                }
                other => {
                    let _ = write!(s, "{{\"k\":\"other\",\"s\":{}}}", esc(&format!("{other:?}").chars().take(200).collect::<String>()));
                }
            }
            s.push('}');
        }
        s.push_str("]}");
        s
    }

    fn adts_and_layouts(&self) -> String {
        let tcx = self.tcx;
        let mut out = Vec::new();
        let prims: [(&str, Ty<'tcx>); 4] = [("u8", tcx.types.u8), ("u16", tcx.types.u16), ("u32", tcx.types.u32), ("u64", tcx.types.u64)];
        for id in tcx.hir_free_items() {
            let did = id.owner_id.to_def_id();
            match tcx.def_kind(did) {
                DefKind::Struct | DefKind::Enum | DefKind::Union => {}
                _ => continue,
            }
            let adt = tcx.adt_def(did);
            let mut s = format!(
                "{{\"name\":{},\"kind\":{},\"repr_c\":{},\"variants\":[",
                esc(&tcx.def_path_str(did)),
                esc(&format!("{:?}", tcx.def_kind(did))),
                adt.repr().c()
            );
            for (vi, v) in adt.variants().iter().enumerate() {
                if vi > 0 {
                    s.push(',');
                }
                let fs: Vec<String> = v
                    .fields
                    .iter()
                    .map(|f| format!("{{\"name\":{},\"ty\":{}}}", esc(&f.name.to_string()), esc(&full_ty(tcx, tcx.type_of(f.did).instantiate_identity().skip_norm_wip()))))
                    .collect();
                let _ = write!(s, "{{\"name\":{},\"fields\":[{}]}}", esc(&v.name.to_string()), fs.join(","));
            }
            s.push_str("],\"instances\":[");
            // monomorphic instances over the four cell types when the ADT has exactly one type parameter
            let generics = tcx.generics_of(did);
            let n_ty = generics.own_params.iter().filter(|p| matches!(p.kind, ty::GenericParamDefKind::Type { .. })).count();
            let n_const = generics.own_params.iter().filter(|p| matches!(p.kind, ty::GenericParamDefKind::Const { .. })).count();
            let mut first = true;
            if n_const == 0 && n_ty <= 1 && adt.is_struct() {
                let tys: Vec<(&str, Option<Ty<'tcx>>)> = if n_ty == 1 { prims.iter().map(|(n, t)| (*n, Some(*t))).collect() } else { vec![("-", None)] };
                for (pn, pt) in tys {
                    let args = ty::GenericArgs::for_item(tcx, did, |param, _| match param.kind {
                        ty::GenericParamDefKind::Lifetime => tcx.lifetimes.re_erased.into(),
                        ty::GenericParamDefKind::Type { .. } => pt.unwrap().into(),
                        ty::GenericParamDefKind::Const { .. } => unreachable!(),
                    });
                    let t = Ty::new_adt(tcx, adt, args);
                    let env = TypingEnv::fully_monomorphized();
                    // well-formedness: the parameter must satisfy the ADT's bounds (CellType); u8..u64 do for hpbf's types.
                    let lay = tcx.layout_of(env.as_query_input(t));
                    let freeze = t.is_freeze(tcx, env);
                    if let Ok(l) = lay {
                        let offs: Vec<String> = (0..l.fields.count()).map(|i| l.fields.offset(i).bytes().to_string()).collect();
                        if !first {
                            s.push(',');
                        }
                        first = false;
                        let _ = write!(
                            s,
                            "{{\"param\":{},\"size\":{},\"align\":{},\"offsets\":[{}],\"freeze\":{}}}",
                            esc(pn),
                            l.size.bytes(),
                            l.align.abi.bytes(),
                            offs.join(","),
                            freeze
                        );
                    }
                }
            }
            s.push_str("]}");
            out.push(s);
        }
        format!("[{}]", out.join(","))
    }

    fn consts_and_statics(&self) -> (String, String) {
        let tcx = self.tcx;
        let mut consts = Vec::new();
        let mut statics = Vec::new();
        for id in tcx.hir_free_items() {
            let did = id.owner_id.to_def_id();
            match tcx.def_kind(did) {
                DefKind::Static { mutability, .. } => {
                    let t = tcx.type_of(did).instantiate_identity().skip_norm_wip();
                    let env = TypingEnv::post_analysis(tcx, did);
                    statics.push(format!(
                        "{{\"name\":{},\"mut\":{},\"ty\":{},\"freeze\":{}}}",
                        esc(&tcx.def_path_str(did)),
                        mutability.is_mut(),
                        esc(&full_ty(tcx, t)),
                        t.is_freeze(tcx, env)
                    ));
                }
                DefKind::Impl { of_trait: true } => {
                    let self_ty = tcx.type_of(did).instantiate_identity().skip_norm_wip();
                    let trait_name = tcx.impl_opt_trait_id(did).map(|t| tcx.def_path_str(t)).unwrap_or_default();
                    for item in tcx.associated_items(did).in_definition_order() {
                        if matches!(item.kind, ty::AssocKind::Const { .. }) {
                            let env = TypingEnv::post_analysis(tcx, item.def_id);
                            let mut val = "null".to_string();
                            if tcx.generics_of(did).own_params.is_empty() {
                                if let Ok(v) = tcx.const_eval_poly(item.def_id) {
                                    let cty = tcx.type_of(item.def_id).instantiate_identity().skip_norm_wip();
                                    if let Some(sc) = v.try_to_scalar_int() {
                                        val = format!("\"{}\"", sc.to_bits(sc.size()));
                                    }
                                    let _ = cty;
                                }
                            }
                            let _ = env;
                            consts.push(format!(
                                "{{\"impl_trait\":{},\"self_ty\":{},\"name\":{},\"value\":{}}}",
                                esc(&trait_name),
                                esc(&full_ty(tcx, self_ty)),
                                esc(&item.name().to_string()),
                                val
                            ));
                        }
                    }
                }
                _ => {}
            }
        }
        (format!("[{}]", consts.join(",")), format!("[{}]", statics.join(",")))
    }
}

struct Cb;

impl rustc_driver::Callbacks for Cb {
    fn after_analysis<'tcx>(&mut self, _compiler: &rustc_interface::interface::Compiler, tcx: TyCtxt<'tcx>) -> rustc_driver::Compilation {
        let out_dir = match std::env::var("MIRFACTS_OUT") {
            Ok(d) => d,
            Err(_) => return rustc_driver::Compilation::Continue,
        };
        let d = Dump { tcx };
        let krate = tcx.crate_name(rustc_hir::def_id::LOCAL_CRATE).to_string();
        let crate_types: Vec<String> = tcx.crate_types().iter().map(|c| format!("{c:?}")).collect();
        let mut fns = Vec::new();
        for def_id in tcx.hir_body_owners() {
            match tcx.def_kind(def_id.to_def_id()) {
                DefKind::Fn | DefKind::AssocFn | DefKind::Closure => {}
                _ => continue,
            }
            fns.push(d.body(def_id));
        }
        let adts = d.adts_and_layouts();
        let (consts, statics) = d.consts_and_statics();
        let debug_assertions = tcx.sess.opts.debug_assertions;
        let doc = format!(
            "{{\"crate\":{},\"crate_types\":[{}],\"debug_assertions\":{},\"functions\":[{}],\"adts\":{},\"consts\":{},\"statics\":{}}}",
            esc(&krate),
            crate_types.iter().map(|c| esc(c)).collect::<Vec<_>>().join(","),
            debug_assertions,
            fns.join(","),
            adts,
            consts,
            statics
        );
        let kind = if crate_types.iter().any(|c| c.contains("Executable")) { "bin" } else { "lib" };
        let path = format!("{}/{}-{}-{}.json", out_dir, krate, kind, std::process::id());
        std::fs::write(&path, doc).expect("write facts");
        rustc_driver::Compilation::Continue
    }
}

fn main() {
    // As RUSTC_WORKSPACE_WRAPPER we are called as: mirfacts <path-to-rustc> <rustc args...>
    let mut args: Vec<String> = std::env::args().collect();
    if args.len() > 1 && (args[1].ends_with("rustc") || args[1].contains("/rustc")) {
        args.remove(1);
    }
    rustc_driver::run_compiler(&args, &mut Cb);
}
