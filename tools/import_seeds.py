#!/usr/bin/env python3
"""Copies confirmed seeded changes from /tmp/seed/out into /verif/seeded/<prop>-<k>/ with a meta.json."""
import json, os, shutil, glob, re, sys
ROOT = os.environ.get("SEED_ROOT", "/tmp/seed")
TAG = os.environ.get("SEED_TAG", "")
for vf in sorted(glob.glob(f"{ROOT}/val/*.json")):
    v = json.load(open(vf))
    if not v.get("confirmed"):
        continue
    pid, k = v["id"], v["k"]
    src = f"{ROOT}/out/{pid}/{k}"
    dst = f"/verif/seeded/{pid}-{TAG}{k}"
    if os.path.exists(os.path.join(dst, "meta.json")):
        continue
    os.makedirs(dst, exist_ok=True)
    for f in os.listdir(src):
        if f.endswith((".diff", ".rs", ".sh", ".md")):
            shutil.copy(os.path.join(src, f), dst)
    notes = open(os.path.join(src, "notes.md")).read() if os.path.exists(os.path.join(src, "notes.md")) else ""
    first = " ".join(notes.split("\n\n")[0:2]).replace("\n", " ")[:700]
    m = re.search(r"(?is)(needs?[^\n]*manifest[^\n]*\n+)(.*?)(\n\n|\n#)", notes)
    needs = (m.group(2).strip().replace("\n", " ")[:500] if m else "")
    files = sorted({l[6:].strip() for l in open(os.path.join(src, "patch.diff")) if l.startswith("+++ b/")})
    meta = {
        "id": f"{pid}-{TAG}{k}", "breaks_property": pid, "source": "independent sub-agent given only the property text and a scratch worktree",
        "files_changed": files, "summary": first, "needs_to_manifest": needs,
        "confirmed_by": {
            "procedure": "tools/validate_seed.py in a scratch worktree of /repo HEAD: demo without patch, `cargo test --workspace --no-fail-fast --offline` with patch, demo with patch",
            "demo_passes_without_change": v.get("demo_without_patch_passes"), "patch_applies": v.get("patch_applies"),
            "existing_tests_pass_with_change": v.get("tests_pass"), "test_result_lines": v.get("test_lines"),
            "demo_passes_with_change": v.get("demo_with_patch_passes"),
        },
        "detected_by": None,
    }
    json.dump(meta, open(os.path.join(dst, "meta.json"), "w"), indent=1)
    print("imported", dst)
