//! astdump: parse Rust source files with `syn` and dump the syntax tree as JSON.
//!
//! Usage: astdump [--root DIR] FILE...   (writes one JSON document to stdout)
//!
//! Every node is an object with "t" (node kind) and "sp" = [line0, col0, line1, col1]
//! (1-based lines, 0-based character columns, as reported by proc-macro2). Nothing is
//! evaluated; all `cfg` variants are kept (attributes are dumped as token strings).
//! A file that does not parse makes the tool exit with status 2 (fail closed).

use proc_macro2::{Span, TokenStream};
use quote::ToTokens;
use serde_json::{json, Map, Value};
use syn::spanned::Spanned;
use syn::*;

fn sp(s: Span) -> Value {
    let a = s.start();
    let b = s.end();
    json!([a.line, a.column, b.line, b.column])
}

fn node<T: Spanned>(t: &str, n: &T) -> Map<String, Value> {
    let mut m = Map::new();
    m.insert("t".into(), Value::String(t.into()));
    m.insert("sp".into(), sp(n.span()));
    m
}

fn ts<T: ToTokens>(t: &T) -> Value {
    Value::String(norm(&t.to_token_stream().to_string()))
}

/// Normalise a token string: single spaces only.
fn norm(s: &str) -> String {
    s.split_whitespace().collect::<Vec<_>>().join(" ")
}

macro_rules! put {
    ($m:ident, $($k:expr => $v:expr),* $(,)?) => { $( $m.insert($k.to_string(), $v); )* };
}

fn opt<T>(o: Option<T>, f: impl Fn(T) -> Value) -> Value {
    match o {
        Some(x) => f(x),
        None => Value::Null,
    }
}

fn attrs(a: &[Attribute]) -> Value {
    Value::Array(
        a.iter()
            .map(|at| {
                let mut m = node("Attr", at);
                put!(m, "path" => ts(at.path()), "s" => ts(&at.meta));
                if let Meta::NameValue(nv) = &at.meta {
                    if at.path().is_ident("doc") {
                        put!(m, "doc" => expr(&nv.value));
                    }
                }
                Value::Object(m)
            })
            .collect(),
    )
}

fn vis(v: &Visibility) -> Value {
    match v {
        Visibility::Inherited => Value::String("".into()),
        other => ts(other),
    }
}

fn generics(g: &Generics) -> Value {
    let mut params = vec![];
    for p in &g.params {
        match p {
            GenericParam::Type(t) => {
                let mut m = node("TypeParam", t);
                put!(m, "name" => Value::String(t.ident.to_string()),
                    "bounds" => Value::Array(t.bounds.iter().map(|b| ts(b)).collect()));
                params.push(Value::Object(m));
            }
            GenericParam::Const(c) => {
                let mut m = node("ConstParam", c);
                put!(m, "name" => Value::String(c.ident.to_string()), "ty" => ty(&c.ty));
                params.push(Value::Object(m));
            }
            GenericParam::Lifetime(l) => {
                let mut m = node("LifetimeParam", l);
                put!(m, "name" => Value::String(l.lifetime.to_string()));
                params.push(Value::Object(m));
            }
        }
    }
    let wh = match &g.where_clause {
        Some(w) => Value::Array(w.predicates.iter().map(|p| ts(p)).collect()),
        None => Value::Array(vec![]),
    };
    json!({"params": params, "where": wh})
}

fn path(p: &Path) -> Value {
    let mut m = node("Path", p);
    let segs: Vec<Value> = p
        .segments
        .iter()
        .map(|s| {
            let args = match &s.arguments {
                PathArguments::None => Value::Null,
                PathArguments::AngleBracketed(a) => Value::Array(
                    a.args
                        .iter()
                        .map(|ga| match ga {
                            GenericArgument::Type(t) => ty(t),
                            GenericArgument::Const(e) => expr(e),
                            GenericArgument::Lifetime(l) => {
                                json!({"t": "Lifetime", "s": l.to_string()})
                            }
                            other => json!({"t": "GenericOther", "s": ts(other)}),
                        })
                        .collect(),
                ),
                PathArguments::Parenthesized(pa) => {
                    json!({"t": "ParenArgs", "s": ts(pa)})
                }
            };
            json!({"id": s.ident.to_string(), "args": args})
        })
        .collect();
    let name = p
        .segments
        .iter()
        .map(|s| s.ident.to_string())
        .collect::<Vec<_>>()
        .join("::");
    put!(m, "segs" => Value::Array(segs), "name" => Value::String(name),
        "global" => Value::Bool(p.leading_colon.is_some()), "s" => ts(p));
    Value::Object(m)
}

fn ty(t: &Type) -> Value {
    let mut m;
    match t {
        Type::Path(p) => {
            m = node("TyPath", t);
            put!(m, "path" => path(&p.path),
                "qself" => opt(p.qself.as_ref(), |q| ty(&q.ty)));
        }
        Type::Reference(r) => {
            m = node("TyRef", t);
            put!(m, "mut" => Value::Bool(r.mutability.is_some()), "elem" => ty(&r.elem));
        }
        Type::Ptr(r) => {
            m = node("TyPtr", t);
            put!(m, "mut" => Value::Bool(r.mutability.is_some()), "elem" => ty(&r.elem));
        }
        Type::Tuple(tu) => {
            m = node("TyTuple", t);
            put!(m, "elems" => Value::Array(tu.elems.iter().map(ty).collect()));
        }
        Type::Array(a) => {
            m = node("TyArray", t);
            put!(m, "elem" => ty(&a.elem), "len" => expr(&a.len));
        }
        Type::Slice(s) => {
            m = node("TySlice", t);
            put!(m, "elem" => ty(&s.elem));
        }
        Type::Paren(p) => return ty(&p.elem),
        Type::Group(p) => return ty(&p.elem),
        Type::BareFn(f) => {
            m = node("TyBareFn", t);
            put!(m, "unsafe" => Value::Bool(f.unsafety.is_some()),
                "abi" => opt(f.abi.as_ref(), |a| ts(a)),
                "inputs" => Value::Array(f.inputs.iter().map(|a| json!({
                    "name": opt(a.name.as_ref(), |n| Value::String(n.0.to_string())),
                    "ty": ty(&a.ty)})).collect()),
                "output" => match &f.output { ReturnType::Default => Value::Null, ReturnType::Type(_, t) => ty(t) });
        }
        Type::Never(_) => m = node("TyNever", t),
        Type::Infer(_) => m = node("TyInfer", t),
        Type::ImplTrait(_) => m = node("TyImplTrait", t),
        Type::TraitObject(_) => m = node("TyTraitObject", t),
        Type::Macro(_) => m = node("TyMacro", t),
        _ => m = node("TyOther", t),
    }
    put!(m, "s" => ts(t));
    Value::Object(m)
}

fn block(b: &Block) -> Value {
    let mut m = node("Block", b);
    put!(m, "stmts" => Value::Array(b.stmts.iter().map(stmt).collect()));
    Value::Object(m)
}

fn mac(mc: &Macro) -> Value {
    let mut m = node("Macro", mc);
    let name = mc
        .path
        .segments
        .last()
        .map(|s| s.ident.to_string())
        .unwrap_or_default();
    put!(m, "path" => ts(&mc.path), "name" => Value::String(name.clone()),
        "tokens" => Value::String(norm(&mc.tokens.to_string())));
    // Try to give structure to the common function-like macros.
    let args: Option<Vec<Value>> = mc
        .parse_body_with(punctuated::Punctuated::<Expr, Token![,]>::parse_terminated)
        .ok()
        .map(|p| p.iter().map(expr).collect());
    put!(m, "args" => match args { Some(a) => Value::Array(a), None => Value::Null });
    if name == "matches" {
        struct M(Expr, Pat, Option<Expr>);
        impl parse::Parse for M {
            fn parse(input: parse::ParseStream) -> Result<Self> {
                let e: Expr = input.parse()?;
                input.parse::<Token![,]>()?;
                let p = Pat::parse_multi_with_leading_vert(input)?;
                let g = if input.peek(Token![if]) {
                    input.parse::<Token![if]>()?;
                    Some(input.parse::<Expr>()?)
                } else {
                    None
                };
                let _ = input.parse::<Option<Token![,]>>()?;
                Ok(M(e, p, g))
            }
        }
        if let Ok(M(e, p, g)) = mc.parse_body::<M>() {
            put!(m, "matches" => json!({"expr": expr(&e), "pat": pat(&p), "guard": opt(g.as_ref(), expr)}));
        }
    }
    if name == "macro_rules" {
        put!(m, "rules" => Value::Bool(true));
    }
    Value::Object(m)
}

fn stmt(s: &Stmt) -> Value {
    match s {
        Stmt::Local(l) => {
            let mut m = node("Local", l);
            put!(m, "attrs" => attrs(&l.attrs), "pat" => pat(&l.pat),
                "init" => opt(l.init.as_ref(), |i| expr(&i.expr)),
                "else" => opt(l.init.as_ref().and_then(|i| i.diverge.as_ref()), |d| expr(&d.1)));
            Value::Object(m)
        }
        Stmt::Item(i) => item(i),
        Stmt::Expr(e, semi) => {
            let mut m = node("ExprStmt", e);
            put!(m, "expr" => expr(e), "semi" => Value::Bool(semi.is_some()));
            Value::Object(m)
        }
        Stmt::Macro(sm) => {
            let mut m = node("MacroStmt", sm);
            put!(m, "attrs" => attrs(&sm.attrs), "mac" => mac(&sm.mac),
                "semi" => Value::Bool(sm.semi_token.is_some()));
            Value::Object(m)
        }
    }
}

fn member(mb: &Member) -> Value {
    match mb {
        Member::Named(i) => Value::String(i.to_string()),
        Member::Unnamed(i) => Value::String(i.index.to_string()),
    }
}

fn lit(l: &Lit) -> Value {
    let mut m = node("Lit", l);
    match l {
        Lit::Int(i) => {
            put!(m, "kind" => json!("int"), "digits" => json!(i.base10_digits()), "suffix" => json!(i.suffix()),
                "s" => json!(i.to_string()));
        }
        Lit::Bool(b) => {
            put!(m, "kind" => json!("bool"), "value" => json!(b.value));
        }
        Lit::Str(s) => {
            put!(m, "kind" => json!("str"), "value" => json!(s.value()));
        }
        Lit::Char(c) => {
            put!(m, "kind" => json!("char"), "value" => json!(c.value().to_string()));
        }
        Lit::Byte(b) => {
            put!(m, "kind" => json!("byte"), "value" => json!(b.value()));
        }
        Lit::ByteStr(b) => {
            put!(m, "kind" => json!("bytestr"), "value" => json!(b.value()));
        }
        Lit::Float(f) => {
            put!(m, "kind" => json!("float"), "s" => json!(f.to_string()));
        }
        other => {
            put!(m, "kind" => json!("other"), "s" => ts(other));
        }
    }
    Value::Object(m)
}

fn exprs<'a>(it: impl Iterator<Item = &'a Expr>) -> Value {
    Value::Array(it.map(expr).collect())
}

fn label(l: &Option<Label>) -> Value {
    opt(l.as_ref(), |l| Value::String(l.name.to_string()))
}

fn expr_attrs(e: &Expr) -> &[Attribute] {
    match e {
        Expr::Array(x) => &x.attrs,
        Expr::Assign(x) => &x.attrs,
        Expr::Binary(x) => &x.attrs,
        Expr::Block(x) => &x.attrs,
        Expr::Call(x) => &x.attrs,
        Expr::ForLoop(x) => &x.attrs,
        Expr::If(x) => &x.attrs,
        Expr::Loop(x) => &x.attrs,
        Expr::Macro(x) => &x.attrs,
        Expr::Match(x) => &x.attrs,
        Expr::MethodCall(x) => &x.attrs,
        Expr::Unsafe(x) => &x.attrs,
        Expr::While(x) => &x.attrs,
        Expr::Return(x) => &x.attrs,
        Expr::Struct(x) => &x.attrs,
        Expr::Tuple(x) => &x.attrs,
        Expr::Path(x) => &x.attrs,
        _ => &[],
    }
}

fn expr(e: &Expr) -> Value {
    let v = expr_inner(e);
    let a = expr_attrs(e);
    if a.is_empty() {
        return v;
    }
    match v {
        Value::Object(mut m) => {
            m.insert("attrs".into(), attrs(a));
            Value::Object(m)
        }
        other => other,
    }
}

fn expr_inner(e: &Expr) -> Value {
    let mut m;
    match e {
        Expr::Array(x) => {
            m = node("Array", e);
            put!(m, "elems" => exprs(x.elems.iter()));
        }
        Expr::Assign(x) => {
            m = node("Assign", e);
            put!(m, "left" => expr(&x.left), "right" => expr(&x.right));
        }
        Expr::Binary(x) => {
            m = node("Binary", e);
            put!(m, "op" => ts(&x.op), "left" => expr(&x.left), "right" => expr(&x.right));
        }
        Expr::Block(x) => {
            m = node("BlockExpr", e);
            put!(m, "block" => block(&x.block), "label" => label(&x.label));
        }
        Expr::Break(x) => {
            m = node("Break", e);
            put!(m, "expr" => opt(x.expr.as_ref(), |v| expr(v)),
                "label" => opt(x.label.as_ref(), |l| Value::String(l.to_string())));
        }
        Expr::Call(x) => {
            m = node("Call", e);
            put!(m, "func" => expr(&x.func), "args" => exprs(x.args.iter()));
        }
        Expr::Cast(x) => {
            m = node("Cast", e);
            put!(m, "expr" => expr(&x.expr), "ty" => ty(&x.ty));
        }
        Expr::Closure(x) => {
            m = node("Closure", e);
            put!(m, "inputs" => Value::Array(x.inputs.iter().map(pat).collect()),
                "body" => expr(&x.body), "move" => Value::Bool(x.capture.is_some()));
        }
        Expr::Const(x) => {
            m = node("ConstBlock", e);
            put!(m, "block" => block(&x.block));
        }
        Expr::Continue(x) => {
            m = node("Continue", e);
            put!(m, "label" => opt(x.label.as_ref(), |l| Value::String(l.to_string())));
        }
        Expr::Field(x) => {
            m = node("Field", e);
            put!(m, "base" => expr(&x.base), "member" => member(&x.member));
        }
        Expr::ForLoop(x) => {
            m = node("ForLoop", e);
            put!(m, "pat" => pat(&x.pat), "expr" => expr(&x.expr), "body" => block(&x.body),
                "label" => label(&x.label));
        }
        Expr::Group(x) => return expr(&x.expr),
        Expr::If(x) => {
            m = node("If", e);
            put!(m, "cond" => expr(&x.cond), "then" => block(&x.then_branch),
                "else" => opt(x.else_branch.as_ref(), |b| expr(&b.1)));
        }
        Expr::Index(x) => {
            m = node("Index", e);
            put!(m, "expr" => expr(&x.expr), "index" => expr(&x.index));
        }
        Expr::Infer(_) => m = node("Infer", e),
        Expr::Let(x) => {
            m = node("Let", e);
            put!(m, "pat" => pat(&x.pat), "expr" => expr(&x.expr));
        }
        Expr::Lit(x) => return lit(&x.lit),
        Expr::Loop(x) => {
            m = node("Loop", e);
            put!(m, "body" => block(&x.body), "label" => label(&x.label));
        }
        Expr::Macro(x) => {
            m = node("MacroExpr", e);
            put!(m, "mac" => mac(&x.mac));
        }
        Expr::Match(x) => {
            m = node("Match", e);
            let arms: Vec<Value> = x
                .arms
                .iter()
                .map(|a| {
                    let mut am = node("Arm", a);
                    put!(am, "attrs" => attrs(&a.attrs), "pat" => pat(&a.pat),
                        "guard" => opt(a.guard.as_ref(), |g| expr(&g.1)), "body" => expr(&a.body));
                    Value::Object(am)
                })
                .collect();
            put!(m, "expr" => expr(&x.expr), "arms" => Value::Array(arms));
        }
        Expr::MethodCall(x) => {
            m = node("MethodCall", e);
            put!(m, "receiver" => expr(&x.receiver), "method" => Value::String(x.method.to_string()),
                "turbofish" => opt(x.turbofish.as_ref(), |t| Value::Array(t.args.iter().map(|ga| match ga {
                    GenericArgument::Type(t) => ty(t),
                    GenericArgument::Const(e) => expr(e),
                    other => json!({"t": "GenericOther", "s": ts(other)}),
                }).collect())),
                "args" => exprs(x.args.iter()));
        }
        Expr::Paren(x) => {
            m = node("Paren", e);
            put!(m, "expr" => expr(&x.expr));
        }
        Expr::Path(x) => {
            m = node("PathExpr", e);
            put!(m, "path" => path(&x.path), "qself" => opt(x.qself.as_ref(), |q| ty(&q.ty)));
        }
        Expr::Range(x) => {
            m = node("Range", e);
            put!(m, "start" => opt(x.start.as_ref(), |v| expr(v)), "end" => opt(x.end.as_ref(), |v| expr(v)),
                "closed" => Value::Bool(matches!(x.limits, RangeLimits::Closed(_))));
        }
        Expr::RawAddr(x) => {
            m = node("RawAddr", e);
            put!(m, "mut" => Value::Bool(matches!(x.mutability, PointerMutability::Mut(_))), "expr" => expr(&x.expr));
        }
        Expr::Reference(x) => {
            m = node("Reference", e);
            put!(m, "mut" => Value::Bool(x.mutability.is_some()), "expr" => expr(&x.expr));
        }
        Expr::Repeat(x) => {
            m = node("Repeat", e);
            put!(m, "expr" => expr(&x.expr), "len" => expr(&x.len));
        }
        Expr::Return(x) => {
            m = node("Return", e);
            put!(m, "expr" => opt(x.expr.as_ref(), |v| expr(v)));
        }
        Expr::Struct(x) => {
            m = node("StructExpr", e);
            put!(m, "path" => path(&x.path),
                "fields" => Value::Array(x.fields.iter().map(|f| json!({
                    "member": member(&f.member), "expr": expr(&f.expr),
                    "shorthand": f.colon_token.is_none(), "sp": sp(f.span())})).collect()),
                "rest" => opt(x.rest.as_ref(), |r| expr(r)));
        }
        Expr::Try(x) => {
            m = node("Try", e);
            put!(m, "expr" => expr(&x.expr));
        }
        Expr::Tuple(x) => {
            m = node("Tuple", e);
            put!(m, "elems" => exprs(x.elems.iter()));
        }
        Expr::Unary(x) => {
            m = node("Unary", e);
            put!(m, "op" => ts(&x.op), "expr" => expr(&x.expr));
        }
        Expr::Unsafe(x) => {
            m = node("Unsafe", e);
            put!(m, "block" => block(&x.block));
        }
        Expr::While(x) => {
            m = node("While", e);
            put!(m, "cond" => expr(&x.cond), "body" => block(&x.body), "label" => label(&x.label));
        }
        Expr::Async(_) => m = node("Async", e),
        Expr::Await(_) => m = node("Await", e),
        Expr::TryBlock(_) => m = node("TryBlock", e),
        Expr::Yield(_) => m = node("Yield", e),
        Expr::Verbatim(v) => {
            m = node("Verbatim", e);
            put!(m, "s" => ts(v));
        }
        _ => {
            m = node("ExprOther", e);
            put!(m, "s" => ts(e));
        }
    }
    Value::Object(m)
}

fn pat(p: &Pat) -> Value {
    let mut m;
    match p {
        Pat::Ident(x) => {
            m = node("PIdent", p);
            put!(m, "name" => Value::String(x.ident.to_string()), "by_ref" => Value::Bool(x.by_ref.is_some()),
                "mut" => Value::Bool(x.mutability.is_some()),
                "sub" => opt(x.subpat.as_ref(), |s| pat(&s.1)));
        }
        Pat::Lit(x) => {
            m = node("PLit", p);
            put!(m, "lit" => lit(&x.lit));
        }
        Pat::Or(x) => {
            m = node("POr", p);
            put!(m, "cases" => Value::Array(x.cases.iter().map(pat).collect()));
        }
        Pat::Paren(x) => return pat(&x.pat),
        Pat::Path(x) => {
            m = node("PPath", p);
            put!(m, "path" => path(&x.path));
        }
        Pat::Range(x) => {
            m = node("PRange", p);
            put!(m, "start" => opt(x.start.as_ref(), |v| expr(v)), "end" => opt(x.end.as_ref(), |v| expr(v)),
                "closed" => Value::Bool(matches!(x.limits, RangeLimits::Closed(_))));
        }
        Pat::Reference(x) => {
            m = node("PRef", p);
            put!(m, "mut" => Value::Bool(x.mutability.is_some()), "pat" => pat(&x.pat));
        }
        Pat::Rest(_) => m = node("PRest", p),
        Pat::Slice(x) => {
            m = node("PSlice", p);
            put!(m, "elems" => Value::Array(x.elems.iter().map(pat).collect()));
        }
        Pat::Struct(x) => {
            m = node("PStruct", p);
            put!(m, "path" => path(&x.path),
                "fields" => Value::Array(x.fields.iter().map(|f| json!({
                    "member": member(&f.member), "pat": pat(&f.pat)})).collect()),
                "rest" => Value::Bool(x.rest.is_some()));
        }
        Pat::Tuple(x) => {
            m = node("PTuple", p);
            put!(m, "elems" => Value::Array(x.elems.iter().map(pat).collect()));
        }
        Pat::TupleStruct(x) => {
            m = node("PTupleStruct", p);
            put!(m, "path" => path(&x.path), "elems" => Value::Array(x.elems.iter().map(pat).collect()));
        }
        Pat::Type(x) => {
            m = node("PType", p);
            put!(m, "pat" => pat(&x.pat), "ty" => ty(&x.ty));
        }
        Pat::Wild(_) => m = node("PWild", p),
        Pat::Const(x) => {
            m = node("PConst", p);
            put!(m, "block" => block(&x.block));
        }
        Pat::Macro(x) => {
            m = node("PMacro", p);
            put!(m, "mac" => mac(&x.mac));
        }
        _ => {
            m = node("PatOther", p);
            put!(m, "s" => ts(p));
        }
    }
    Value::Object(m)
}

fn sig(s: &Signature) -> Value {
    let inputs: Vec<Value> = s
        .inputs
        .iter()
        .map(|a| match a {
            FnArg::Receiver(r) => json!({"t": "Receiver", "ref": r.reference.is_some(),
                "mut": r.mutability.is_some(), "ty": ty(&r.ty), "sp": sp(r.span())}),
            FnArg::Typed(t) => json!({"t": "Arg", "pat": pat(&t.pat), "ty": ty(&t.ty), "sp": sp(t.span())}),
        })
        .collect();
    json!({
        "name": s.ident.to_string(),
        "const": s.constness.is_some(),
        "unsafe": s.unsafety.is_some(),
        "abi": opt(s.abi.as_ref(), |a| opt(a.name.as_ref(), |n| Value::String(n.value()))),
        "generics": generics(&s.generics),
        "inputs": inputs,
        "output": match &s.output { ReturnType::Default => Value::Null, ReturnType::Type(_, t) => ty(t) },
    })
}

fn fields(f: &Fields) -> Value {
    let list = |it: &mut dyn Iterator<Item = &Field>| -> Vec<Value> {
        it.enumerate()
            .map(|(i, f)| {
                json!({"name": match &f.ident { Some(id) => id.to_string(), None => i.to_string() },
                    "ty": ty(&f.ty), "vis": vis(&f.vis), "attrs": attrs(&f.attrs), "sp": sp(f.span())})
            })
            .collect()
    };
    match f {
        Fields::Named(n) => json!({"kind": "named", "fields": list(&mut n.named.iter())}),
        Fields::Unnamed(n) => json!({"kind": "tuple", "fields": list(&mut n.unnamed.iter())}),
        Fields::Unit => json!({"kind": "unit", "fields": []}),
    }
}

fn item(i: &Item) -> Value {
    let mut m;
    match i {
        Item::Fn(f) => {
            m = node("Fn", i);
            put!(m, "name" => Value::String(f.sig.ident.to_string()), "attrs" => attrs(&f.attrs),
                "vis" => vis(&f.vis), "sig" => sig(&f.sig), "body" => block(&f.block));
        }
        Item::Impl(im) => {
            m = node("Impl", i);
            let items: Vec<Value> = im
                .items
                .iter()
                .map(|ii| match ii {
                    ImplItem::Fn(f) => {
                        let mut fm = node("Fn", ii);
                        put!(fm, "name" => Value::String(f.sig.ident.to_string()), "attrs" => attrs(&f.attrs),
                            "vis" => vis(&f.vis), "sig" => sig(&f.sig), "body" => block(&f.block));
                        Value::Object(fm)
                    }
                    ImplItem::Const(c) => {
                        let mut cm = node("Const", ii);
                        put!(cm, "name" => Value::String(c.ident.to_string()), "attrs" => attrs(&c.attrs),
                            "ty" => ty(&c.ty), "expr" => expr(&c.expr));
                        Value::Object(cm)
                    }
                    ImplItem::Type(t) => {
                        let mut tm = node("TypeAlias", ii);
                        put!(tm, "name" => Value::String(t.ident.to_string()), "ty" => ty(&t.ty));
                        Value::Object(tm)
                    }
                    ImplItem::Macro(mm) => {
                        let mut x = node("ItemMacro", ii);
                        put!(x, "mac" => mac(&mm.mac));
                        Value::Object(x)
                    }
                    other => {
                        let mut x = node("ImplItemOther", ii);
                        put!(x, "s" => ts(other));
                        Value::Object(x)
                    }
                })
                .collect();
            put!(m, "attrs" => attrs(&im.attrs), "generics" => generics(&im.generics),
                "unsafe" => Value::Bool(im.unsafety.is_some()),
                "trait" => opt(im.trait_.as_ref(), |t| path(&t.1)),
                "negative" => Value::Bool(im.trait_.as_ref().map(|t| t.0.is_some()).unwrap_or(false)),
                "self_ty" => ty(&im.self_ty), "items" => Value::Array(items));
        }
        Item::Struct(s) => {
            m = node("Struct", i);
            put!(m, "name" => Value::String(s.ident.to_string()), "attrs" => attrs(&s.attrs), "vis" => vis(&s.vis),
                "generics" => generics(&s.generics), "fields" => fields(&s.fields));
        }
        Item::Union(s) => {
            m = node("Union", i);
            put!(m, "name" => Value::String(s.ident.to_string()), "attrs" => attrs(&s.attrs), "vis" => vis(&s.vis),
                "generics" => generics(&s.generics), "fields" => fields(&Fields::Named(s.fields.clone())));
        }
        Item::Enum(en) => {
            m = node("Enum", i);
            let vars: Vec<Value> = en
                .variants
                .iter()
                .map(|v| {
                    json!({"name": v.ident.to_string(), "fields": fields(&v.fields), "attrs": attrs(&v.attrs),
                        "disc": opt(v.discriminant.as_ref(), |d| expr(&d.1)), "sp": sp(v.span())})
                })
                .collect();
            put!(m, "name" => Value::String(en.ident.to_string()), "attrs" => attrs(&en.attrs), "vis" => vis(&en.vis),
                "generics" => generics(&en.generics), "variants" => Value::Array(vars));
        }
        Item::Trait(t) => {
            m = node("Trait", i);
            let items: Vec<Value> = t
                .items
                .iter()
                .map(|ti| match ti {
                    TraitItem::Fn(f) => {
                        let mut fm = node("Fn", ti);
                        put!(fm, "name" => Value::String(f.sig.ident.to_string()), "attrs" => attrs(&f.attrs),
                            "vis" => Value::String("".into()), "sig" => sig(&f.sig),
                            "body" => opt(f.default.as_ref(), |b| block(b)));
                        Value::Object(fm)
                    }
                    TraitItem::Const(c) => {
                        let mut cm = node("Const", ti);
                        put!(cm, "name" => Value::String(c.ident.to_string()), "attrs" => attrs(&c.attrs),
                            "ty" => ty(&c.ty), "expr" => opt(c.default.as_ref(), |d| expr(&d.1)));
                        Value::Object(cm)
                    }
                    TraitItem::Type(ty_) => {
                        let mut tm = node("TypeAlias", ti);
                        put!(tm, "name" => Value::String(ty_.ident.to_string()), "ty" => Value::Null);
                        Value::Object(tm)
                    }
                    other => {
                        let mut x = node("TraitItemOther", ti);
                        put!(x, "s" => ts(other));
                        Value::Object(x)
                    }
                })
                .collect();
            put!(m, "name" => Value::String(t.ident.to_string()), "attrs" => attrs(&t.attrs), "vis" => vis(&t.vis),
                "generics" => generics(&t.generics), "unsafe" => Value::Bool(t.unsafety.is_some()),
                "supertraits" => Value::Array(t.supertraits.iter().map(|b| ts(b)).collect()),
                "items" => Value::Array(items));
        }
        Item::Mod(md) => {
            m = node("Mod", i);
            put!(m, "name" => Value::String(md.ident.to_string()), "attrs" => attrs(&md.attrs), "vis" => vis(&md.vis),
                "items" => opt(md.content.as_ref(), |c| Value::Array(c.1.iter().map(item).collect())));
        }
        Item::Use(u) => {
            m = node("Use", i);
            put!(m, "attrs" => attrs(&u.attrs), "vis" => vis(&u.vis), "tree" => ts(&u.tree));
        }
        Item::Const(c) => {
            m = node("Const", i);
            put!(m, "name" => Value::String(c.ident.to_string()), "attrs" => attrs(&c.attrs), "vis" => vis(&c.vis),
                "ty" => ty(&c.ty), "expr" => expr(&c.expr));
        }
        Item::Static(s) => {
            m = node("Static", i);
            put!(m, "name" => Value::String(s.ident.to_string()), "attrs" => attrs(&s.attrs), "vis" => vis(&s.vis),
                "mut" => Value::Bool(matches!(s.mutability, StaticMutability::Mut(_))),
                "ty" => ty(&s.ty), "expr" => expr(&s.expr));
        }
        Item::Type(t) => {
            m = node("TypeAlias", i);
            put!(m, "name" => Value::String(t.ident.to_string()), "attrs" => attrs(&t.attrs),
                "generics" => generics(&t.generics), "ty" => ty(&t.ty));
        }
        Item::Macro(mc) => {
            m = node("ItemMacro", i);
            put!(m, "attrs" => attrs(&mc.attrs),
                "name" => opt(mc.ident.as_ref(), |id| Value::String(id.to_string())),
                "mac" => mac(&mc.mac));
        }
        Item::ExternCrate(ec) => {
            m = node("ExternCrate", i);
            put!(m, "name" => Value::String(ec.ident.to_string()));
        }
        Item::ForeignMod(fm) => {
            m = node("ForeignMod", i);
            put!(m, "s" => ts(fm));
        }
        Item::TraitAlias(_) => m = node("TraitAlias", i),
        Item::Verbatim(v) => {
            m = node("ItemVerbatim", i);
            put!(m, "s" => Value::String(norm(&TokenStream::to_string(v))));
        }
        _ => {
            m = node("ItemOther", i);
            put!(m, "s" => ts(i));
        }
    }
    Value::Object(m)
}

fn main() {
    let mut files = vec![];
    let mut root = String::new();
    let mut args = std::env::args().skip(1);
    while let Some(a) = args.next() {
        if a == "--root" {
            root = args.next().expect("--root DIR");
        } else {
            files.push(a);
        }
    }
    let mut out = vec![];
    for f in &files {
        let text = match std::fs::read_to_string(f) {
            Ok(t) => t,
            Err(e) => {
                eprintln!("astdump: cannot read {f}: {e}");
                std::process::exit(2);
            }
        };
        let ast = match syn::parse_file(&text) {
            Ok(a) => a,
            Err(e) => {
                let s = e.span().start();
                eprintln!("astdump: cannot parse {f}:{}:{}: {e}", s.line, s.column);
                std::process::exit(2);
            }
        };
        let rel = if !root.is_empty() && f.starts_with(&root) {
            f[root.len()..].trim_start_matches('/').to_string()
        } else {
            f.clone()
        };
        out.push(json!({
            "path": rel,
            "abs": f,
            "attrs": attrs(&ast.attrs),
            "items": Value::Array(ast.items.iter().map(item).collect()),
        }));
    }
    let doc = json!({"files": out});
    println!("{}", serde_json::to_string(&doc).unwrap());
}
