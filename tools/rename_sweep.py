#!/usr/bin/env python3
"""Metamorphic robustness sweep of the checkers: rename one local variable / parameter inside one function
(a behaviour-preserving edit), run the checks that analyse that file against a scratch copy, and report every
violation that appears on a variant that still compiles - each one is a false alarm of the checker.
usage: rename_sweep.py [--files f1,f2] [--jobs N] [--out report.json]"""
import json, os, re, shutil, subprocess, sys, tempfile, glob
from concurrent.futures import ThreadPoolExecutor
VERIF = os.path.dirname(os.path.dirname(os.path.abspath(__file__)))
sys.path.insert(0, os.path.join(VERIF, "lib"))
from common import load_ast, walk, walk_t, is_test_item

def bindings(fn):
    names = set()
    banned = set()
    for p in fn["sig"]["inputs"]:
        if p["t"] == "Arg":
            for n in walk_t(p["pat"], "PIdent"):
                names.add(n["name"])
    body = fn.get("body") or {}
    for n in walk(body):
        t = n.get("t")
        if t == "PIdent":
            names.add(n["name"])
        if t == "PStruct":
            for f in n["fields"]:
                if f["pat"].get("t") == "PIdent" and f["pat"]["name"] == f["member"]:
                    banned.add(f["member"])
        if t == "StructExpr":
            for f in n["fields"]:
                if f.get("shorthand"):
                    banned.add(f["member"])
        if t == "Macro":
            for m in re.findall(r"\{([A-Za-z_][A-Za-z0-9_]*)[:}]", n.get("tokens", "")):
                banned.add(m)
    names -= banned
    names -= {"self", "None", "Some", "Ok", "Err", "_"}
    return sorted(n for n in names if not n[0].isupper())

def props_for(path):
    out = []
    for f in glob.glob(os.path.join(VERIF, "evidence", "C*.json")):
        e = json.load(open(f))
        if path in e["coverage"].get("files_analysed", []):
            out.append(e["property_id"])
    return sorted(out)

def variant(path, fn, name):
    l0, _, l1, _ = fn["sp"]
    lines = open(os.path.join("/repo", path)).read().split("\n")
    pat = re.compile(r"(?<![.:\w])" + re.escape(name) + r"(?![\w!]|::)")
    new = name + "_rn"
    changed = 0
    for i in range(l0 - 1, l1):
        # leave string literals alone (renaming inside them would change behaviour)
        segs = lines[i].split('"')
        k = 0
        for j in range(0, len(segs), 2):
            segs[j], kk = pat.subn(new, segs[j])
            k += kk
        lines[i] = '"'.join(segs)
        changed += k
    return "\n".join(lines), changed

def run(job):
    path, fname, name, text, props = job
    d = tempfile.mkdtemp(prefix="hpbf-rn-")
    try:
        for n in ("src", "Cargo.toml", "Cargo.lock", "benches", "examples"):
            s = os.path.join("/repo", n)
            shutil.copytree(s, os.path.join(d, n)) if os.path.isdir(s) else shutil.copy(s, d)
        open(os.path.join(d, path), "w").write(text)
        hits = []
        for prop in props:
            env = dict(os.environ, HPBF_REPO=d, HPBF_NO_EVIDENCE="1", HPBF_NO_CONTROLS="1")
            q = subprocess.run([os.path.join(VERIF, "check"), prop], env=env, capture_output=True, text=True)
            fired = [l.strip() for l in q.stdout.splitlines() if l.strip().startswith("violation [")]
            if fired:
                hits.append((prop, fired[0][:300]))
        if hits:
            c = subprocess.run(["cargo", "check", "--offline", "--quiet", "--lib", "--bins"], cwd=d, capture_output=True, text=True,
                               env=dict(os.environ, CARGO_TARGET_DIR=os.path.join(d, "target"), RUSTFLAGS="-Awarnings"))
            if c.returncode != 0:
                return None
            return {"file": path, "fn": fname, "renamed": name, "hits": hits}
        return None
    finally:
        shutil.rmtree(d, ignore_errors=True)

def main():
    args = sys.argv[1:]
    files = None
    jobs = 8
    out = "/tmp/rename_sweep.json"
    i = 0
    while i < len(args):
        if args[i] == "--files":
            files = args[i + 1].split(","); i += 2
        elif args[i] == "--jobs":
            jobs = int(args[i + 1]); i += 2
        elif args[i] == "--out":
            out = args[i + 1]; i += 2
        else:
            i += 1
    ast = load_ast()
    work = []
    for f in ast.functions():
        if is_test_item(f) or not f["node"].get("body"):
            continue
        path = f["path"]
        if files and path not in files:
            continue
        props = props_for(path)
        if not props:
            continue
        for name in bindings(f["node"]):
            text, changed = variant(path, f["node"], name)
            if changed:
                work.append((path, f["container"] + "::" + f["name"], name, text, props))
    print(len(work), "variants")
    res = []
    with ThreadPoolExecutor(max_workers=jobs) as ex:
        for r in ex.map(run, work):
            if r:
                res.append(r)
                print("FALSE ALARM", r["file"], r["fn"], r["renamed"], r["hits"][0])
                sys.stdout.flush()
    json.dump(res, open(out, "w"), indent=1)
    print("done:", len(res), "false alarms out of", len(work), "variants")

main()
