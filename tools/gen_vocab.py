#!/usr/bin/env python3
"""Writes lib/vocab.json: the functions (container::name per file) of the tree the rules were written and confirmed
against.  A function of the analysed tree that is not in this vocabulary is a helper introduced later; the loader
looks through it (its body is inlined at its call sites) so that extracting a helper does not change what the
rules see.  Regenerate only after re-confirming the rules against a new baseline."""
import json, os, sys
VERIF = os.path.dirname(os.path.dirname(os.path.abspath(__file__)))
sys.path.insert(0, os.path.join(VERIF, "lib"))
os.environ["HPBF_NO_LOOKTHROUGH"] = "1"
import common
out = {}
a = common.load_ast()
for f in a.functions():
    out.setdefault(f["path"], []).append(f["container"] + "::" + f["name"])
    out.setdefault("sig:" + f["path"], {})[f["container"] + "::" + f["name"]] = common.fn_signature(f["node"])
x = common.load_expanded()
for f in x.functions():
    out.setdefault("expanded:" + f["path"], []).append(f["container"] + "::" + f["name"])
import mir
fx = mir.load_facts()
out["mir:lib"] = [mir.strip_generics(f["name"]) for f in fx.functions("lib")]
for k in out:
    if isinstance(out[k], list):
        out[k] = sorted(set(out[k]))
json.dump(out, open(os.path.join(VERIF, "lib", "vocab.json"), "w"), indent=0, sort_keys=True)
print({k: len(v) for k, v in out.items()})
