#!/usr/bin/env python3
"""Apply each behaviour-preserving patch under <root>/out/<set>/<k>/patch.diff to a scratch copy and run ALL checks;
every violation is a false alarm candidate. usage: try_neutral.py <root> [set...]"""
import glob, json, os, shutil, subprocess, sys, tempfile
from concurrent.futures import ThreadPoolExecutor
VERIF = "/verif"
sys.path.insert(0, VERIF + "/lib")
import props
root = sys.argv[1]
sets = sys.argv[2:]
patches = sorted(glob.glob(f"{root}/out/*/*/patch.diff"))
if sets:
    patches = [p for p in patches if p.split("/")[-3] in sets]
def run(p):
    d = tempfile.mkdtemp(prefix="hpbf-neu-")
    try:
        for n in ("src", "Cargo.toml", "Cargo.lock", "benches", "examples"):
            s = os.path.join("/repo", n)
            shutil.copytree(s, os.path.join(d, n)) if os.path.isdir(s) else shutil.copy(s, d)
        q = subprocess.run(["patch", "-p1", "-s", "-i", p], cwd=d, capture_output=True, text=True)
        if q.returncode != 0:
            return p, [("patch", "does not apply")]
        files = [l[6:].strip() for l in open(p) if l.startswith("+++ b/")]
        hits = []
        for prop in sorted(props.REGISTRY):
            ev = json.load(open(f"{VERIF}/evidence/{prop}.json"))
            if not any(f in ev["coverage"].get("files_analysed", []) for f in files):
                continue
            env = dict(os.environ, HPBF_REPO=d, HPBF_NO_EVIDENCE="1", HPBF_NO_CONTROLS="1")
            r = subprocess.run([f"{VERIF}/check", prop], env=env, capture_output=True, text=True)
            fired = [l.strip() for l in r.stdout.splitlines() if l.strip().startswith("violation [")]
            for f in fired[:3]:
                hits.append((prop, f[:260]))
        return p, hits
    finally:
        shutil.rmtree(d, ignore_errors=True)
with ThreadPoolExecutor(max_workers=6) as ex:
    tot = 0
    for p, hits in ex.map(run, patches):
        tag = "/".join(p.split("/")[-3:-1])
        if hits:
            tot += 1
            print("ALARM", tag, open(os.path.dirname(p) + "/notes.md").read().strip().split("\n")[0][:100])
            seen = set()
            for prop, h in hits:
                if h not in seen:
                    print("      ", prop, h)
                    seen.add(h)
        else:
            print("silent", tag)
    print(tot, "of", len(patches), "neutral patches raise an alarm")
