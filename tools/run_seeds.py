#!/usr/bin/env python3
"""Runs the checks against every seeded change under /verif/seeded (applied to a scratch copy of /repo,
never to /repo itself) and records which rules report it in seeded/<id>/meta.json ('detected_by').
usage: run_seeds.py [--all-props] [id...]"""
import json, os, subprocess, sys, glob, shutil, tempfile
from concurrent.futures import ThreadPoolExecutor
VERIF = os.path.dirname(os.path.dirname(os.path.abspath(__file__)))
sys.path.insert(0, os.path.join(VERIF, "lib"))

def run(seed_dir, props):
    meta = json.load(open(os.path.join(seed_dir, "meta.json")))
    d = tempfile.mkdtemp(prefix="hpbf-seed-")
    try:
        for name in ("src", "Cargo.toml", "Cargo.lock", "benches", "examples"):
            s = os.path.join("/repo", name)
            if os.path.isdir(s):
                shutil.copytree(s, os.path.join(d, name))
            elif os.path.exists(s):
                shutil.copy(s, d)
        p = subprocess.run(["patch", "-p1", "-s", "-i", os.path.join(seed_dir, "patch.diff")], cwd=d, capture_output=True, text=True)
        if p.returncode != 0:
            return meta["id"], {"error": "patch does not apply: " + p.stdout[-200:]}
        out = {}
        for prop in props:
            env = dict(os.environ, HPBF_REPO=d, HPBF_NO_EVIDENCE="1", HPBF_NO_CONTROLS="1")
            q = subprocess.run([os.path.join(VERIF, "check"), prop], env=env, capture_output=True, text=True)
            fired = [l.strip() for l in q.stdout.splitlines() if l.strip().startswith("violation [")]
            rules = sorted({l.split("[", 1)[1].split("]", 1)[0] for l in fired})
            if rules:
                out[prop] = {"rules": rules, "first": fired[0][:260]}
        return meta["id"], out
    finally:
        shutil.rmtree(d, ignore_errors=True)

def main():
    import props
    args = [a for a in sys.argv[1:] if not a.startswith("--")]
    allp = "--all-props" in sys.argv
    dirs = sorted(glob.glob(os.path.join(VERIF, "seeded", "*")))
    dirs = [d for d in dirs if os.path.exists(os.path.join(d, "meta.json")) and (not args or os.path.basename(d) in args)]
    def job(d):
        meta = json.load(open(os.path.join(d, "meta.json")))
        ps = sorted(props.REGISTRY) if allp else [meta["breaks_property"]]
        return d, run(d, [p for p in ps if p in props.REGISTRY])
    with ThreadPoolExecutor(max_workers=8) as ex:
        for d, (sid, out) in ex.map(job, dirs):
            meta = json.load(open(os.path.join(d, "meta.json")))
            own = meta["breaks_property"]
            meta["detected_by"] = out
            meta["detected"] = bool(out.get(own)) if isinstance(out, dict) else False
            json.dump(meta, open(os.path.join(d, "meta.json"), "w"), indent=1)
            print(sid, "DETECTED" if meta["detected"] else "missed", {k: v["rules"] for k, v in out.items()} if isinstance(out, dict) and "error" not in out else out)

main()
