#!/usr/bin/env python3
"""Confirm a seeded change: applies /tmp/seed/out/<id>/<k>/patch.diff in a scratch worktree of /repo,
checks (1) demo passes without the patch, (2) the unedited test suite passes with it, (3) the demo
fails with it.  Writes result JSON to /tmp/seed/val/<id>_<k>.json and removes the worktree."""
import json, os, re, shutil, subprocess, sys

def sh(cmd, cwd, timeout=1500):
    p = subprocess.run(["bash", "-c", f"ulimit -v {os.environ.get('VALIDATE_ULIMIT', '10000000')}; timeout -k 5 {timeout} {cmd}"], cwd=cwd, capture_output=True, text=True, errors="replace")
    return p.returncode, p.stdout + p.stderr

def demo(wt, d, k):
    f = os.path.join(d, f"demo_{k}.rs")
    sh_f = os.path.join(d, f"demo_{k}.sh")
    if os.path.exists(f):
        txt = open(f).read()
        if "fn main" in txt:
            shutil.copy(f, os.path.join(wt, "examples", f"demo_{k}.rs"))
            rel = " --release" if os.environ.get("DEMO_RELEASE") else ""
            rc, out = sh(f"cargo run --offline -q{rel} --example demo_{k}", wt, 900)
            os.remove(os.path.join(wt, "examples", f"demo_{k}.rs"))
            return rc == 0, out[-1500:]
        # a #[test] module: append to the file named in a marker comment or in meta
        m = re.search(r"append(?:ed)? to\s+`?(src/[\w/]+\.rs)", open(os.path.join(d, "notes.md")).read())
        tgt = os.environ.get("DEMO_TARGET") or (m.group(1) if m else None)
        if not tgt:
            return None, "cannot find target file for test-mod demo"
        p = os.path.join(wt, tgt)
        orig = open(p).read()
        open(p, "w").write(orig + "\n" + txt)
        filt = os.environ.get("DEMO_FILTER") or f"demo_{k}"
        rc, out = sh(f"cargo test --offline --lib {filt}", wt, 900)
        open(p, "w").write(orig)
        ok = rc == 0 and re.search(r"test result: ok\. [1-9]\d* passed", out) is not None
        return ok, out[-1500:]
    if os.path.exists(sh_f):
        shutil.copy(sh_f, os.path.join(wt, "examples", f"demo_{k}.sh"))
        rc, out = sh(f"cargo build --offline -q 2>/dev/null; bash examples/demo_{k}.sh {wt}/target/debug/hpbf", wt, 600)
        os.remove(os.path.join(wt, "examples", f"demo_{k}.sh"))
        return rc == 0, out[-1500:]
    return None, "no demo found"

def main():
    pid, k = sys.argv[1], sys.argv[2]
    root = os.environ.get("SEED_ROOT", "/tmp/seed")
    d = f"{root}/out/{pid}/{k}"
    wt = f"/tmp/seedval/{pid}_{k}"
    os.makedirs("/tmp/seedval", exist_ok=True)
    os.makedirs(f"{root}/val", exist_ok=True)
    subprocess.run(["git", "-C", "/repo", "worktree", "remove", "--force", wt], capture_output=True)
    subprocess.run(["git", "-C", "/repo", "worktree", "add", "-q", "--detach", wt, "HEAD"], check=True)
    res = {"id": pid, "k": k}
    try:
        ok0, out0 = demo(wt, d, k)
        res["demo_without_patch_passes"] = ok0
        res["demo_without_log"] = out0[-600:]
        p = subprocess.run(["git", "apply", os.path.join(d, "patch.diff")], cwd=wt, capture_output=True, text=True, errors="replace")
        res["patch_applies"] = p.returncode == 0
        if p.returncode != 0:
            res["apply_err"] = p.stderr[-500:]
        else:
            rc, out = sh("cargo test --workspace --no-fail-fast --offline", wt, 1500)
            lines = [l for l in out.splitlines() if l.startswith("test result")]
            res["test_lines"] = lines
            res["tests_pass"] = rc == 0 and any("186 passed; 0 failed" in l for l in lines)
            ok1, out1 = demo(wt, d, k)
            res["demo_with_patch_passes"] = ok1
            res["demo_with_log"] = out1[-600:]
        res["confirmed"] = bool(res.get("demo_without_patch_passes") is True and res.get("tests_pass") and res.get("demo_with_patch_passes") is False)
    finally:
        subprocess.run("pkill -f /tmp/seedval/%s_%s/target" % (pid, k), shell=True)
        subprocess.run(["git", "-C", "/repo", "worktree", "remove", "--force", wt], capture_output=True)
        shutil.rmtree(wt, ignore_errors=True)
    json.dump(res, open(f"{root}/val/{pid}_{k}.json", "w"), indent=1)
    print(pid, k, "confirmed" if res.get("confirmed") else "NOT CONFIRMED", {x: res.get(x) for x in ("demo_without_patch_passes", "patch_applies", "tests_pass", "demo_with_patch_passes")})

main()
