#!/bin/bash
# usage: check_patch.sh <patch.diff> <prop>... : run checks against a scratch copy of /repo with the patch applied
set -e
P=$1; shift
D=$(mktemp -d /tmp/hpbf-patch-XXXX)
cp -r /repo/src /repo/Cargo.toml /repo/Cargo.lock /repo/benches /repo/examples $D/ 2>/dev/null || true
( cd $D && patch -p1 -s < $P ) || { echo "PATCH FAILED"; rm -rf $D; exit 2; }
rc=0
for prop in "$@"; do
  HPBF_REPO=$D HPBF_NO_EVIDENCE=1 HPBF_NO_CONTROLS=1 /verif/check $prop | grep -E "violation \[|^== .*violation" | cut -c1-400 | head -${MAXL:-6} || true
done
rm -rf $D
