"""Rules over E2 facts (type-checked MIR, resolved callees, full types, layouts, const-eval).

ALLOC-NULL/MIR   null test of every raw allocation result dominates every use; null edge diverges.
HASH-SEED/TY     hasher type argument of every hash container type that occurs in the library.
EXEC-FREEZE/TY   executors are Freeze at every cell width; no mutable/interior-mutable static.
ABI-OFFSETS/TY   layout_of offsets of Memory/Context fields equal what the JIT hard-codes.
CELL-CONSTS/CE   const-evaluated BITS/ZERO/ONE/NEG_ONE of the four impls.
CELL-DELEGATE/RES wrapping_* resolve to the inherent primitive methods (no self-recursion).
READ-NOALLOC/CG  call-graph reachability from the read-only tape API.
SITES/RES        the E1 rules saw every resolved call site of Context::input/output, execute_unsafe,
                 and every iteration over a RandomState container (completeness of E1 enumeration).
COUNTER-WIDTH    integer counters of the in-place interpreter and the parser are not 8-bit.
ERR-POS/TY       the parser's scan iterator is Enumerate<Chars>.
NONREC/CG        parse and the in-place interpreter are not on a call-graph cycle.
"""
import re
from common import *
from mir import *

ALLOC = ("std::alloc::alloc", "std::alloc::alloc_zeroed", "std::alloc::realloc", "alloc::alloc::alloc", "alloc::alloc::alloc_zeroed", "alloc::alloc::realloc")
DIVERGE_OK = ("std::alloc::handle_alloc_error", "alloc::alloc::handle_alloc_error", "std::process::abort", "core::panicking::panic", "core::panicking::panic_fmt",
              "std::rt::begin_panic", "core::panicking::panic_nounwind", "core::panicking::assert_failed", "std::rt::panic_fmt")


def split_args(s):
    """Top-level generic arguments of `Path<A, B<C>, D>` -> (path, [A, B<C>, D])."""
    i = s.find("<")
    if i < 0 or not s.endswith(">"):
        return s, []
    path, inner = s[:i], s[i + 1:-1]
    out, depth, cur = [], 0, ""
    for c in inner:
        if c in "<([":
            depth += 1
        elif c in ">)]":
            depth -= 1
        if c == "," and depth == 0:
            out.append(cur.strip())
            cur = ""
        else:
            cur += c
    if cur.strip():
        out.append(cur.strip())
    return path, out


def find_types(s, heads):
    """All occurrences of `head<...>` inside a type string (balanced)."""
    out = []
    for h in heads:
        start = 0
        while True:
            i = s.find(h + "<", start)
            if i < 0:
                break
            j = i + len(h)
            depth = 0
            k = j
            while k < len(s):
                if s[k] == "<":
                    depth += 1
                elif s[k] == ">":
                    depth -= 1
                    if depth == 0:
                        break
                k += 1
            out.append(s[i:k + 1])
            start = k
    return out


def run_alloc_null_mir(res, fx):
    res.rule("ALLOC-NULL/MIR", "on the type-checked MIR, for every resolved call of std::alloc::{alloc, alloc_zeroed, realloc}: the result "
             "(followed through casts and moves) is null-tested; the null edge reaches only diverging calls and never returns; the "
             "non-null edge dominates every other use of the pointer; no store to the tape fields and no dealloc lies between "
             "allocation and test", floor=8, what="obligations (4 per site)")
    n = 0
    for f in fx.functions("lib"):
        for bi, t in calls(f):
            dec, resv = callee(t)
            name = resv or dec or ""
            if strip_generics(name) not in ALLOC:
                continue
            if "mod tests" in f["name"]:
                continue
            n += 1
            path, ln = file_line(t["line"])
            w = f"{path}:{ln} ({strip_generics(f['name'])})"
            key = f"{path}|{strip_generics(f['name'])}|{name.split('::')[-1]}"
            S = {t["dest"]["local"]}
            changed = True
            copies = []
            while changed:
                changed = False
                for b in f["blocks"]:
                    for st in b["stmts"]:
                        if st["k"] == "assign" and not st["place"]["proj"] and st["rv"]["k"] in ("use", "cast"):
                            if operand_locals(st["rv"]["op"]) & S and st["place"]["local"] not in S:
                                S.add(st["place"]["local"])
                                changed = True
            # null tests
            tests = []
            for bj, tj in calls(f):
                d2, r2 = callee(tj)
                nm = strip_generics(r2 or d2 or "")
                if nm.endswith("::is_null") and tj["args"] and operand_locals(tj["args"][0]) & S:
                    tests.append((bj, tj))
                elif (nm.endswith("::as_mut") or nm.endswith("::as_ref") or nm.endswith("NonNull::new")) and ("ptr::" in nm) and tj["args"] and operand_locals(tj["args"][0]) & S:
                    # Option-returning null test: None <=> null
                    tests.append((bj, dict(tj, _opt=True)))
            ok1 = len(tests) >= 1
            res.check(ok1, "ALLOC-NULL/MIR", key + "|1-tested", w, f"the result of {name} is never tested with is_null() (or as_mut()/as_ref()/NonNull::new)")
            if not ok1:
                for i in (2, 3, 4):
                    res.bad("ALLOC-NULL/MIR", key + f"|{i}", w, "not established: there is no null test")
                continue
            tb, tt = tests[0]
            R = {tt["dest"]["local"]}
            sw = None
            cur = tt["target"]
            # the switch on the test result: in the target block or after a chain of gotos / copies
            seen = set()
            while cur is not None and cur not in seen:
                seen.add(cur)
                blk = f["blocks"][cur]
                for st in blk["stmts"]:
                    if st["k"] == "assign" and not st["place"]["proj"] and st["rv"]["k"] in ("use", "unary") and \
                            (operand_locals(st["rv"].get("op", st["rv"].get("v", {"k": "x"}))) & R if st["rv"]["k"] == "use" else operand_locals(st["rv"]["v"]) & R):
                        R.add(st["place"]["local"])
                    if st["k"] == "assign" and not st["place"]["proj"] and st["rv"]["k"] == "discriminant" and tt.get("_opt") and place_locals(st["rv"]["place"]) & R:
                        R.add(st["place"]["local"])
                if blk["term"]["k"] == "switch" and operand_locals(blk["term"]["discr"]) & R:
                    sw = (cur, blk["term"])
                    break
                cur = blk["term"]["target"] if blk["term"]["k"] == "goto" else None
            if sw is None:
                for i, what in ((2, "diverging null edge"), (3, "dominance"), (4, "nothing in between")):
                    res.bad("ALLOC-NULL/MIR", key + f"|{i}", w, f"{what} not established: the result of is_null() does not decide a branch directly")
                continue
            wb, wt = sw
            zero_target = [b for v, b in wt["targets"] if v == "0"]
            if tt.get("_opt"):
                # discriminant 0 = None = null pointer
                one = [b for v, b in wt["targets"] if v == "1"]
                nullb = zero_target[0] if zero_target else wt["otherwise"]
                nonnull = one[0] if one else (wt["otherwise"] if zero_target else None)
            else:
                nonnull = zero_target[0] if zero_target else None
                nullb = wt["otherwise"]
            # (2) the null edge
            rz = reachable(f, nullb)
            rz = {b for b in rz if not f["blocks"][b]["cleanup"]}
            returns = [b for b in rz if f["blocks"][b]["term"]["k"] == "return"]
            rejoin = nonnull in rz
            div = []
            for b in rz:
                tb_ = f["blocks"][b]["term"]
                if tb_["k"] == "call" and tb_["target"] is None:
                    div.append(strip_generics(callee(tb_)[1] or callee(tb_)[0] or "?"))
            uses_in_null = any(stmt_uses(f["blocks"][b], S) for b in rz)
            ok2 = not returns and not rejoin and div and all(d in DIVERGE_OK for d in div) and not uses_in_null
            res.check(ok2, "ALLOC-NULL/MIR", key + "|2-diverges", w,
                      f"null edge: returns={bool(returns)}, rejoins the non-null path={rejoin}, diverging calls={div}, uses the pointer={uses_in_null}; "
                      "it must reach only handle_alloc_error/abort/panic")
            # (3) dominance of every other use by the non-null edge
            dom = dominators(f)
            bad_uses = []
            for b, blk in enumerate(f["blocks"]):
                if blk["cleanup"] or b not in dom:
                    continue
                for what, ln2 in uses_of(blk, S, skip_call=(bi, tb)):
                    if b == bi or b == tb:
                        # statements in the allocation / test blocks themselves: only the copy chain is allowed
                        if what != "copy":
                            bad_uses.append(f"{what} in the block of the {'allocation' if b == bi else 'test'} (line {ln2})")
                        continue
                    if what == "copy" and nonnull not in dom[b]:
                        # copies before the test are fine as long as they precede it on the path alloc -> test
                        if b in reachable(f, t["target"], stop={wb}) | {wb}:
                            continue
                    if nonnull not in dom[b]:
                        bad_uses.append(f"{what} at line {ln2} is not dominated by the non-null branch")
            res.check(not bad_uses and nonnull is not None, "ALLOC-NULL/MIR", key + "|3-dominates", w,
                      "the pointer is used where it may still be null: " + "; ".join(bad_uses[:3]))
            # (4) between allocation and test
            between = (reachable(f, t["target"], stop={wb}) | {wb}) if t["target"] is not None else set()
            probs = []
            for b in between:
                blk = f["blocks"][b]
                for st in blk["stmts"]:
                    if st["k"] == "assign" and any(e["k"] == "field" and e.get("owner", "").endswith("runtime::Memory") for e in st["place"]["proj"]):
                        probs.append(f"store to a tape field at {st['line']}")
                tb_ = blk["term"]
                if tb_["k"] == "call":
                    nm = strip_generics(callee(tb_)[1] or callee(tb_)[0] or "")
                    if nm.endswith("::dealloc") or nm.endswith("copy_to_nonoverlapping") or nm.endswith("::copy_nonoverlapping"):
                        probs.append(f"{nm.split('::')[-1]} at {tb_['line']}")
            res.check(not probs, "ALLOC-NULL/MIR", key + "|4-nothing-between", w, "before the null test: " + "; ".join(probs))
            res.sample({"rule": "ALLOC-NULL/MIR", "site": w, "pointer_locals": sorted(S), "test_block": tb, "switch_block": wb,
                        "null_edge_calls": div, "nonnull_block": nonnull})
    return n


def stmt_uses(blk, S):
    return bool(list(uses_of(blk, S)))


def uses_of(blk, S, skip_call=None):
    for st in blk["stmts"]:
        if st["k"] != "assign":
            continue
        used = rvalue_locals(st["rv"]) | (place_locals(st["place"]) if st["place"]["proj"] else set())
        if used & S:
            is_copy = not st["place"]["proj"] and st["rv"]["k"] in ("use", "cast")
            yield ("copy" if is_copy else "use in `" + st["rv"]["k"] + "`"), st.get("line", "?")
    t = blk["term"]
    if t["k"] in ("call", "tailcall"):
        u = set()
        for a in t["args"]:
            u |= operand_locals(a)
        if u & S:
            nm = strip_generics(callee(t)[1] or callee(t)[0] or "?")
            if not (nm.endswith("::is_null") or ("ptr::" in nm and (nm.endswith("::as_mut") or nm.endswith("::as_ref") or nm.endswith("NonNull::new")))):
                yield f"argument of {nm}", t["line"]
    elif t["k"] == "switch" and operand_locals(t["discr"]) & S:
        yield "switch", t.get("line", "?")
    elif t["k"] == "drop" and place_locals(t["place"]) & S:
        yield "drop", t.get("line", "?")


def run_hash_types(res, fx):
    res.rule("HASH-SEED/TY", "every std hash container type that occurs in a local, argument, return or field type of the library has "
             "hasher::FastHasherBuilder as its BuildHasher, except inside bc.rs (RandomState allowed there, subject to ITER-ORDER)",
             floor=20, what="container type occurrences")
    heads = ("std::collections::HashMap", "std::collections::HashSet", "std::collections::hash_map::HashMap", "std::collections::hash_set::HashSet")
    seen = {}
    for f in fx.functions("lib"):
        fname = strip_generics(f["name"])
        if "::tests::" in fname:
            continue
        for l in f["locals"]:
            for occ in find_types(l["ty"], heads):
                head, args = split_args(occ)
                hi = 2 if head.endswith("HashMap") else 1      # HashMap<K, V, S, A>, HashSet<T, S, A>
                if len(args) <= hi:
                    continue
                hasher = args[hi]
                path, ln = file_line(l["line"])
                seen.setdefault((path, fname, hasher), ln)
    for a in fx.lib_doc()["adts"]:
        for v in a["variants"]:
            for fl in v["fields"]:
                for occ in find_types(fl["ty"], heads):
                    head, args = split_args(occ)
                    hi = 2 if head.endswith("HashMap") else 1
                    if len(args) > hi:
                        seen.setdefault(("(type)", a["name"] + "." + fl["name"], args[hi]), 0)
    for (path, where_, hasher), ln in sorted(seen.items()):
        ok = hasher.endswith("hasher::FastHasherBuilder") or path == "src/bc.rs" or where_.startswith("bc::")
        res.check(ok, "HASH-SEED/TY", f"{path}|{where_}|{hasher}", f"{path}:{ln} ({where_})",
                  f"a hash container with hasher `{hasher}` occurs in {where_}: its iteration order depends on a per-process random seed")
    if not seen:
        res.bad("HASH-SEED/TY", "no-occurrences", "-", "no hash container type found in the library (anchor moved)")


def run_layout_rules(res, fx, ast):
    res.rule("ABI-OFFSETS/TY", "rustc's layout_of for Memory<C>/Context<C> (C in u8,u16,u32,u64): repr(C), buffer/size/offset at 0/8/16 and "
             "Context.budget right after the embedded Memory - the displacements the JIT templates use (cross-check of the E1 derivation)",
             floor=8, what="(type, width) layouts")
    import jit
    try:
        e1 = jit.reprc_layout(ast)
    except Missing as m:
        res.missing("ABI-OFFSETS/TY", m)
        return
    adts = {a["name"]: a for a in fx.lib_doc()["adts"]}
    for ty, fields in (("runtime::Memory", ("buffer", "size", "offset")), ("runtime::Context", ("memory", "budget"))):
        a = adts.get(ty)
        if a is None:
            res.bad("ABI-OFFSETS/TY", f"{ty}|missing", "-", f"type {ty} not found in the facts")
            continue
        names = [f["name"] for f in a["variants"][0]["fields"]]
        for inst in a["instances"]:
            key = f"{ty}<{inst['param']}>"
            got = {n: inst["offsets"][names.index(n)] for n in fields if n in names}
            want = {n: e1[(ty.split("::")[-1], n)] for n in fields}
            res.check(a["repr_c"] and got == want, "ABI-OFFSETS/TY", key, f"src/runtime.rs ({key})",
                      f"layout_of gives {got} (repr(C): {a['repr_c']}), the JIT templates assume {want}")
        if len(a["instances"]) != 4:
            res.bad("ABI-OFFSETS/TY", f"{ty}|instances", "-", f"{ty}: layouts for {len(a['instances'])} cell widths, expected 4")


def run_freeze_rules(res, fx):
    res.rule("EXEC-FREEZE/TY", "InplaceInterpreter, IrInterpreter, BcInterpreter, BaseJitCompiler are Freeze (no UnsafeCell anywhere inside, "
             "through all nested types) at every cell width; the library has no mutable or interior-mutable static", floor=16, what="(executor, width) pairs")
    adts = {a["name"]: a for a in fx.lib_doc()["adts"]}
    for ty in ("exec::inplace::InplaceInterpreter", "exec::irint::IrInterpreter", "exec::bcint::BcInterpreter", "exec::basejit::BaseJitCompiler"):
        a = adts.get(ty)
        if a is None:
            res.bad("EXEC-FREEZE/TY", f"{ty}|missing", "-", f"executor type {ty} not found")
            continue
        for inst in a["instances"]:
            res.check(inst["freeze"], "EXEC-FREEZE/TY", f"{ty}<{inst['param']}>", ty,
                      f"{ty}<{inst['param']}> is not Freeze: it contains interior mutability, so execution can depend on earlier executions")
        if len(a["instances"]) != 4:
            res.bad("EXEC-FREEZE/TY", f"{ty}|instances", ty, f"{len(a['instances'])} instances, expected 4")
    bad = [s for s in fx.lib_doc()["statics"] if s["mut"] or not s["freeze"]]
    res.check(not bad, "EXEC-FREEZE/TY", "statics", "library", f"mutable / interior-mutable statics: {[s['name'] for s in bad]}")


def run_cell_consts(res, fx):
    res.rule("CELL-CONSTS/CE", "const-evaluated associated constants of the four CellType impls: BITS = 8 * size, ZERO = 0, ONE = 1, NEG_ONE = 2^BITS - 1",
             floor=16, what="constants")
    by = {}
    for c in fx.lib_doc()["consts"]:
        if c["impl_trait"].endswith("CellType"):
            by[(c["self_ty"], c["name"])] = c["value"]
    for ty, w in (("u8", 8), ("u16", 16), ("u32", 32), ("u64", 64)):
        for name, want in (("BITS", w), ("ZERO", 0), ("ONE", 1), ("NEG_ONE", 2 ** w - 1)):
            got = by.get((ty, name))
            res.check(got is not None and int(got) == want, "CELL-CONSTS/CE", f"<{ty} as CellType>::{name}", "src/lib.rs",
                      f"<{ty} as CellType>::{name} evaluates to {got}, must be {want}")


def run_cell_delegate(res, fx):
    res.rule("CELL-DELEGATE/RES", "<uN as CellType>::wrapping_add/mul/neg/trailing_zeros call the inherent core::num method of the same name "
             "(resolved callee), not the trait method itself", floor=16, what="delegations")
    for ty in ("u8", "u16", "u32", "u64"):
        for m in ("wrapping_add", "wrapping_mul", "wrapping_neg", "trailing_zeros"):
            key = f"<{ty} as CellType>::{m}"
            fs = [f for f in fx.functions("lib") if f["name"] == f"<{ty} as CellType>::{m}"]
            if len(fs) != 1:
                res.bad("CELL-DELEGATE/RES", key, "src/lib.rs", f"MIR of {key}: found {len(fs)}")
                continue
            cs = [strip_generics(callee(t)[1] or callee(t)[0] or "?") for _, t in calls(fs[0])]
            res.check(cs == [f"core::num::<impl {ty}>::{m}"], "CELL-DELEGATE/RES", key, "src/lib.rs",
                      f"{key} calls {cs}; it must call exactly core::num::<impl {ty}>::{m}")


def call_graph(fx):
    g = {}
    for f in fx.functions("lib"):
        n = strip_generics(f["name"])
        s = g.setdefault(n, set())
        for _, t in calls(f):
            d, r = callee(t)
            for c in (d, r):
                if c:
                    s.add(strip_generics(c))
    return g


def run_callgraph_rules(res, fx):
    res.rule("READ-NOALLOC/CG", "from Memory::read/check/check_ptr/current_ptr/mov/set_current_ptr no allocating or growing function is "
             "reachable in the resolved call graph", floor=6, what="functions")
    res.rule("NONREC/CG", "ir::Block::parse and InplaceInterpreter::execute_in are not on a call-graph cycle (nesting depth is bounded by "
             "the heap, not by the call stack)", floor=2, what="functions")
    g = call_graph(fx)

    def reach(start):
        seen, st = set(), [start]
        while st:
            x = st.pop()
            if x in seen:
                continue
            seen.add(x)
            st.extend(g.get(x, ()))
        return seen
    banned = re.compile(r"(^|::)(alloc|alloc_zeroed|realloc|make_accessible|write_out_of_bounds)$|alloc::raw_vec|::Vec::<|::Box::<.*>::new|::reserve$|::push$")
    for m in ("read", "check", "check_ptr", "current_ptr", "mov", "set_current_ptr"):
        n = f"runtime::Memory::{m}"
        if n not in g:
            res.bad("READ-NOALLOC/CG", n, "src/runtime.rs", f"MIR of {n} not found")
            continue
        r = reach(n) - {n}
        bad = sorted(x for x in r if banned.search(x))
        res.check(not bad, "READ-NOALLOC/CG", n, "src/runtime.rs", f"{n} reaches {bad[:4]}: reads and queries must not allocate")
    for n in ("ir::Block::parse", "exec::inplace::InplaceInterpreter::execute_in"):
        cands = [k for k in g if k.endswith(n.split("::", 1)[1]) and k.split("::")[-1] == n.split("::")[-1]]
        cands = [k for k in cands if k.startswith(n.split("::")[0])]
        if len(cands) != 1:
            res.bad("NONREC/CG", n, "-", f"function {n}: found {cands}")
            continue
        k = cands[0]
        cyc = any(k in reach(c) for c in g.get(k, ()) if c in g)
        res.check(not cyc, "NONREC/CG", k, "-", f"{k} is on a call-graph cycle: deep nesting would overflow the call stack")


def resolved_sites(fx, pred, unit=None):
    out = []
    for f in fx.all_functions():
        if unit and f["_unit"] != unit:
            continue
        if "::tests::" in f["name"]:
            continue
        for _, t in calls(f):
            d, r = callee(t)
            nm = strip_generics(r or d or "")
            nd = strip_generics(d or "")
            if pred(nm) or pred(nd):
                out.append((file_line(t["line"]), strip_generics(f["name"]), nm))
    return out


def run_alloc_layout_mir(res, fx):
    """ALLOC-LAYOUT/MIR: in runtime::Memory, the layout operand of every resolved alloc / alloc_zeroed call is (through moves and
    Result::unwrap/expect) the result of core::alloc::Layout::array::<T>, never of from_size_align / from_size_align_unchecked."""
    res.rule("ALLOC-LAYOUT/MIR", "on MIR, the layout handed to every tape allocation and deallocation derives from Layout::array::<C>(n) "
             "(overflow-checked) through unwrap/expect and moves only", floor=3, what="layout operands")
    n = 0
    for f in fx.functions("lib"):
        fname = strip_generics(f["name"])
        if "runtime::Memory" not in fname or "::tests::" in fname:
            continue
        # definitions: local -> producing (kind, detail)
        defs = {}
        for b in f["blocks"]:
            for st in b["stmts"]:
                if st["k"] == "assign" and not st["place"]["proj"]:
                    defs.setdefault(st["place"]["local"], []).append(("rv", st["rv"]))
            t = b["term"]
            if t["k"] == "call":
                for l_ in place_locals(t["dest"]):
                    defs.setdefault(l_, []).append(("call", t))
        for bi, t in calls(f):
            nm = strip_generics(callee(t)[1] or callee(t)[0] or "")
            base = nm.split("::")[-1]
            if not (nm.startswith("alloc::alloc::") or nm.startswith("std::alloc::")) or base not in ("alloc", "alloc_zeroed", "dealloc", "realloc"):
                continue
            n += 1
            arg = t["args"][0] if base in ("alloc", "alloc_zeroed") else t["args"][1]
            path, ln = file_line(t["line"])
            key = f"{path}|{fname}|{base}"
            # backward closure
            seen, work, origin, bad = set(), list(operand_locals(arg)), [], []
            while work:
                l_ = work.pop()
                if l_ in seen:
                    continue
                seen.add(l_)
                for kind, d in defs.get(l_, []):
                    if kind == "rv":
                        work.extend(rvalue_locals(d))
                    else:
                        cn = strip_generics(callee(d)[1] or callee(d)[0] or "")
                        if cn.endswith("Layout::array"):
                            origin.append(cn)
                        elif cn.endswith("::unwrap") or cn.endswith("::expect") or cn.endswith("::unwrap_unchecked") and False:
                            for a in d["args"]:
                                work.extend(operand_locals(a))
                        elif "Layout::" in cn:
                            bad.append(cn)
                        else:
                            bad.append(cn)
            ok = bool(origin) and not bad
            res.check(ok, "ALLOC-LAYOUT/MIR", key, f"{path}:{ln} ({fname})",
                      f"the layout of {base} at {path}:{ln} comes from {sorted(set(bad)) or 'an unknown source'}, not from Layout::array::<C>(n).unwrap(): its size computation is not overflow-checked")
    if n < 3:
        res.bad("ALLOC-LAYOUT/MIR", "count", "-", f"only {n} tape allocation/deallocation sites found in runtime.rs (expected 3)")


INSPECTORS = ("::is_none", "::is_some", "::is_ok", "::is_err", "::branch", "::eq", "::ne", "::is_some_and", "::is_none_or", "::is_ok_and")


def run_io_discipline_mir(res, fx):
    """IO-DISCIPLINE/MIR: in the type-checked program, the Option returned by every call that resolves to Context::input/output
    (outside runtime.rs and tests) reaches a branch: its def-use closure (moves, copies, references, `?`, is_none/is_some/..)
    contains the operand of a switch, and the two successors of that switch differ in whether the run goes on - the absent
    edge must reach a `return` without first reaching another tape/I-O effect of the same function (it stops)."""
    res.rule("IO-DISCIPLINE/MIR", "on MIR, the result of every resolved Context::input / Context::output call decides a branch of its caller "
             "(def-use closure through moves, references, `?` and is_none/is_some reaches a switchInt); a result that is dropped, or "
             "only passed to a defaulting combinator (unwrap_or, unwrap_or_default, map_or ..), is a swallowed stop", floor=8, what="resolved call sites")
    n = 0
    for f in fx.functions("lib"):
        fname = strip_generics(f["name"])
        if "::tests::" in fname or fname.startswith("runtime::"):
            continue
        for bi, t in calls(f):
            d, r = callee(t)
            nm = strip_generics(r or d or "")
            if nm not in ("runtime::Context::input", "runtime::Context::output"):
                continue
            n += 1
            path, ln = file_line(t["line"])
            key = f"{path}|{fname}|{nm.split('::')[-1]}"
            S = set(place_locals(t["dest"]))
            swallowed = []
            changed = True
            while changed:
                changed = False
                for b in f["blocks"]:
                    for st in b["stmts"]:
                        if st["k"] == "assign" and rvalue_locals(st["rv"]) & S:
                            tgt = st["place"]["local"]
                            if tgt not in S:
                                S.add(tgt)
                                changed = True
                    tt = b["term"]
                    if tt["k"] == "call":
                        used = set()
                        for a in tt["args"]:
                            used |= operand_locals(a)
                        if used & S:
                            cn = strip_generics(callee(tt)[1] or callee(tt)[0] or "")
                            if any(cn.endswith(x) for x in INSPECTORS):
                                for l_ in place_locals(tt["dest"]):
                                    if l_ not in S:
                                        S.add(l_)
                                        changed = True
                            elif any(cn.endswith(x) for x in ("::unwrap_or", "::unwrap_or_default", "::unwrap_or_else", "::map_or", "::map_or_else", "::ok", "::unwrap_unchecked")):
                                if cn not in swallowed:
                                    swallowed.append(cn)
            switched = any(b["term"]["k"] == "switch" and operand_locals(b["term"]["discr"]) & S for b in f["blocks"])
            # handed to the caller as (part of) the return value: the caller is the one that must branch (for the JIT shims: JIT-TERM)
            switched = switched or 0 in S
            res.check(switched and not swallowed, "IO-DISCIPLINE/MIR", key, f"{path}:{ln} ({fname})",
                      f"the result of {nm} at {path}:{ln} " + (f"is passed to {swallowed[0].split('::')[-1]} (a default replaces the stop)" if swallowed else "never decides a branch: the stop is ignored"))
    if n < 8:
        res.bad("IO-DISCIPLINE/MIR", "count", "-", f"only {n} resolved Context::input/output call sites outside the runtime (expected >= 8)")


def run_site_completeness(res, fx, ast, which=("io", "iter", "unsafe")):
    res.rule("SITES/RES", "the syntax-tree rules enumerated every call site that the type-checked program resolves to "
             "Context::input/output, to an iteration over a randomly seeded container, or to execute_unsafe",
             floor=(8 if "io" in which else 0) + (5 if "iter" in which else 0) + (1 if "unsafe" in which else 0), what="resolved call sites")
    import iolim, det
    if "io" in which:
        e1 = set()
        for path in (iolim.INPLACE, iolim.IRINT, iolim.OPS, iolim.BASEJIT):
            for fr in ast.find_fns(path):
                if fr["node"].get("body"):
                    for s in iolim.io_sites(fr["node"]):
                        e1.add((path, s["sp"][0]))
                        e1.add((path, s["sp"][2]))
        sites = resolved_sites(fx, lambda n: n in ("runtime::Context::input", "runtime::Context::output"), unit="lib")
        for (path, ln), fn, nm in sites:
            if path == "src/runtime.rs":
                continue
            near = any(p == path and abs(l - ln) <= 3 for p, l in e1)
            res.check(near, "SITES/RES", f"{path}|{fn}|{nm.split('::')[-1]}|{ln}" if not near else f"{path}|{fn}|{nm.split('::')[-1]}", f"{path}:{ln} ({fn})",
                      f"call of {nm} at {path}:{ln} was not seen by IO-DISCIPLINE (unrecognised receiver or macro-generated): the rule is incomplete")
        if len(sites) < 8:
            res.bad("SITES/RES", "io-count", "-", f"only {len(sites)} resolved Context::input/output call sites (expected >= 8)")
    if "iter" in which:
        sites = []
        for f in fx.functions("lib"):
            fname = strip_generics(f["name"])
            if "::tests::" in fname:
                continue
            for _, t in calls(f):
                d, r = callee(t)
                nm = strip_generics(r or d or "")
                if not re.search(r"::(iter|into_iter|keys|values|drain|iter_mut|into_keys|into_values)$", nm):
                    continue
                tys = " ".join(t["func"].get("targs", []))
                argty = ""
                if t["args"] and t["args"][0]["k"] in ("copy", "move"):
                    argty = f["locals"][t["args"][0]["place"]["local"]]["ty"]
                blob = tys + " " + argty + " " + nm
                if ("RandomState" in blob and ("HashMap" in blob or "HashSet" in blob)) or "BinaryHeap" in blob:
                    sites.append((file_line(t["line"]), fname))
        kinds_ok = set()
        for path in ("src/bc.rs",):
            for fr in ast.find_fns(path):
                body = fr["node"].get("body")
                if not body:
                    continue
                for l in walk_t(body, "ForLoop"):
                    kinds_ok.add((path, l["sp"][0]))
                    kinds_ok.add((path, l["expr"]["sp"][0]))
                for m in walk_t(body, "MethodCall"):
                    if m["method"] in ("iter", "into_iter", "drain", "keys", "values", "iter_mut"):
                        kinds_ok.add((path, m["sp"][0]))
                        kinds_ok.add((path, m["sp"][2]))
        for (path, ln), fn in sites:
            near = path == "src/bc.rs" and any(p == path and abs(l - ln) <= 2 for p, l in kinds_ok)
            res.check(near, "SITES/RES", f"{path}|{fn}|unordered-iteration" + ("" if near else f"|{ln}"), f"{path}:{ln} ({fn})",
                      f"iteration over a randomly seeded container / heap at {path}:{ln} ({fn}) is outside the files ITER-ORDER analyses")
    if "unsafe" in which:
        sites = resolved_sites(fx, lambda n: n.endswith("Executable::execute_unsafe") or n.endswith("::execute_unsafe"))
        sites = [s for s in sites if not s[1].endswith("::execute_unsafe")]
        e1 = set()
        for path in sorted(ast.files):
            for fr in ast.find_fns(path):
                for m in walk_t(fr["node"].get("body") or {}, "MethodCall"):
                    if m["method"] == "execute_unsafe":
                        e1.add((path, m["sp"][0]))
        for (path, ln), fn, nm in sites:
            near = any(p == path and abs(l - ln) <= 2 for p, l in e1)
            res.check(near, "SITES/RES", f"{path}|{fn}|execute_unsafe", f"{path}:{ln} ({fn})", f"execute_unsafe call at {path}:{ln} not seen by PREALLOC-PAIR")
        if not sites:
            res.bad("SITES/RES", "unsafe-count", "-", "no resolved execute_unsafe call site found")


INT_BITS = {"u8": 8, "i8": 8, "u16": 16, "i16": 16, "u32": 32, "i32": 32, "u64": 64, "i64": 64, "usize": 64, "isize": 64, "u128": 128, "i128": 128}


def run_counter_width(res, fx):
    res.rule("COUNTER-WIDTH", "integer variables that count nesting depth or positions in the in-place interpreter and the parser are wider "
             "than 8 bits (an 8-bit counter overflows at the 'hundreds' of nesting levels the property promises to handle)", floor=2, what="counters")
    for suffix, path in (("exec::inplace::InplaceInterpreter::execute_in", "src/exec/inplace.rs"), ("ir::Block::parse", "src/ir.rs")):
        try:
            f = fx.fn(suffix.split("::", 1)[1] if False else suffix)
        except Missing as m:
            res.missing("COUNTER-WIDTH", m)
            continue
        # locals that are the target of +/- arithmetic
        arith = set()
        for b in f["blocks"]:
            for st in b["stmts"]:
                if st["k"] == "assign" and st["rv"]["k"] == "binary" and st["rv"]["op"] in ("Add", "Sub", "AddWithOverflow", "SubWithOverflow", "AddUnchecked", "SubUnchecked"):
                    arith |= operand_locals(st["rv"]["l"])
        n = 0
        for i, l in enumerate(f["locals"]):
            if l["name"] and l["ty"] in INT_BITS and i in arith:
                n += 1
                res.check(INT_BITS[l["ty"]] > 8, "COUNTER-WIDTH", f"{path}|{strip_generics(f['name'])}|{l['name']}", f"{l['line']} ({l['name']})",
                          f"counter `{l['name']}` has type {l['ty']}: it wraps or panics after 255 steps, e.g. when skipping a loop nested 256 deep")
        if n == 0 and "inplace" in path:
            res.bad("COUNTER-WIDTH", f"{path}|no-counters", path, f"no integer counters found in {suffix} (anchor moved)")


def run_errpos_types(res, fx):
    res.rule("ERR-POS/TY", "the local that drives the scan in ir::Block::parse has type Enumerate<Chars> (its counter is a character index)", floor=1, what="iterator locals")
    try:
        f = fx.fn("ir::Block::parse")
    except Missing as m:
        res.missing("ERR-POS/TY", m)
        return
    its = [l for l in f["locals"] if "std::iter::Enumerate<" in l["ty"] and "Chars" in l["ty"] and not l["ty"].startswith("&")]
    others = [l["ty"] for l in f["locals"] if ("CharIndices" in l["ty"] or "std::str::Bytes" in l["ty"] or "Enumerate<std::slice::Iter" in l["ty"])]
    res.check(bool(its) and not others, "ERR-POS/TY", "src/ir.rs|parse|iterator-type", "src/ir.rs (parse)",
              f"scan iterator types: Enumerate<Chars> locals = {len(its)}, byte-indexed iterators = {others}")


def root_local(f, local, depth=8):
    """Follow `_x = copy/move _y` (single definition) back to its origin."""
    for _ in range(depth):
        defs = []
        for b in f["blocks"]:
            for st in b["stmts"]:
                if st["k"] == "assign" and st["place"]["local"] == local and not st["place"]["proj"]:
                    defs.append(st)
        if len(defs) != 1 or defs[0]["rv"]["k"] != "use" or defs[0]["rv"]["op"]["k"] not in ("copy", "move"):
            return local, (defs[0] if len(defs) == 1 else None)
        p = defs[0]["rv"]["op"]["place"]
        if p["proj"]:
            return local, defs[0]
        local = p["local"]
    return local, None


def run_tape_pair_mir(res, fx):
    res.rule("TAPE-PAIR/MIR", "Memory::make_accessible on MIR: the copy of the old contents dominates the free of the old block; no store to "
             "buffer/size/offset can precede the copy or the free; on every growing path all three fields are stored; the copy "
             "destination and the offset update add the same local; a non-growing path (no allocation) exists", floor=5, what="ordering obligations")
    try:
        f = fx.fn("runtime::Memory::make_accessible")
    except Missing as m:
        res.missing("TAPE-PAIR/MIR", m)
        return
    w = "src/runtime.rs (Memory::make_accessible)"
    key = "src/runtime.rs|make_accessible"
    blocks = f["blocks"]
    copyb = [i for i, t in calls(f) if strip_generics(callee(t)[1] or callee(t)[0] or "").endswith(("copy_to_nonoverlapping", "ptr::copy_nonoverlapping", "copy_to", "ptr::copy"))]
    freeb = [i for i, t in calls(f) if strip_generics(callee(t)[1] or callee(t)[0] or "").endswith("alloc::dealloc")]
    allocb = [i for i, t in calls(f) if strip_generics(callee(t)[1] or callee(t)[0] or "") in ALLOC]
    stores = {}
    for i, b in enumerate(blocks):
        for st in b["stmts"]:
            if st["k"] == "assign":
                for e in st["place"]["proj"]:
                    if e["k"] == "field" and e.get("owner", "").endswith("runtime::Memory"):
                        stores.setdefault(e["name"], []).append((i, st))
    dom = dominators(f)
    ok = len(copyb) == 1 and len(freeb) == 1 and len(allocb) == 1
    res.check(ok, "TAPE-PAIR/MIR", key + "|sites", w, f"expected one allocation, one copy and one dealloc; found {len(allocb)}, {len(copyb)}, {len(freeb)}")
    if not ok:
        return
    cb, fb, ab = copyb[0], freeb[0], allocb[0]
    # every *feasible* path to the free passes through the copy.  Feasibility: the tests of `self.size` against zero are correlated as long as
    # the field is not stored in between (an `if size != 0 { copy }` followed by a helper that frees only `if size != 0`)
    def size_edges(bi):
        """edges of a block whose switch tests (*self).size ==/!= 0: {target: 'zero'|'nonzero'}"""
        b = blocks[bi]
        t = b["term"]
        if t["k"] != "switch":
            return {}
        dl = operand_locals(t["discr"])
        size_locals, cmp_ = set(), None
        for st in b["stmts"]:
            if st["k"] != "assign" or st["place"]["proj"]:
                continue
            rv = st["rv"]
            if rv["k"] == "use" and rv["op"].get("k") in ("copy", "move") and [e.get("name") for e in rv["op"]["place"]["proj"] if e["k"] == "field"] == ["size"]:
                size_locals.add(st["place"]["local"])
            if rv["k"] == "binary" and rv["op"] in ("Eq", "Ne") and st["place"]["local"] in dl:
                ops = [rv["l"], rv["r"]]
                loc = [o for o in ops if o.get("k") in ("copy", "move") and operand_locals(o) & size_locals]
                zero = [o for o in ops if o.get("k") == "const" and str(o.get("bits")) == "0"]
                if loc and zero:
                    cmp_ = rv["op"]
        if cmp_ is None:
            return {}
        out = {}
        for v, tb in t["targets"]:
            if str(v) == "0":
                out[tb] = "zero" if cmp_ == "Ne" else "nonzero"      # comparison false
        out[t["otherwise"]] = "nonzero" if cmp_ == "Ne" else "zero"
        return out
    size_store_blocks = {sb for sb, _ in stores.get("size", [])}
    seen, work, escapes = set(), [(0, None)], False
    while work:
        bi, fact = work.pop()
        if (bi, fact) in seen or bi == cb:
            continue
        seen.add((bi, fact))
        if bi == fb:
            escapes = True
            break
        if bi in size_store_blocks:
            fact = None
        se = size_edges(bi)
        for nb in succs(blocks[bi]):
            nf = fact
            if nb in se:
                if fact is not None and fact != se[nb]:
                    continue        # contradicts what an earlier test of the unchanged size established
                nf = se[nb]
            work.append((nb, nf))
    res.check(not escapes and cb != fb, "TAPE-PAIR/MIR", key + "|copy-dominates-free", w,
              "the old block can be freed on a path that has not copied its contents into the new block")
    bad = []
    for name, lst in stores.items():
        for (sb, st) in lst:
            r = reachable(f, sb)
            if sb in (cb, fb) or cb in (r - {sb}) or fb in (r - {sb}):
                bad.append(f"{name} (line {st['line']})")
    res.check(not bad and set(stores) >= {"buffer", "size", "offset"}, "TAPE-PAIR/MIR", key + "|stores-after", w,
              f"tape fields stored before the copy / free of the old block: {bad}; fields stored at all: {sorted(stores)}")
    # every growing path stores all three fields
    start = blocks[ab]["term"]["target"]
    miss = []
    rets = {i for i, b in enumerate(blocks) if b["term"]["k"] == "return"}
    for name in ("buffer", "size", "offset"):
        sb = {s for s, _ in stores.get(name, [])}
        if start is not None and (reachable(f, start, stop=sb) & rets):
            miss.append(name)
    res.check(not miss, "TAPE-PAIR/MIR", key + "|all-fields", w, f"a growing path returns without storing {miss}")
    # same delta
    ct = blocks[cb]["term"]
    dst_local = ct["args"][1]["place"]["local"] if len(ct["args"]) > 1 and ct["args"][1]["k"] in ("copy", "move") else None
    delta1 = delta2 = None
    for i, t in calls(f):
        nm = strip_generics(callee(t)[1] or callee(t)[0] or "")
        if nm.endswith("::wrapping_add") or nm.endswith("::add") or nm.endswith("::offset"):
            if dst_local is not None and root_local(f, dst_local)[0] == t["dest"]["local"] or t["dest"]["local"] == dst_local:
                if len(t["args"]) > 1 and t["args"][1]["k"] in ("copy", "move"):
                    delta1 = root_local(f, t["args"][1]["place"]["local"])[0]
    for sb, st in stores.get("offset", []):
        src = st["rv"].get("op", {})
        if src.get("k") in ("copy", "move"):
            l = root_local(f, src["place"]["local"])[0]
            for i, t in calls(f):
                if t["dest"]["local"] == l and len(t["args"]) > 1 and t["args"][1]["k"] in ("copy", "move"):
                    delta2 = root_local(f, t["args"][1]["place"]["local"])[0]
    n1 = f["locals"][delta1]["name"] if delta1 is not None else None
    res.check(delta1 is not None and delta1 == delta2, "TAPE-PAIR/MIR", key + "|same-delta", w,
              f"copy destination is shifted by `{n1}` (local {delta1}) but offset is adjusted by local {delta2}: the logical pointer is not preserved")
    # the freed layout is Layout::array::<C>(self.size) with the *old* size (no store precedes it, see above)
    def call_defining(local):
        l, _ = root_local(f, local)
        for i, t in calls(f):
            if t["dest"]["local"] == l:
                return t
        return None
    ft = blocks[fb]["term"]
    chain_ok = False
    why = "layout argument not traceable"
    if len(ft["args"]) > 1 and ft["args"][1]["k"] in ("copy", "move"):
        t1 = call_defining(ft["args"][1]["place"]["local"])
        if t1 is not None and strip_generics(callee(t1)[1] or callee(t1)[0] or "").endswith("::unwrap") and t1["args"] and t1["args"][0]["k"] in ("copy", "move"):
            t1 = call_defining(t1["args"][0]["place"]["local"])
        if t1 is not None and strip_generics(callee(t1)[1] or callee(t1)[0] or "").endswith("Layout::array") and t1["args"][0]["k"] in ("copy", "move"):
            l, origin = root_local(f, t1["args"][0]["place"]["local"])
            src = origin["rv"]["op"]["place"] if origin is not None and origin["rv"]["k"] == "use" and origin["rv"]["op"]["k"] in ("copy", "move") else None
            fields = [e.get("name") for e in src["proj"] if e["k"] == "field"] if src else []
            chain_ok = fields == ["size"]
            why = f"Layout::array argument is local {l} ({f['locals'][l]['name']}), read from {fields or 'a computed value'}"
        else:
            why = "layout is not Layout::array(..)"
    res.check(chain_ok, "TAPE-PAIR/MIR", key + "|free-layout", w, f"the old block must be freed with Layout::array::<C>(self.size) of the old size; {why}")
    # a non-growing path exists
    r = reachable(f, 0, stop={ab})
    res.check(bool(r & rets), "TAPE-PAIR/MIR", key + "|noop-path", w, "every call reallocates: there is no path that returns without allocating")
    res.sample({"rule": "TAPE-PAIR/MIR", "alloc_block": ab, "copy_block": cb, "free_block": fb,
                "stores": {k: [s for s, _ in v] for k, v in stores.items()}, "delta_local": n1})


def run_release_noop(res, fxr):
    res.rule("BC-THREAD/MIR", "release profile: `noop` is one call through `(*ip).op` passing its five parameters unchanged and in order "
             "(type-checked MIR of the cfg(not(debug_assertions)) variant)", floor=1, what="functions")
    fs = [f for f in fxr.functions("lib") if strip_generics(f["name"]).endswith("bcint::ops::noop")]
    if len(fs) != 1 or fxr.lib_doc()["debug_assertions"]:
        res.bad("BC-THREAD/MIR", "release-noop|missing", "src/exec/bcint/ops.rs", f"release `noop` not found in the release-profile facts ({len(fs)})")
        return
    f = fs[0]
    cs = list(calls(f))
    ok = False
    why = f"{len(cs)} calls"
    if len(cs) == 1:
        _, t = cs[0]
        fl = t["func"]["place"]["local"] if t["func"]["k"] in ("copy", "move") else None
        origin = root_local(f, fl)[1] if fl is not None else None
        via_op = origin is not None and origin["rv"]["k"] == "use" and origin["rv"]["op"]["k"] in ("copy", "move") and \
            origin["rv"]["op"]["place"]["local"] == 3 and [e.get("name") for e in origin["rv"]["op"]["place"]["proj"] if e["k"] == "field"] == ["op"]
        args = [root_local(f, a["place"]["local"])[0] if a["k"] in ("copy", "move") else None for a in t["args"]]
        ok = via_op and args == [1, 2, 3, 4, 5]
        why = f"callee through (*ip).op: {via_op}; arguments are parameters {args}"
    res.check(ok, "BC-THREAD/MIR", "src/exec/bcint/ops.rs|noop|release", "src/exec/bcint/ops.rs (noop, release)", "release noop: " + why)
