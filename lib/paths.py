"""Syntactic path enumeration over loop-free statement lists (if / if-let / match), used by the
typestate rules.  A path is (conditions, events): conditions = [(cond node, polarity or arm index)],
events = the atomic statements / expressions evaluated on that path, in source order."""
from common import strip_paren


class TooComplex(Exception):
    pass


def _expr_paths(e, cap):
    """Paths through an expression that may contain control flow at its top level."""
    e = strip_paren(e)
    t = e["t"]
    if t == "If":
        out = []
        for conds, ev, term in _block_paths(e["then"]["stmts"], cap):
            out.append(([("if", e["cond"], True)] + conds, [("cond", e["cond"])] + ev, term))
        if e["else"] is not None:
            for conds, ev, term in _expr_paths(e["else"], cap):
                out.append(([("if", e["cond"], False)] + conds, [("cond", e["cond"])] + ev, term))
        else:
            out.append(([("if", e["cond"], False)], [("cond", e["cond"])], None))
        return out
    if t == "Match":
        out = []
        for i, arm in enumerate(e["arms"]):
            for conds, ev, term in _expr_paths(arm["body"], cap):
                out.append(([("match", e["expr"], i, arm)] + conds, [("cond", e["expr"])] + ev, term))
        return out
    if t in ("BlockExpr", "Unsafe"):
        return _block_paths(e["block"]["stmts"], cap)
    if t in ("Return",):
        return [([], [("expr", e)], "return")]
    if t == "Continue":
        return [([], [("expr", e)], "continue")]
    if t == "Break":
        return [([], [("expr", e)], "break")]
    return [([], [("expr", e)], None)]


def _block_paths(stmts, cap):
    paths = [([], [], None)]
    for st in stmts:
        t = st["t"]
        if t == "ExprStmt":
            sub = _expr_paths(st["expr"], cap)
        elif t == "Local":
            sub = [([], [("let", st)], None)]
            if st["init"] is not None and strip_paren(st["init"])["t"] in ("If", "Match", "BlockExpr", "Unsafe"):
                # the initialiser's own events are listed; the binding itself follows with an empty initialiser so that nothing is counted twice
                bound = {**st, "init": {"t": "Tuple", "elems": [], "sp": st["sp"]}, "init_traversed": True}
                sub = [(c, ev + [("let", bound)], term) for c, ev, term in _expr_paths(st["init"], cap)]
        elif t == "MacroStmt":
            sub = [([], [("macro", st)], None)]
        else:
            sub = [([], [], None)]
        new = []
        for c1, e1, t1 in paths:
            if t1 is not None:
                new.append((c1, e1, t1))
                continue
            for c2, e2, t2 in sub:
                new.append((c1 + c2, e1 + e2, t2))
        paths = new
        if len(paths) > cap:
            raise TooComplex(f"more than {cap} syntactic paths")
    return paths


def block_paths(block, cap=512):
    return _block_paths(block["stmts"], cap)
