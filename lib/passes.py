"""Structural rules over the bytecode generator (src/bc.rs) and the IR window computation.

PASS-KILL    the two backward local passes (dead_store_elim, zeroing_move_detection) handle every
             instruction according to its effect class: control flow / pointer moves clear the pending
             set, every read (resp. every access) of a cell removes it.
TEMPS-BY-CONSTRUCTION  count_temps inspects every Loc of every variant, runs after the last rewriting
             pass, and its result is Program.temps.
WINDOW-BY-CONSTRUCTION the access window starts at [0,0], every cell operand of every IR instruction is
             passed to the accumulator (visitor completeness), tape offsets placed into bytecode are
             copies (no arithmetic), and the window is handed to Program unchanged.
LIVE-ZIP     `live` and `insts` stay index-aligned (one push per instruction; same retain predicate).
"""
from common import *
from iolim import parents

BC = "src/bc.rs"
IR = "src/ir.rs"

BARRIERS = ("BrZ", "BrNZ", "Mov", "Scan")


def T(ast, n, limit=600, path=BC):
    return ast.src1(path, n, limit).replace(" ", "")


def arm_variants(arm):
    """[(variant, [names])] covered by a match arm pattern."""
    out = []
    pats = arm["pat"]["cases"] if arm["pat"]["t"] == "POr" else [arm["pat"]]
    for p in pats:
        if p["t"] == "PTupleStruct" and p["path"]["name"].startswith("Instr::"):
            names = []
            for e in p["elems"]:
                if e["t"] == "PIdent":
                    names.append(e["name"])
                elif e["t"] == "PTupleStruct" and e["path"]["name"].startswith("Loc::") and e["elems"][0]["t"] == "PIdent":
                    names.append(("loc", e["path"]["name"][5:], e["elems"][0]["name"]))
                else:
                    names.append(None)
            out.append((p["path"]["name"][7:], names))
        elif p["t"] == "PPath" and p["path"]["name"].startswith("Instr::"):
            out.append((p["path"]["name"][7:], []))
        elif p["t"] == "PWild":
            out.append(("_", []))
    return out


def set_calls(node, setname):
    out = []
    for m in walk_t(node, "MethodCall"):
        if path_name(m["receiver"]) == setname and m["method"] in ("remove", "clear", "insert"):
            arg = None
            if m["args"]:
                a = m["args"][0]
                while a["t"] in ("Reference", "Paren") or (a["t"] == "Unary" and a["op"] == "*"):
                    a = a["expr"]
                arg = path_name(a)
            out.append((m["method"], arg, m))
    return out


HELPERS = {}


def loc_removed(body, setname, locvar, depth=0):
    """Is the cell of Loc-typed variable `locvar` removed from `setname` when it is a Mem location?"""
    def iflets(node):
        for i in walk_t(node, "If"):
            c = strip_paren(i["cond"])
            if c["t"] != "Let":
                continue
            p = c["pat"]
            cases = p["cases"] if p["t"] == "POr" else [p]
            binds = [x["elems"][0]["name"] for x in cases if x["t"] == "PTupleStruct" and x["path"]["name"] in ("Loc::Mem",)
                     and x["elems"][0]["t"] == "PIdent"]
            if not binds:
                continue
            scr = c["expr"]
            while scr["t"] in ("Paren", "Reference") or (scr["t"] == "Unary" and scr["op"] == "*"):
                scr = scr["expr"]
            yield i, binds[0], path_name(scr)
    # direct
    for i, b, scr in iflets(body):
        if scr == locvar and any(mth == "remove" and arg == b for mth, arg, _ in set_calls(i, setname)):
            return True
    # through a helper of this file that receives the set and the location: the helper's body is asked the same question
    if depth < 2:
        for c_ in list(walk_t(body, "Call")) + list(walk_t(body, "MethodCall")):
            nm = (path_name(strip_paren(c_["func"])) or "").split("::")[-1] if c_["t"] == "Call" else c_["method"]
            h = HELPERS.get(nm)
            if h is None:
                continue
            ps = [p_["pat"]["name"] for p_ in h["sig"]["inputs"] if p_["t"] == "Arg" and p_["pat"]["t"] == "PIdent"]
            args = []
            for a_ in c_["args"]:
                while a_["t"] in ("Reference", "Paren") or (a_["t"] == "Unary" and a_["op"] == "*"):
                    a_ = a_["expr"]
                args.append(path_name(a_))
            if len(ps) == len(args) and setname in args and locvar in args:
                if loc_removed(h["body"], ps[args.index(setname)], ps[args.index(locvar)], depth + 1):
                    return True
    # through `for src in [a, b]`
    for l in walk_t(body, "ForLoop"):
        it = strip_paren(l["expr"])
        if it["t"] == "Array" and l["pat"]["t"] == "PIdent":
            names = [path_name(strip_paren(x)) for x in it["elems"]]
            if locvar in names:
                lv = l["pat"]["name"]
                for i, b, scr in iflets(l["body"]):
                    if scr == lv and any(mth == "remove" and arg == b for mth, arg, _ in set_calls(i, setname)):
                        return True
                if depth < 2 and loc_removed(l["body"], setname, lv, depth + 1):
                    return True
    return False


def run_pass_kill(res, ast):
    res.rule("PASS-KILL", "dead_store_elim and zeroing_move_detection: branches, pointer moves and scans clear the pending "
             "set; every cell read (dead stores) resp. every cell access (pending zeroing) removes that cell",
             floor=20, what="(pass, instruction kind, operand) obligations")
    res.files.add(BC)
    HELPERS.clear()
    byname = {}
    for f_ in ast.find_fns(BC):
        if f_["node"].get("body") and not is_test_item(f_):
            byname.setdefault(f_["name"], []).append(f_["node"])
    HELPERS.update({k: v[0] for k, v in byname.items() if len(v) == 1})
    for fname, setname, mode in (("dead_store_elim", "dead", "reads"), ("zeroing_move_detection", "zerod", "accesses")):
        try:
            fn = ast.fn(BC, fname)["node"]
        except Missing as m:
            res.missing("PASS-KILL", m)
            continue
        import pm
        def is_inst(e_):
            return any(pm.match_expr(e_, pt) is not None for pt in ("self.insts[__v_i]", "&mut self.insts[__v_i]", "&self.insts[__v_i]"))
        # a local copy / borrow of the current instruction (`let inst = self.insts[i];`) is the instruction as well
        inst_locals = {l["pat"]["name"] for l in walk_t(fn["body"], "Local") if l["pat"]["t"] == "PIdent" and l.get("init") is not None and is_inst(strip_paren(l["init"]))}
        matches = [m for m in walk_t(fn["body"], "Match") if is_inst(m["expr"]) or path_name(strip_paren(m["expr"])) in inst_locals
                   or (strip_paren(m["expr"])["t"] in ("Reference", "Unary") and path_name(strip_paren(strip_paren(m["expr"])["expr"])) in inst_locals)]
        # the pending set is the one hash container this pass creates
        sets = [l["pat"]["name"] for l in walk_t(fn["body"], "Local") if l["pat"]["t"] == "PIdent" and l["init"] is not None
                and strip_paren(l["init"])["t"] == "Call" and (path_name(strip_paren(l["init"])["func"]) or "").split("::<")[0] in ("HashSet::new", "HashMap::new")]
        if len(sets) == 1:
            setname = sets[0]
        cov = {}   # variant -> list of (arm, names)
        for m in matches:
            for a in m["arms"]:
                for v, names in arm_variants(a):
                    cov.setdefault(v, []).append((a, names))
        w0 = where(BC, fn, fname)

        def need(variant, pred, what):
            key = f"{BC}|{fname}|{variant}|{what}"
            arms = cov.get(variant, [])
            ok = any(pred(a, names) for a, names in arms)
            res.check(ok, "PASS-KILL", key, where(BC, arms[0][0], fname) if arms else w0,
                      f"{fname}: Instr::{variant}: {what} is missing - a pending entry survives an instruction that invalidates it")
        for v in BARRIERS:
            need(v, lambda a, names: any(mth == "clear" for mth, _, _ in set_calls(a["body"], setname)),
                 f"`{setname}.clear()` (control flow / pointer move)")
        need("Out", lambda a, names: len(names) == 1 and isinstance(names[0], str) and
             any(mth == "remove" and arg == names[0] for mth, arg, _ in set_calls(a["body"], setname)),
             f"`{setname}.remove(cell)` for the cell that is output")
        for v in ("Add", "Sub", "Mul"):
            for pos, nm in ((1, "first source"), (2, "second source")):
                need(v, lambda a, names, pos=pos: len(names) == 3 and isinstance(names[pos], str) and loc_removed(a["body"], setname, names[pos]),
                     f"`{setname}.remove(cell)` for the {nm} when it is a tape cell")
        need("Copy", lambda a, names: len(names) == 2 and isinstance(names[1], str) and loc_removed(a["body"], setname, names[1]),
             f"`{setname}.remove(cell)` for the source when it is a tape cell")
        if mode == "accesses":
            need("Inp", lambda a, names: len(names) == 1 and isinstance(names[0], str) and
                 any(mth == "remove" and arg == names[0] for mth, arg, _ in set_calls(a["body"], setname)),
                 f"`{setname}.remove(cell)` for the cell that is overwritten by input")
            for v in ("Add", "Sub", "Mul", "Copy"):
                def dst_removed(a, names):
                    if not names or not isinstance(names[0], str):
                        return False
                    for i in walk_t(a["body"], "If"):
                        c = strip_paren(i["cond"])
                        if c["t"] == "Let" and c["pat"]["t"] == "PTupleStruct" and c["pat"]["path"]["name"] == "Loc::Mem":
                            scr = c["expr"]
                            while scr["t"] in ("Paren", "Reference") or (scr["t"] == "Unary" and scr["op"] == "*"):
                                scr = scr["expr"]
                            b = c["pat"]["elems"][0].get("name")
                            if path_name(scr) == names[0] and any(mth == "remove" and arg == b for mth, arg, _ in set_calls(i["then"], setname)):
                                return True
                    return False
                need(v, dst_removed, f"`{setname}.remove(cell)` for the destination when it is a tape cell")
            # branch targets
            # read-and-zero goes to the operand the ops read LAST: with both sources naming the same cell, an earlier read-and-zero would make the
            # later read see 0.  Reader: bcint ops add2/sub2/mul2 read Src0 before Src1.  Writer: the pass visits the sources one by one and the first
            # visit that finds the pending zeroing takes it (zerod.remove), so it must visit src1 before src0.
            try:
                OPSF = "src/exec/bcint/ops.rs"
                read_first = set()
                for opn in ("add2", "sub2", "mul2"):
                    of = ast.fn(OPSF, opn)["node"]
                    gens = [g["name"] for g in of["sig"]["generics"]["params"] if g["t"] == "TypeParam"]
                    srcs = [g for g in gens if g.lower().startswith("src")]
                    reads_ = [path_name(strip_paren(c_["func"])).split("::")[0] for c_ in walk_t(of["body"], "Call")
                              if (path_name(strip_paren(c_["func"])) or "").endswith("::read") and path_name(strip_paren(c_["func"])).split("::")[0] in srcs]
                    if len(srcs) == 2 and reads_[:2] == srcs:
                        read_first.add("src0")
                    elif len(srcs) == 2 and reads_[:2] == srcs[::-1]:
                        read_first.add("src1")
                    else:
                        read_first.add("?")
                okmz, why_mz = False, "the visiting order of the two sources could not be determined (fail closed)"
                if read_first == {"src0"} or read_first == {"src1"}:
                    first_read = 1 if read_first == {"src0"} else 2          # position in Instr::Add(dst, src0, src1)
                    for v in ("Add", "Sub", "Mul"):
                        for a_, names_ in cov.get(v, []):
                            if len(names_) != 3:
                                continue
                            for lp in walk_t(a_["body"], "ForLoop"):
                                it_ = strip_paren(lp["expr"])
                                if it_["t"] == "Array" and len(it_["elems"]) == 2:
                                    order = [path_name(strip_paren(x)) for x in it_["elems"]]
                                    if set(order) == {names_[1], names_[2]}:
                                        visited_first = 1 if order[0] == names_[1] else 2
                                        okmz = visited_first != first_read
                                        why_mz = f"the sources are visited in the order {order}: the one the ops read first would take the read-and-zero marker"
                res.check(okmz, "PASS-KILL", f"{BC}|{fname}|memzero-order", w0,
                          "zeroing_move_detection must offer the pending zeroing to the source operand that the ops read last (src1) before the one they read "
                          "first: with both sources on the same cell the earlier read-and-zero would zero it under the later read; " + why_mz)
            except Missing as m_:
                res.missing("PASS-KILL", m_)
            # the reset at branch targets must be reached in *every* iteration (must-pass-through): it is a top-level statement of the loop body over
            # the instruction index, and nothing before it can leave the iteration (continue / break / return)
            okbt, why_bt = False, "no `if self.is_target[i] { pending.clear() }` at the top level of the instruction loop"
            for lp in walk_t(fn["body"], "ForLoop"):
                iv = lp["pat"].get("name") if lp["pat"]["t"] == "PIdent" else None
                if iv is None:
                    continue
                st_ = lp["body"]["stmts"]
                at = [k_ for k_, s_ in enumerate(st_) if s_["t"] == "ExprStmt" and s_["expr"]["t"] == "If" and
                      pm.match_expr(s_["expr"], "if self.is_target[__v_i] { " + setname + ".clear(); }", {"__v_i": iv}) is not None]
                if not at:
                    continue
                esc = []
                for s_ in st_[:at[0]]:
                    for n_ in walk_t(s_, "Continue", "Break", "Return", "Try"):
                        if n_["t"] in ("Continue", "Break") and inside_inner_loop({"body": {"stmts": [s_]}}, n_):
                            continue
                        esc.append(n_)
                if esc:
                    why_bt = f"a `{esc[0]['t'].lower()}` before the branch-target reset lets an iteration skip it (src/bc.rs:{esc[0]['sp'][0]})"
                else:
                    okbt = True
            res.check(okbt, "PASS-KILL", f"{BC}|{fname}|branch-target", w0,
                      "zeroing_move_detection must clear the pending set at every branch target, in every iteration: " + why_bt)
        else:
            # inserts only for full overwrites
            for v, arms in cov.items():
                for a, names in arms:
                    for mth, arg, node in set_calls(a["body"], setname):
                        if mth == "insert":
                            okv = v in ("Add", "Sub", "Mul", "Copy", "Inp")
                            res.check(okv, "PASS-KILL", f"{BC}|{fname}|{v}|insert", where(BC, node, fname),
                                      f"{fname}: Instr::{v} marks a cell dead although it does not overwrite it")
    # record_branch_targets marks the target of every branch of both kinds: evaluated on two representative programs
    try:
        import itereval
        from rusteval import Env as _Env, ReturnEx as _Ret, Unanalysable as _Un, Reached as _Re
        rb = ast.fn(BC, "record_branch_targets")["node"]

        class RB(itereval.IterInterp):
            def __init__(self, insts):
                super().__init__()
                self.insts, self.is_target = insts, []

            def field(self, base, member, node):
                if base == "self" and member == "insts":
                    return self.insts
                if base == "self" and member == "is_target":
                    return self.is_target
                return super().field(base, member, node)

            def eval(self, e, env):
                if e.get("t") == "PathExpr" and e["path"]["name"] == "self":
                    return "self"
                return super().eval(e, env)

        I = lambda n, *f: itereval.Ctor("Instr::" + n, list(f))
        progs = [([I("BrZ", 0, 3), I("Noop"), I("Mov", 1), I("BrNZ", 0, -2), I("Out", 0)], {3, 1}),
                 ([I("Noop"), I("BrNZ", 5, 0), I("BrZ", 1, 1)], {1, 3}),
                 ([I("Mov", 1), I("Out", 0)], set()),
                 ([I("BrZ", 0, 1)], {1})]
        bad_ = []
        for insts, want in progs:
            it = RB(insts)
            try:
                try:
                    it.exec_block(rb["body"], _Env())
                except _Ret:
                    pass
                got = {i_ for i_, v_ in enumerate(it.is_target) if v_ is True}
                if len(it.is_target) != len(insts) + 1:
                    bad_.append(f"is_target has {len(it.is_target)} entries for {len(insts)} instructions (one per instruction plus the end is needed)")
                elif got != want:
                    bad_.append(f"for {insts!r} the marked targets are {sorted(got)}, the branches jump to {sorted(want)}")
            except (_Un, _Re, KeyError, TypeError, IndexError) as u_:
                bad_.append(f"cannot be analysed (fail closed): {u_}")
            res.evaluations += 1
        res.check(not bad_, "PASS-KILL", f"{BC}|record_branch_targets", where(BC, rb, "record_branch_targets"),
                  "record_branch_targets must mark insts[i + off] for every BrZ and every BrNZ (one entry per instruction plus the end): "
                  "an unmarked target lets a zeroing move be fused across a join point; " + "; ".join(bad_[:2]))
    except Missing as m:
        res.missing("PASS-KILL", m)
    # translate: zeroing_move_detection needs record_branch_targets first
    try:
        tr = ast.fn(BC, "translate")["node"]
        seq = [m["method"] for m in walk_t(tr["body"], "MethodCall") if path_name(m["receiver"])]
        ok = "record_branch_targets" in seq and "zeroing_move_detection" in seq and seq.index("record_branch_targets") < seq.index("zeroing_move_detection")
        res.check(ok, "PASS-KILL", f"{BC}|translate|targets-before-zeroing", where(BC, tr, "translate"),
                  "record_branch_targets must run before zeroing_move_detection")
    except Missing as m:
        res.missing("PASS-KILL", m)


def run_c11(res, ast, rules=("TEMPS-BY-CONSTRUCTION", "WINDOW-BY-CONSTRUCTION", "LIVE-ZIP")):
    res.files.update([BC, IR])
    if "TEMPS-BY-CONSTRUCTION" in rules:
        res.rule("TEMPS-BY-CONSTRUCTION", "count_temps takes the maximum over every Loc position of every instruction "
                 "variant, runs after the last pass of translate, and is stored in Program.temps", floor=5, what="obligations")
        try:
            en = ast.item(BC, "Enum", "Instr")
            ct = ast.fn(BC, "count_temps")["node"]
            loc_variants = {}
            for v in en["variants"]:
                n = sum(1 for f in v["fields"]["fields"] if f["ty"]["s"].startswith("Loc"))
                if n:
                    loc_variants[v["name"]] = n
            # count_temps evaluated on representative programs: one instruction of each variant with temporaries at every subset of its
            # Loc positions (distinct indices, each position in turn holding the largest), and two-instruction programs for the fold
            import itereval, itertools
            from rusteval import Env as _Env, ReturnEx as _Ret, Unanalysable as _Un, Reached as _Re

            class TI(itereval.IterInterp):
                def __init__(self, insts):
                    super().__init__()
                    self.insts = insts

                def field(self, base, member, node):
                    if base == "self" and member == "insts":
                        return self.insts
                    return super().field(base, member, node)

                def eval(self, e, env):
                    if e.get("t") == "PathExpr" and e["path"]["name"] == "self":
                        return "self"
                    return super().eval(e, env)

                def path_value(self, name, node):
                    raise _Un(f"path {name}")

            def loc(kind, v):
                return itereval.Ctor("Loc::" + kind, [v])

            def run_ct(insts):
                it = TI(insts)
                try:
                    return it.exec_block(ct["body"], _Env())
                except _Ret as r_:
                    return r_.value
            all_variants = {v["name"]: v for v in en["variants"]}
            others = [itereval.Ctor("Instr::" + v["name"], [7] * len(v["fields"]["fields"])) for v in en["variants"] if v["name"] not in loc_variants]
            for v, n in loc_variants.items():
                bad_ = []
                nev = 0
                fields = all_variants[v]["fields"]["fields"]
                locpos = [i_ for i_, f_ in enumerate(fields) if f_["ty"]["s"].startswith("Loc")]
                for r_ in range(0, n + 1):
                    for tpos in itertools.combinations(range(n), r_):
                        for top in (tpos or (None,)):
                            vals = []
                            want = 0
                            for k_ in range(n):
                                if k_ in tpos:
                                    idx = 40 if k_ == top else 3 + k_
                                    vals.append(loc("Tmp", idx))
                                    want = max(want, idx + 1)
                                else:
                                    vals.append(loc("Mem", 90 + k_) if k_ % 2 == 0 else loc("Imm", 77))
                            fv = [7] * len(fields)
                            for k_, p_ in enumerate(locpos):
                                fv[p_] = vals[k_]
                            inst = itereval.Ctor("Instr::" + v, fv)
                            for prog in ([inst], [inst] + others, others + [inst], [itereval.Ctor("Instr::" + v, [loc("Tmp", 1) if i_ in locpos else 7 for i_ in range(len(fields))]), inst]):
                                nev += 1
                                try:
                                    got = run_ct(prog)
                                    if not (isinstance(got, int) and not isinstance(got, bool) and got >= want):
                                        bad_.append(f"a program with {inst!r} declares {got!r} temporaries, needs at least {want}")
                                except (_Un, _Re, KeyError, TypeError, IndexError) as u_:
                                    bad_.append(f"cannot be analysed (fail closed): {u_}")
                res.evaluations += nev
                res.check(not bad_, "TEMPS-BY-CONSTRUCTION", f"{BC}|count_temps|{v}", where(BC, ct, "count_temps"),
                          f"count_temps: Instr::{v}: " + "; ".join(sorted(set(bad_))[:2]) + ": a temporary index can exceed Program.temps")
            try:
                empty = run_ct([]) == 0 and run_ct(others) == 0
            except (_Un, _Re, KeyError, TypeError, IndexError):
                empty = False
            res.check(empty, "TEMPS-BY-CONSTRUCTION", f"{BC}|count_temps|fold", where(BC, ct, "count_temps"), "count_temps of a program without temporaries must be 0 and must be analysable")
            tr = ast.fn(BC, "translate")["node"]
            cgn = [l_["pat"]["name"] for l_ in walk_t(tr["body"], "Local") if l_["pat"]["t"] == "PIdent" and l_["init"] is not None
                   and strip_paren(l_["init"])["t"] == "StructExpr" and strip_paren(l_["init"])["path"]["name"] == "CodeGen"]
            cgn = cgn[0] if len(cgn) == 1 else "codegen"
            seq = [(m["method"], m["sp"][0]) for m in walk_t(tr["body"], "MethodCall") if path_name(m["receiver"]) == cgn]
            names = [s[0] for s in seq]
            ok = names and names[-1] == "count_temps"
            res.check(bool(ok), "TEMPS-BY-CONSTRUCTION", f"{BC}|translate|count-last", where(BC, tr, "translate"),
                      f"count_temps must be the last pass of translate (order: {names})")
            se = [s for s in walk_t(tr["body"], "StructExpr") if s["path"]["name"] == "Program"]
            okp = False
            if len(se) == 1:
                fl = {f["member"]: T(ast, f["expr"]) for f in se[0]["fields"]}
                lets = {l["pat"].get("name"): T(ast, l["init"]) for l in walk_t(tr["body"], "Local") if l["init"] is not None and l["pat"]["t"] == "PIdent"}
                okp = lets.get(fl.get("temps")) == f"{cgn}.count_temps()" and fl.get("insts") == f"{cgn}.insts" and fl.get("live") == f"{cgn}.live"
            res.check(okp, "TEMPS-BY-CONSTRUCTION", f"{BC}|translate|program", where(BC, tr, "translate"),
                      "Program { temps, insts, live } must be the counted temps and the generator's own vectors")
        except Missing as m:
            res.missing("TEMPS-BY-CONSTRUCTION", m)
    if "WINDOW-BY-CONSTRUCTION" in rules:
        res.rule("WINDOW-BY-CONSTRUCTION", "the access window starts at [0, 0]; Analysis::analyze and "
                 "Block::compute_min_max_accessed pass every cell operand of every ir::Instr variant to the accumulator; "
                 "`written` always counts as `accessed`; tape offsets put into bytecode are copies; translate hands the window on unchanged",
                 floor=12, what="obligations")
        try:
            an = ast.fn(BC, "analyze")["node"]
            acc = ast.fn(BC, "accessed")["node"]
            wr = ast.fn(BC, "written")["node"]
            w = where(BC, an, "Analysis::analyze")
            inits = [se for se in walk_t(an["body"], "StructExpr") if se["path"]["name"] == "Analysis"]
            okinit = len(inits) == 1 and {f["member"]: int_lit(f["expr"]) for f in inits[0]["fields"] if f["member"] in ("min_accessed", "max_accessed")} == {"min_accessed": 0, "max_accessed": 0}
            res.check(okinit, "WINDOW-BY-CONSTRUCTION", f"{BC}|analyze|init", w, "the window must start at [0, 0] (the current cell)")
            # accessed / written evaluated on the order classes of the cell relative to the window (below, inside, above) and of has_shift
            import receval
            from receval import Rec as _Rec, MapV as _MapV
            from rusteval import Env as _Env, ReturnEx as _Ret, Unanalysable as _Un, Reached as _Re

            def call_on(fnode, rec, arg):
                ps_ = [p_["pat"]["name"] for p_ in fnode["sig"]["inputs"] if p_["t"] == "Arg" and p_["pat"]["t"] == "PIdent"]
                if len(ps_) != 1:
                    raise _Un("unexpected parameters")
                it_ = receval.RecInterp(ast, BC, rec)
                env_ = _Env()
                env_.bind(ps_[0], arg)
                try:
                    it_.exec_block(fnode["body"], env_)
                except _Ret:
                    pass
            for fnode, fname_, what_ in ((acc, "accessed", "accessed must widen both ends of the window"),
                                         (wr, "written", "written must count the cell as accessed in every state, and as written unless the block already shifts")):
                bad_ = []
                try:
                    for var_ in (-7, -2, 0, 5, 9):
                        for hs in ((False,) if fname_ == "accessed" else (False, True)):
                            rec = _Rec(min_accessed=-2, max_accessed=5, has_shift=hs, writes=_MapV(), sub_anal=[])
                            call_on(fnode, rec, var_)
                            if rec["min_accessed"] != min(-2, var_) or rec["max_accessed"] != max(5, var_):
                                bad_.append(f"cell {var_} with window [-2, 5]{' after a shift' if hs else ''}: the window becomes [{rec['min_accessed']}, {rec['max_accessed']}]")
                            if fname_ == "written" and not hs and var_ not in rec["writes"]:
                                bad_.append(f"cell {var_} is not entered into `writes`")
                            res.evaluations += 1
                except (_Un, _Re, KeyError, TypeError, IndexError, AttributeError) as u_:
                    bad_.append(f"cannot be analysed (fail closed): {u_}")
                res.check(not bad_, "WINDOW-BY-CONSTRUCTION", f"{BC}|{fname_}", where(BC, fnode, "Analysis::" + fname_), what_ + ": " + "; ".join(bad_[:2]))
            import pm
            arms = {}
            for m in walk_t(an["body"], "Match"):
                for a in m["arms"]:
                    pats = a["pat"]["cases"] if a["pat"]["t"] == "POr" else [a["pat"]]
                    for p in pats:
                        if p["t"] == "PStruct":
                            binds = {f["member"]: (f["pat"]["name"] if f["pat"]["t"] == "PIdent" else None) for f in p["fields"]}
                            arms[p["path"]["name"].split("::")[-1]] = (a, binds)

            def arm_has(v, pattern, fields, what):
                """pattern may use __v_acc (the accumulator, any name) and __v_<field> (the binding of that IR field)."""
                a = arms.get(v)
                ok = False
                if a is not None:
                    env0 = {}
                    for fld in fields:
                        if a[1].get(fld) is None:
                            env0 = None
                            break
                        env0["__v_" + fld] = a[1][fld]
                    if env0 is not None:
                        ok = bool(pm.find_expr(a[0]["body"], pattern, env0))
                res.check(ok, "WINDOW-BY-CONSTRUCTION", f"{BC}|analyze|{v}|{what}", where(BC, a[0], "analyze") if a else w,
                          f"Analysis::analyze, ir::Instr::{v}: {what} is not recorded: generated code may touch a cell outside the probed window")
            arm_has("Output", "__v_acc.accessed(*__v_src)", ["src"], "the output cell")
            arm_has("Input", "__v_acc.written(*__v_dst)", ["dst"], "the input cell")
            a = arms.get("Calc")
            okc = False
            okw = False
            if a is not None and a[1].get("calcs"):
                for l in walk_t(a[0]["body"], "ForLoop"):
                    b1 = pm.match_expr(l, "for (__v_var, __v_calc) in " + a[1]["calcs"] + " { for __v_x in __v_calc.variables() { __v_acc.accessed(__v_x); } __v_acc.written(*__v_var); }")
                    if b1:
                        okc = okw = True
            res.check(okc, "WINDOW-BY-CONSTRUCTION", f"{BC}|analyze|Calc|every variable of every expression", where(BC, a[0], "analyze") if a else w,
                      "Analysis::analyze, ir::Instr::Calc: every variable of every expression and every assigned cell must be recorded "
                      "(`for (var, calc) in calcs { for v in calc.variables() { acc.accessed(v) } acc.written(*var) }`)")
            res.check(okw, "WINDOW-BY-CONSTRUCTION", f"{BC}|analyze|Calc|every assigned cell", where(BC, a[0], "analyze") if a else w,
                      "Analysis::analyze, ir::Instr::Calc: every assigned cell must be recorded")
            for v in ("Loop", "If"):
                arm_has(v, "__v_acc.accessed(*__v_cond)", ["cond"], "the condition cell")
                a = arms.get(v)
                sub = None
                if a is not None:
                    for l in walk_t(a[0]["body"], "Local"):
                        if l["init"] is not None and l["pat"]["t"] == "PIdent" and pm.match_expr(l["init"], "Self::analyze(__v_b)"):
                            sub = l["pat"]["name"]
                for fld, what in (("min_accessed", "the nested block's minimum"), ("max_accessed", "the nested block's maximum")):
                    ok = sub is not None and bool(pm.find_expr(a[0]["body"], f"__v_acc.accessed({sub}.{fld})"))
                    res.check(ok, "WINDOW-BY-CONSTRUCTION", f"{BC}|analyze|{v}|{what}", where(BC, a[0], "analyze") if a else w,
                              f"Analysis::analyze, ir::Instr::{v}: {what} is not recorded")
            # ir.rs twin
            cm = ast.fn(IR, "compute_min_max_accessed")["node"]
            wi = where(IR, cm, "compute_min_max_accessed")
            st0 = cm["body"]["stmts"]
            b0 = pm.match_stmts(st0[:2], "let mut __v_min = 0; let mut __v_max = 0;") if len(st0) >= 2 else None
            res.check(b0 is not None, "WINDOW-BY-CONSTRUCTION", f"{IR}|compute_min_max_accessed|window starts at [0, 0]", wi,
                      "Block::compute_min_max_accessed must start from min = max = 0")
            env_ = b0 or {}
            arms2 = {}
            for m in walk_t(cm["body"], "Match"):
                for a in m["arms"]:
                    pats = a["pat"]["cases"] if a["pat"]["t"] == "POr" else [a["pat"]]
                    for p_ in pats:
                        if p_["t"] == "PStruct":
                            arms2[p_["path"]["name"].split("::")[-1]] = (a, {f_["member"]: (f_["pat"]["name"] if f_["pat"]["t"] == "PIdent" else None) for f_ in p_["fields"]})

            def twin(v, fld, what):
                a = arms2.get(v)
                ok = False
                if a is not None and a[1].get(fld):
                    e2 = dict(env_)
                    x = a[1][fld]
                    ok = bool(pm.find_expr(a[0]["body"], f"__v_min = __v_min.min(*{x})", e2) or pm.find_expr(a[0]["body"], f"__v_min = __v_min.min(*{x}).min(__e_r)", e2)) and \
                        bool(pm.find_expr(a[0]["body"], f"__v_max = __v_max.max(*{x})", e2) or pm.find_expr(a[0]["body"], f"__v_max = __v_max.max(*{x}).max(__e_r)", e2))
                res.check(ok, "WINDOW-BY-CONSTRUCTION", f"{IR}|compute_min_max_accessed|{what}", wi, f"Block::compute_min_max_accessed does not account for {what}")
            twin("Output", "src", "Output.src")
            twin("Input", "dst", "Input.dst")
            a = arms2.get("Calc")
            okc = False
            if a is not None and a[1].get("calcs"):
                for l in walk_t(a[0]["body"], "ForLoop"):
                    if pm.match_expr(l, "for (__v_var, __v_calc) in " + a[1]["calcs"] + " { __v_min = __v_min.min(*__v_var); __v_max = __v_max.max(*__v_var); "
                                     "for __v_x in __v_calc.variables() { __v_min = __v_min.min(__v_x); __v_max = __v_max.max(__v_x); } }", dict(env_)):
                        okc = True
            res.check(okc, "WINDOW-BY-CONSTRUCTION", f"{IR}|compute_min_max_accessed|Calc targets and variables", wi,
                      "Block::compute_min_max_accessed does not account for Calc targets and variables")
            for v in ("Loop", "If"):
                a = arms2.get(v)
                ok = False
                if a is not None and a[1].get("cond") and a[1].get("block"):
                    ok = pm.match_expr(a[0]["body"], "{ let (__v_smin, __v_smax) = " + a[1]["block"] + ".compute_min_max_accessed(); __v_min = __v_min.min(*" + a[1]["cond"] +
                                       ").min(__v_smin); __v_max = __v_max.max(*" + a[1]["cond"] + ").max(__v_smax); }", dict(env_)) is not None
                res.check(ok, "WINDOW-BY-CONSTRUCTION", f"{IR}|compute_min_max_accessed|{v} condition and nested block", wi,
                          f"Block::compute_min_max_accessed does not account for the {v} condition and its nested block")
            # provenance of tape offsets in bytecode
            n_off = 0
            bad = []
            for f in ast.find_fns(BC):
                if is_test_item(f) or not f["node"].get("body"):
                    continue
                for c in walk_t(f["node"]["body"], "Call"):
                    nm = path_name(c["func"])
                    if nm in ("Instr::Scan", "Instr::Mov", "Instr::Inp", "Instr::Out", "Instr::BrZ", "Instr::BrNZ", "Loc::Mem", "Loc::MemZero", "GvnExpr::Mem"):
                        cellpos = {"Instr::Scan": [0, 1], "Instr::Mov": [0], "Instr::Inp": [0], "Instr::Out": [0], "Instr::BrZ": [0], "Instr::BrNZ": [0],
                                   "Loc::Mem": [0], "Loc::MemZero": [0], "GvnExpr::Mem": [0]}[nm]
                        for i in cellpos:
                            if i >= len(c["args"]):
                                continue
                            a = c["args"][i]
                            if a["t"] == "Infer":
                                continue      # a pattern inside matches!(..), not a construction
                            n_off += 1
                            while a["t"] in ("Paren", "Reference") or (a["t"] == "Unary" and a["op"] == "*"):
                                a = a["expr"]
                            if a["t"] not in ("PathExpr", "Field"):
                                bad.append((f["name"], ast.src1(BC, c)))
            res.check(not bad and n_off >= 10, "WINDOW-BY-CONSTRUCTION", f"{BC}|offset-provenance", BC,
                      f"tape offsets placed into bytecode must be copies of IR/bytecode operands (no arithmetic); found {bad[:3]} among {n_off} sites")
            tr = ast.fn(BC, "translate")["node"]
            import pm
            an_l = [l_["pat"]["name"] for l_ in walk_t(tr["body"], "Local") if l_["pat"]["t"] == "PIdent" and l_["init"] is not None and pm.match_expr(l_["init"], "Analysis::analyze(__v_p)")]
            lits = {se["path"]["name"]: {f_["member"]: T(ast, f_["expr"]) for f_ in se["fields"]} for se in walk_t(tr["body"], "StructExpr") if se["path"]["name"] in ("CodeGen", "Program")}
            cg_l = [l_["pat"]["name"] for l_ in walk_t(tr["body"], "Local") if l_["pat"]["t"] == "PIdent" and l_["init"] is not None
                    and strip_paren(l_["init"])["t"] == "StructExpr" and strip_paren(l_["init"])["path"]["name"] == "CodeGen"]
            ok = (len(an_l) == 1 and len(cg_l) == 1 and
                  lits.get("CodeGen", {}).get("min_accessed") == f"{an_l[0]}.min_accessed" and lits["CodeGen"].get("max_accessed") == f"{an_l[0]}.max_accessed" and
                  lits.get("Program", {}).get("min_accessed") == f"{cg_l[0]}.min_accessed" and lits["Program"].get("max_accessed") == f"{cg_l[0]}.max_accessed")
            res.check(ok, "WINDOW-BY-CONSTRUCTION", f"{BC}|translate|window", where(BC, tr, "translate"),
                      "translate must copy the analysed window into CodeGen and into Program unchanged")
            assigns = [a for f in ast.find_fns(BC) for a in walk_t(f["node"].get("body") or {}, "Assign")
                       if T(ast, a["left"]).endswith(("min_accessed", "max_accessed")) and f["name"] != "accessed"]
            res.check(not assigns, "WINDOW-BY-CONSTRUCTION", f"{BC}|window-writers", BC, "min_accessed/max_accessed are assigned outside Analysis::accessed")
        except Missing as m:
            res.missing("WINDOW-BY-CONSTRUCTION", m)
    if "LIVE-ZIP" in rules:
        res.rule("LIVE-ZIP", "`live` has one entry per instruction: allocate_temps pushes exactly once per visited instruction "
                 "and strip_noops filters `live` and `insts` with the same predicate", floor=2, what="obligations")
        try:
            import pm
            sn = ast.fn(BC, "strip_noops")["node"]
            b_ = pm.match_stmts(sn["body"]["stmts"], "__rest; let mut __v_k = 0; self.live.retain(|_| { __v_k += 1; !matches!(self.insts[__v_k - 1], Instr::Noop) }); "
                                "self.insts.retain(|__v_x| !matches!(__v_x, Instr::Noop));")
            res.check(b_ is not None, "LIVE-ZIP", f"{BC}|strip_noops|retain", where(BC, sn, "strip_noops"),
                      "strip_noops must filter `live` (first, indexing the unfiltered insts) and `insts` with the same `is Noop` predicate")
            at = ast.fn(BC, "allocate_temps")["node"]
            loops = [l for l in at["body"]["stmts"] if l["t"] == "ExprStmt" and l["expr"]["t"] == "ForLoop"
                     and T(ast, l["expr"]["expr"]) == "0..self.insts.len()"]
            okp = False
            if len(loops) == 1:
                top = [s for s in loops[0]["expr"]["body"]["stmts"] if s["t"] == "ExprStmt" and pm.match_expr(s["expr"], "self.live.push(__e_l)")]
                allp = [m for m in walk_t(at["body"], "MethodCall") if m["method"] == "push" and T(ast, m["receiver"]) == "self.live"]
                conts = [c for c in walk_t(loops[0]["expr"]["body"], "Continue", "Break")]
                conts = [c for c in conts if not inside_inner_loop(loops[0]["expr"], c)]
                okp = len(top) == 1 and len(allp) == 1 and not conts
            res.check(okp, "LIVE-ZIP", f"{BC}|allocate_temps|push", where(BC, at, "allocate_temps"),
                      "allocate_temps must push exactly one live bitmap per instruction, unconditionally")
        except Missing as m:
            res.missing("LIVE-ZIP", m)


def run_live_outer(res, ast, rule="LIVE-OUTER"):
    """emit_block: values created before the *enclosing* loop are left to that loop, everything else that the body used from outside is
    kept alive to the loop's end.  The threshold of that comparison must be the loop start that was current when emit_block was entered
    (saved before it is overwritten with this loop's own start).  Decided by a small forward flow over the statements of the loop arm:
    the abstract value of self.current_start is `saved` (entry value) or the name it was last assigned from."""
    import pm
    res.rule(rule, "bc::CodeGen::emit_block saves self.current_start on entry, restores it after a nested block, and the live-range extension at a loop's "
             "end compares creation times with that saved (enclosing-loop) start, not with the start of the loop being closed; range_extend reads the previous last_use "
             "before overwriting it", floor=4, what="obligations")
    try:
        fn = ast.fn(BC, "emit_block")["node"]
    except Missing as m:
        res.missing(rule, m)
        return
    w = where(BC, fn, "emit_block")
    body = fn["body"]
    saves = [l for l in body["stmts"] if l["t"] == "Local" and l["pat"]["t"] == "PIdent" and l.get("init") is not None
             and pm.match_expr(strip_paren(l["init"]), "self.current_start") is not None]
    assigns = [a for a in walk_t(body, "Assign") if pm.match_expr(strip_paren(a["left"]), "self.current_start") is not None]
    oks = len(saves) == 1 and all(before(saves[0], a) for a in assigns)
    res.check(oks, rule, f"{BC}|emit_block|save", w, "emit_block must save self.current_start into a local before anything overwrites it")
    if not oks:
        return
    P = saves[0]["pat"]["name"]
    # thresholds: comparisons `self.ranges[v].created < T` (or T > ..created)
    cmps = []
    for b_ in walk_t(body, "Binary"):
        if b_["op"] in ("<", ">=", ">", "<="):
            for side, other in (("left", "right"), ("right", "left")):
                x = strip_paren(b_[side])
                if x["t"] == "Field" and x["member"] == "created":
                    cmps.append((b_, b_[other]))
    par = parents(fn)

    def cs_at(node):
        """abstract value of self.current_start where `node` is evaluated: walk the enclosing statement lists from the function entry"""
        # collect the chain of (block, index) from the root to node
        chain = []
        cur = node
        while id(cur) in par:
            pn, k = par[id(cur)]
            if pn["t"] == "Block":
                idx = next((j for j, s_ in enumerate(pn["stmts"]) if s_ is cur), None)
                if idx is not None:
                    chain.append((pn, idx))
            cur = pn
        chain.reverse()
        val = "saved"
        for blk, idx in chain:
            for s_ in blk["stmts"][:idx]:
                for a_ in walk_t(s_, "Assign"):
                    if pm.match_expr(strip_paren(a_["left"]), "self.current_start") is not None:
                        # an assignment inside a conditional sibling: the value is one of several -> keep the last assigned name but mark as maybe
                        r_ = path_name(strip_paren(a_["right"]))
                        cond = a_ not in [x.get("expr") for x in blk["stmts"][:idx] if x["t"] == "ExprStmt"]
                        new = "saved" if r_ == P else (r_ or "?")
                        val = new if not cond else (val if new == val else f"{val}|{new}")
        return val
    okc = bool(cmps)
    why = "no comparison of a creation time with a loop start found in emit_block"
    for b_, t_ in cmps:
        t_ = strip_paren(t_)
        if path_name(t_) == P:
            continue
        if pm.match_expr(t_, "self.current_start") is not None:
            v_ = cs_at(b_)
            if v_ == "saved":
                continue
            okc, why = False, f"the threshold `self.current_start` holds `{v_}` there (this loop's own start), not the saved start of the enclosing loop"
        else:
            okc, why = False, f"the threshold is `{ast.src1(BC, t_)}`, not the start of the enclosing loop saved in `{P}`"
    res.check(okc, rule, f"{BC}|emit_block|threshold", where(BC, cmps[0][0], "emit_block") if cmps else w,
              "the live-range extension at the end of a loop must leave alone exactly the values created before the enclosing loop's start: " + why)
    # range_extend, evaluated over the order classes of (created, previous last_use) relative to the current loop's start: a value created
    # before the loop whose previous use (if any) lies before the loop is met for the first time inside this loop and must be registered in
    # outer_accessed (else nothing keeps it alive over the back edge); in every class the range must afterwards reach the current position.
    # Registering more than required (a duplicate, a value created inside the loop) only lengthens a live range and is accepted.
    try:
        rx = ast.fn(BC, "range_extend")["node"]
        import receval
        from receval import Rec
        from rusteval import Env as _Env, ReturnEx as _Ret, Unanalysable as _Un, Reached as _Re, NONE as _NONE, Some as _Some
        ps_ = [p_ for p_ in rx["sig"]["inputs"] if p_["t"] == "Arg"]
        CS, NOW = 10, 20
        bad_, n_cls = [], 0
        for created in (3, 9, 10, 15):
            for last in (None, 5, 9, 10, 12, 17):
                if last is not None and last < created:
                    continue
                n_cls += 1
                opt = _NONE if last is None else _Some(last)
                r_ = Rec(created=created, first_use=opt, last_use=opt, num_uses=0 if last is None else 1)
                me = Rec(ranges=[Rec(created=0, first_use=_NONE, last_use=_NONE, num_uses=0), r_], current_start=CS, outer_accessed=[], insts=[0] * NOW)
                it = receval.RecInterp(ast, BC, me)
                env_ = _Env()
                try:
                    if len(ps_) != 1 or ps_[0]["pat"]["t"] != "PIdent":
                        raise _Un("range_extend(&mut self, value): unexpected parameters")
                    env_.bind(ps_[0]["pat"]["name"], 1)
                    try:
                        it.exec_block(rx["body"], env_)
                    except _Ret:
                        pass
                except (_Un, _Re, KeyError, TypeError, IndexError) as u_:
                    bad_.append(f"cannot be analysed (fail closed): {u_}")
                    break
                cls = f"created {'before' if created < CS else 'inside'} the loop, " + ("never used" if last is None else f"last used {'before' if last < CS else 'inside'} the loop")
                must = created < CS and (last is None or last < CS)
                if must and 1 not in me["outer_accessed"]:
                    bad_.append(f"a value {cls} is not registered in outer_accessed: nothing keeps it alive to the end of the loop")
                lu = r_["last_use"]
                if not (hasattr(lu, "some") and lu.some and lu.v == NOW):
                    bad_.append(f"a value {cls}: last_use is {lu!r} afterwards, it must reach the current position")
                res.evaluations += 1
        res.check(not bad_ and n_cls >= 17, rule, f"{BC}|range_extend|order", where(BC, rx, "range_extend"),
                  "range_extend over the order classes of (created, previous last_use) relative to the current loop start: " + "; ".join(sorted(set(bad_))[:3]))
    except Missing as m_:
        res.missing(rule, m_)
    # restore after the nested block, on the path that changed it
    restores = [a for a in assigns if path_name(strip_paren(a["right"])) == P]
    sets = [a for a in assigns if path_name(strip_paren(a["right"])) != P]
    okr = bool(restores) and all(any(before(s_, r_) for r_ in restores) for s_ in sets)
    res.check(okr, rule, f"{BC}|emit_block|restore", w, f"self.current_start must be restored from `{P}` after the nested block")


def inside_inner_loop(outer, node):
    for l in walk_t(outer["body"], "ForLoop", "While", "Loop"):
        if any(x is node for x in walk(l)):
            return True
    return False


def run_gvn_invalidate(res, ast, rule="GVN-INVALIDATE", live_rule="LIVE-OUTER"):
    """bc::CodeGen::emit_block, the bookkeeping around a nested block.  emit_block is evaluated (lib/receval.py) on a block holding one
    Loop / If instruction, the recursive call scripted: it records what it sees on entry (value-number table, current_start) and leaves behind
    what a nested block leaves (a load of another cell, a sum of two inner temporaries, a constant, the written cell re-bound to an inner
    temporary; four outer values used by the body and registered in outer_accessed).  The entries stand for classes (outer load of a cell the
    block writes / does not write, outer constant, outer sum; inner load, inner sum, inner constant; values created before / after the start of
    the enclosing loop), the scenarios enumerate {If, Loop, Loop known to run once} x {block shifts the pointer: no / statically / only through a
    nested loop} x {fusion, Scan form}."""
    import receval, itereval
    from receval import Rec, Variant, MapV
    from rusteval import Env as _Env, ReturnEx as _Ret, Unanalysable as _Un, Reached as _Re, NONE as _NONE, UNIT as _UNIT, Some as _Some
    res.rule(rule, "bc::CodeGen::emit_block: before a loop body the value numbers of the cells the body writes are forgotten (all of them when the body shifts); "
             "after a block that shifts, all; after a block that may be skipped, the cells it writes and every load or computed value created inside it "
             "(a temporary defined only if the block ran must not be reused after it); the nested call gets the nested block and its own analysis",
             floor=8, what="scenarios")
    try:
        fn = ast.fn(BC, "emit_block")["node"]
    except Missing as m:
        res.missing(rule, m)
        return
    G = lambda n, *f: itereval.Ctor("GvnExpr::" + n, list(f))
    W, U, V2 = 5, 6, 7
    ps = [p["pat"]["name"] for p in fn["sig"]["inputs"] if p["t"] == "Arg" and p["pat"]["t"] == "PIdent"]
    # (kind, once, has_shift, static shift of the block, fuse, empty body)
    scen = [("If", False, False, 0, True, False), ("If", False, True, 1, True, False), ("If", False, True, 0, True, False),
            ("Loop", False, False, 0, True, False), ("Loop", False, True, 1, True, False), ("Loop", False, True, 0, True, False),
            ("Loop", True, False, 0, True, False), ("Loop", True, True, 1, True, False), ("Loop", True, True, 0, True, False),
            ("Loop", False, True, 1, True, True), ("If", False, False, 0, False, False),
            ("Loop", False, False, 0, False, False), ("Loop", False, True, 1, False, True)]
    ENTRY_START = 1
    for kind, once, has_shift, shift, fuse, inner_empty in scen:
        how = "does not shift" if not has_shift else "shifts" if shift else "shifts through a nested loop only"
        tag = f"{kind}{' (runs at least once)' if once else ''}, body {how}, fuse={str(fuse).lower()}{', empty body' if inner_empty else ''}"
        E = [G("Mem", W), G("Mem", U), G("Imm", 7), G("Add", 0, 1), G("Imm", 20), G("Imm", 21)]
        created = [0, 0, 0, 0, 2, 2]          # values 0-3 exist since before the enclosing loop's start (1), 4 and 5 were created inside it
        mk = lambda c: Rec(created=c, first_use=_NONE, last_use=_NONE, num_uses=0)
        me = Rec(values=MapV({e: i for i, e in enumerate(E)}), exprs=list(E), outer_accessed=[3], insts=[itereval.Ctor("Instr::Noop", [])] * 3,
                 ranges=[mk(c) for c in created], current_start=ENTRY_START, writes=MapV())
        inner = Rec(insts=[] if inner_empty else [Variant("ir::Instr::Output", {"src": U})], shift=shift)
        inst = Variant("ir::Instr::Loop", {"cond": 0, "block": inner, "once": once}) if kind == "Loop" else Variant("ir::Instr::If", {"cond": 0, "block": inner})
        sub = Rec(has_shift=has_shift, writes=[] if has_shift else [W], sub_anal=[], min_accessed=0, max_accessed=9)
        anal = Rec(has_shift=False, writes=[W], sub_anal=[sub], min_accessed=0, max_accessed=9)
        log = {"calls": 0}

        def nested(it, blk, an, fz, me=me, log=log, inner=inner, sub=sub, mk=mk):
            log["calls"] += 1
            log["entry"] = dict(me["values"])
            log["entry_start"] = me["current_start"]
            log["entry_len"] = len(me["insts"])
            log["args_ok"] = blk is inner and an is sub
            n0 = len(me["exprs"])
            new = [G("Mem", V2), G("Add", n0, n0), G("Imm", 9)]
            for e_ in new:
                me["values"][e_] = len(me["exprs"])
                me["exprs"].append(e_)
                me["ranges"].append(mk(len(me["insts"])))
            me["values"][G("Mem", W)] = n0 + 1          # the body writes W: the cell is re-bound to an inner temporary
            me["insts"].append(itereval.Ctor("Instr::Out", [U]))
            # the body used four values from outside: each was met for the first time inside this block and registered.  (Not when the body
            # shifts the pointer: the table is empty then, so nothing from outside can be named inside - an infeasible combination.)
            log["used_outer"] = not an["has_shift"]
            if log["used_outer"]:
                for v_ in (4, 0, 1, 5):
                    me["ranges"][v_]["last_use"] = _Some(len(me["insts"]) - 1)
                    me["outer_accessed"].append(v_)
            log["inner"] = new
            return _UNIT
        it = receval.RecInterp(ast, BC, me, scripted={"emit_block": nested})
        env = _Env()
        probs, lprobs = [], []
        try:
            if len(ps) != 3:
                raise _Un("emit_block(&mut self, block, analysis, fuse): unexpected parameters")
            for n_, v_ in zip(ps, [Rec(insts=[inst], shift=0), anal, fuse]):
                env.bind(n_, v_)
            try:
                it.exec_block(fn["body"], env)
            except _Ret:
                pass
        except (_Un, _Re, KeyError, TypeError, IndexError, AttributeError) as u_:
            probs.append(f"cannot be analysed (fail closed): {u_}")
        res.evaluations += 1
        scan_form = fuse and kind == "Loop" and inner_empty
        if not probs:
            if not scan_form:
                if log["calls"] != 1:
                    probs.append(f"the nested block is emitted {log['calls']} times")
                elif not log["args_ok"]:
                    probs.append("the nested call does not get the nested block together with its own analysis (sub_anal[block_idx])")
            if log.get("entry") is not None and kind == "Loop":
                if has_shift and log["entry"]:
                    probs.append(f"value numbers survive into a loop body that shifts the pointer: {sorted(map(repr, log['entry']))[:3]}")
                if not has_shift and G("Mem", W) in log["entry"]:
                    probs.append("the value number of a cell the loop body writes is still known when the body is entered: the second iteration would reuse the stale load")
            after = me["values"]
            if has_shift and after:
                probs.append(f"value numbers survive a block that shifts the pointer: {sorted(map(repr, after))[:3]}")
            if not has_shift and not once and not scan_form:
                if G("Mem", W) in after:
                    probs.append("after a block that may be skipped the cell it writes still has a value number")
                left = [e_ for e_ in log.get("inner", []) if e_ in after and e_.name != "GvnExpr::Imm"]
                if left:
                    probs.append(f"after a block that may be skipped value numbers created inside it are still known ({', '.join(map(repr, left))}): "
                                 "their temporaries are undefined when the block did not run")
            # live ranges: the loop start seen by the body, its restoration, and the extension at the end of a loop
            if log.get("entry") is not None:
                if kind == "Loop" and log["entry_start"] != log["entry_len"]:
                    lprobs.append(f"inside a loop body current_start is {log['entry_start']}, the body starts at instruction {log['entry_len']}")
                if kind == "If" and log["entry_start"] != ENTRY_START:
                    lprobs.append("an If block moves current_start: values used inside it are then taken for values of an enclosing loop that does not exist "
                                  "(nothing keeps them alive over the real loop's back edge)")
                if me["current_start"] != ENTRY_START:
                    lprobs.append(f"current_start is {me['current_start']} after the block, it was {ENTRY_START} before")
                oa = sorted(me["outer_accessed"])
                if not log.get("used_outer"):
                    if oa != [3]:
                        lprobs.append(f"outer_accessed holds {oa} after a block that used nothing from outside, it held [3] before")
                elif kind == "If":
                    if oa != [0, 1, 3, 4, 5]:
                        lprobs.append(f"after an If block outer_accessed holds {oa}; the values its body used ([0, 1, 4, 5]) belong to the enclosing loop and must stay registered")
                else:
                    br = [i_ for i_, x_ in enumerate(me["insts"]) if isinstance(x_, itereval.Ctor) and x_.name.endswith("::BrNZ")]
                    if len(br) != 1:
                        lprobs.append(f"{len(br)} backward branches are emitted for one loop")
                    else:
                        for v_ in (4, 5):
                            lu = me["ranges"][v_]["last_use"]
                            if not (lu.some and lu.v == br[0]):
                                lprobs.append(f"a value created inside the enclosing loop and used by this loop's body is live until {lu!r}, it must stay live to the back edge (instruction {br[0]})")
                                break
                        if oa != [0, 1, 3]:
                            lprobs.append(f"after the loop outer_accessed holds {oa}; values older than the enclosing loop ([0, 1], and [3] from before) must stay registered, "
                                          "the extended ones ([4, 5]) must be removed")
        res.check(not probs, rule, f"{BC}|emit_block|{tag}", where(BC, fn, "emit_block"), f"{tag}: " + "; ".join(probs[:2]))
        if not scan_form and not any(p_.startswith("cannot be analysed") for p_ in probs):
            res.check(not lprobs, live_rule, f"{BC}|emit_block|scenario|{tag}", where(BC, fn, "emit_block"), f"{tag}: " + "; ".join(lprobs[:2]))


def run_use_registers(res, ast, rule="LIVE-OUTER"):
    """every place that makes an instruction use an existing value must record the use the way `read` does: range extended to the current position,
    use counted, and - when the value is older than the current loop and is met for the first time inside it - registered in outer_accessed.
    get_value (operands of a new Add/Sub/Mul) and mem_write (the stored value) are evaluated with lib/receval.py on order classes."""
    import receval, itereval
    from receval import Rec, MapV
    from rusteval import Env as _Env, ReturnEx as _Ret, Unanalysable as _Un, Reached as _Re, NONE as _NONE
    G = lambda n, *f: itereval.Ctor("GvnExpr::" + n, list(f))
    CS, NOW = 10, 20
    mk = lambda c: Rec(created=c, first_use=_NONE, last_use=_NONE, num_uses=0)

    def fresh():
        return Rec(values=MapV({G("Mem", 1): 0, G("Mem", 2): 1}), exprs=[G("Mem", 1), G("Mem", 2)], outer_accessed=[], insts=[itereval.Ctor("Instr::Noop", [])] * NOW,
                   ranges=[mk(3), mk(15)], current_start=CS, writes=MapV())

    def run(fname, args):
        fn = ast.fn(BC, fname)["node"]
        me = fresh()
        it = receval.RecInterp(ast, BC, me)
        ps = [p_ for p_ in fn["sig"]["inputs"] if p_["t"] == "Arg"]
        if len(ps) != len(args) or any(p_["pat"]["t"] != "PIdent" for p_ in ps):
            raise _Un(f"{fname}: unexpected parameters")
        env = _Env()
        for p_, a_ in zip(ps, args):
            env.bind(p_["pat"]["name"], a_)
        try:
            v = it.exec_block(fn["body"], env)
        except _Ret as r_:
            v = r_.value
        return me, v

    def used(me, v, what, probs):
        r_ = me["ranges"][v]
        if not (r_["last_use"].some and r_["last_use"].v == NOW):
            probs.append(f"{what}: the live range of the used value ends at {r_['last_use']!r}, the instruction that uses it is number {NOW}")
        if r_["num_uses"] != 1:
            probs.append(f"{what}: the use is counted {r_['num_uses']} times")
        if r_["created"] < CS and v not in me["outer_accessed"]:
            probs.append(f"{what}: a value older than the current loop is used inside it without being registered in outer_accessed (nothing keeps it alive over the back edge)")
    def run_store():
        """emit_block on a block with one single-cell Calc whose right-hand side evaluates to the existing value 0; wherever the store is written
        (mem_write, or inlined into the arm)"""
        from receval import Variant
        from rusteval import Tup as _Tup, Res as _Res
        fn = ast.fn(BC, "emit_block")["node"]
        me = fresh()

        class ExprObj:
            pass

        class SI(receval.RecInterp):
            def method(self, recv, name, targs, args, node):
                if isinstance(recv, ExprObj) and name == "codegen":
                    return _Res(True, 0)
                return super().method(recv, name, targs, args, node)
        it = SI(ast, BC, me, scripted={"get_expr_value": lambda it_, e_, v_=None: 0})
        ps = [p_["pat"]["name"] for p_ in fn["sig"]["inputs"] if p_["t"] == "Arg" and p_["pat"]["t"] == "PIdent"]
        if len(ps) != 3:
            raise _Un("emit_block: unexpected parameters")
        env = _Env()
        calc = Variant("ir::Instr::Calc", {"calcs": [_Tup([7, ExprObj()])]})
        for n_, v_ in zip(ps, [Rec(insts=[calc], shift=0), Rec(has_shift=False, writes=[7], sub_anal=[], min_accessed=0, max_accessed=9), True]):
            env.bind(n_, v_)
        try:
            it.exec_block(fn["body"], env)
        except _Ret:
            pass
        return me, None

    for fname, mkargs, who, what in (("get_value", lambda: [G("Add", 0, 1)], (0, 1), "operands of a new Add"), ("get_value", lambda: [G("Mul", 1, 0)], (0, 1), "operands of a new Mul"),
                                     ("emit_block", None, (0,), "the value stored to a cell")):
        probs = []
        try:
            me, v = run(fname, mkargs()) if mkargs else run_store()
            for x in who:
                used(me, x, what, probs)
            if fname == "get_value":
                if v != 2 or len(me["ranges"]) != 3 or me["ranges"][2]["created"] != NOW:
                    probs.append(f"a new expression gets value number {v!r} with {len(me['ranges'])} range records (expected number 2, created at {NOW})")
                if len(me["insts"]) != NOW + 1:
                    probs.append("no instruction is emitted for a new expression")
                e_ = mkargs()[0]
                if me["values"].get(e_) != 2:
                    probs.append("the new expression is not entered into the value table")
            else:
                if me["values"].get(G("Mem", 7)) != 0:
                    probs.append("the store does not bind the cell to the stored value")
        except Missing as m_:
            probs.append(f"anchor missing (fail closed): {m_}")
        except (_Un, _Re, KeyError, TypeError, IndexError, AttributeError) as u_:
            probs.append(f"cannot be analysed (fail closed): {u_}")
        res.evaluations += 1
        try:
            w_ = where(BC, ast.fn(BC, fname)["node"], fname)
        except Missing:
            w_ = BC
        res.check(not probs, rule, f"{BC}|{fname}|use|{what}", w_, f"{fname}: " + "; ".join(sorted(set(probs))[:2]))


def run_analysis_eval(res, ast, rule="GVN-INVALIDATE", wrule="WINDOW-BY-CONSTRUCTION"):
    """Analysis::analyze evaluated (lib/receval.py) on blocks that contain one instruction of every kind: the facts the code generator relies on -
    which cells a block may overwrite, whether it moves the pointer (also through a nested block), one sub-analysis per nested block in order,
    and a window that contains every cell named.  Supersets are accepted (they only cost precision)."""
    import receval
    from receval import Rec, Variant, MapV
    from rusteval import Env as _Env, ReturnEx as _Ret, Unanalysable as _Un, Reached as _Re, Tup as _Tup
    try:
        fn = ast.fn(BC, "analyze")["node"]
    except Missing as m:
        res.missing(rule, m)
        return

    class Ex:
        def __init__(self, vs):
            self.vs = vs

    class AI(receval.RecInterp):
        def method(self, recv, name, targs, args, node):
            if isinstance(recv, Ex) and name == "variables":
                return list(recv.vs)
            return super().method(recv, name, targs, args, node)
    ps = [p_["pat"]["name"] for p_ in fn["sig"]["inputs"] if p_["t"] == "Arg" and p_["pat"]["t"] == "PIdent"]

    def run(blk):
        it = AI(ast, BC, Rec())
        env = _Env()
        if len(ps) != 1:
            raise _Un("analyze(block): unexpected parameters")
        env.bind(ps[0], blk)
        try:
            return it.exec_block(fn["body"], env)
        except _Ret as r_:
            return r_.value
    V = lambda n, **f: Variant("ir::Instr::" + n, f)
    keys = lambda m: set(m.keys()) if isinstance(m, MapV) else set(m) if isinstance(m, list) else None
    w = where(BC, fn, "Analysis::analyze")
    scen = []
    inner1 = Rec(insts=[V("Input", dst=12)], shift=0)
    inner2 = Rec(insts=[V("Calc", calcs=[_Tup([20, Ex([])])])], shift=0)
    scen.append(("one instruction of every kind", Rec(insts=[V("Input", dst=5), V("Output", src=-3), V("Calc", calcs=[_Tup([7, Ex([2, 9])])]),
                                                             V("Loop", cond=4, block=inner1, once=False), V("If", cond=15, block=inner2)], shift=0),
                 dict(writes={5, 7, 12, 20}, cells={5, -3, 7, 2, 9, 4, 12, 15, 20, 0}, shift=False, subs=[{12}, {20}])))
    scen.append(("a nested loop that moves the pointer", Rec(insts=[V("Loop", cond=1, block=Rec(insts=[V("Output", src=2)], shift=3), once=False)], shift=0),
                 dict(writes=set(), cells={0, 1}, shift=True, subs=[None], sub_shift=[True])))
    scen.append(("a nested If that moves the pointer", Rec(insts=[V("Input", dst=6), V("If", cond=1, block=Rec(insts=[], shift=-1))], shift=0),
                 dict(writes=set(), cells={0, 1, 6}, shift=True, subs=[None], sub_shift=[True])))
    scen.append(("a write after a nested block that moves the pointer", Rec(insts=[V("If", cond=1, block=Rec(insts=[], shift=-1)), V("Input", dst=30), V("Calc", calcs=[_Tup([-8, Ex([40])])])], shift=0),
                 dict(writes=set(), cells={0, 1, 30, -8, 40}, shift=True, subs=[None], sub_shift=[True])))
    scen.append(("a block with a static shift", Rec(insts=[V("Input", dst=6)], shift=2), dict(writes=set(), cells={0, 6}, shift=True, subs=[])))
    scen.append(("a loop known to run once", Rec(insts=[V("Loop", cond=3, block=Rec(insts=[V("Input", dst=8)], shift=0), once=True)], shift=0),
                 dict(writes={8}, cells={0, 3, 8}, shift=False, subs=[{8}])))
    for tag, blk, want in scen:
        probs, wprobs = [], []
        try:
            a = run(blk)
            if not isinstance(a, Rec) or any(k not in a for k in ("has_shift", "writes", "sub_anal", "min_accessed", "max_accessed")):
                raise _Un(f"analyze returns {a!r}")
            if a["has_shift"] is not want["shift"]:
                probs.append(f"has_shift is {a['has_shift']}, " + ("the block moves the pointer" if want["shift"] else "nothing moves the pointer"))
            wr = keys(a["writes"])
            if not want["shift"] and not want["writes"] <= wr:
                probs.append(f"cells {sorted(want['writes'] - wr)} may be overwritten by the block but are not in `writes`: their value numbers survive the block")
            if len(a["sub_anal"]) != len(want["subs"]):
                probs.append(f"{len(a['sub_anal'])} sub-analyses for {len(want['subs'])} nested blocks (emit_block indexes them by position)")
            else:
                for i_, (sa, ws) in enumerate(zip(a["sub_anal"], want["subs"])):
                    if ws is not None and not ws <= keys(sa["writes"]):
                        probs.append(f"sub-analysis {i_} lacks the written cells {sorted(ws - keys(sa['writes']))} (wrong order or wrong block)")
                    if want.get("sub_shift") and sa["has_shift"] is not want["sub_shift"][i_]:
                        probs.append(f"sub-analysis {i_}: has_shift is {sa['has_shift']}")
            lo, hi = a["min_accessed"], a["max_accessed"]
            out = sorted(c_ for c_ in want["cells"] if not lo <= c_ <= hi)
            if out:
                wprobs.append(f"cells {out} are named by the block but lie outside the window [{lo}, {hi}]")
        except (_Un, _Re, KeyError, TypeError, IndexError, AttributeError) as u_:
            probs.append(f"cannot be analysed (fail closed): {u_}")
        res.evaluations += 1
        res.check(not probs, rule, f"{BC}|analyze|eval|{tag}", w, f"Analysis::analyze on {tag}: " + "; ".join(probs[:2]))
        if not any(p_.startswith("cannot") for p_ in probs):
            res.check(not wprobs, wrule, f"{BC}|analyze|eval|{tag}", w, f"Analysis::analyze on {tag}: " + "; ".join(wprobs[:2]))
