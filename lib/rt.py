"""Runtime rules: the tape (src/runtime.rs) and raw allocation sites.

ALLOC-NULL    every raw allocation result is null-tested by the very next statement, the null branch
              diverges, nothing touches the pointer or the tape fields before the test (C17).
BOUNDS-GUARD  every raw dereference of the tape buffer is guarded by the strict unsigned test
              `index < size` of the same index, or follows make_accessible of that offset (C09, C06).
READ-NOALLOC  read/check/check_ptr/current_ptr/mov/set_current_ptr reach no allocating or growing call (C09).
TAPE-PAIR     make_accessible copies before it frees, frees with the old size, assigns all three
              fields after the copy using the same `added_below`; Drop frees iff size != 0; the three
              fields have no other writer (C09, C06).
"""
from common import *
from iolim import parents

RUNTIME = "src/runtime.rs"
ALLOC_FNS = ("alloc", "alloc_zeroed", "realloc")
DIVERGING = ("handle_alloc_error", "abort", "process::abort", "std::process::abort", "alloc::handle_alloc_error", "std::alloc::handle_alloc_error")


def T(ast, path, n, limit=600):
    return ast.src1(path, n, limit).replace(" ", "")


def strip_unsafe_cast(e):
    """Peel `unsafe { X }`, `X as T`, parentheses."""
    while True:
        e = strip_paren(e)
        if e["t"] == "Unsafe" and len(e["block"]["stmts"]) == 1 and e["block"]["stmts"][0]["t"] == "ExprStmt" and not e["block"]["stmts"][0]["semi"]:
            e = e["block"]["stmts"][0]["expr"]
        elif e["t"] == "Cast":
            e = e["expr"]
        else:
            return e


def run_alloc_null(res, ast):
    res.rule("ALLOC-NULL", "for every raw allocation call (alloc, alloc_zeroed, realloc): (1) the result is bound by a `let` "
             "and null-tested, (2) the null branch ends in a diverging call (handle_alloc_error/abort/panic), (3) the test is "
             "the statement immediately after the `let`, so it dominates every use of the pointer, (4) no store to the tape "
             "fields and no dealloc happens between allocation and test", floor=8, what="obligations (4 per site)")
    nsites = 0
    for path in sorted(ast.files):
        if not path.startswith("src/") or path.startswith("src/bin/fuzz"):
            continue
        for f in ast.find_fns(path):
            if is_test_item(f) or not f["node"].get("body"):
                continue
            body = f["node"]["body"]
            calls = [c for c in walk_t(body, "Call") if path_name(c["func"]) and path_name(c["func"]).split("::")[-1] in ALLOC_FNS
                     and (len(path_name(c["func"]).split("::")) == 1 or path_name(c["func"]).split("::")[-2] in ("alloc",))]
            if not calls:
                continue
            res.files.add(path)
            par = parents(f["node"])
            for c in calls:
                nsites += 1
                fnname = path_name(c["func"]).split("::")[-1]
                key = f"{path}|{f['name']}|{fnname}"
                w = where(path, c, f["name"])
                # (1) find the enclosing `let X = ..` whose init is the (unsafe/cast-wrapped) call
                cur = c
                let = None
                while id(cur) in par:
                    pn, k = par[id(cur)]
                    if pn["t"] == "Local":
                        let = pn
                        break
                    if pn["t"] not in ("Cast", "Paren", "Unsafe", "Block", "ExprStmt"):
                        break
                    cur = pn
                ok1 = let is not None and let["pat"]["t"] in ("PIdent", "PType") and strip_unsafe_cast(let["init"]) is c
                var = None
                if ok1:
                    p = let["pat"]
                    while p["t"] == "PType":
                        p = p["pat"]
                    var = p.get("name")
                res.check(ok1, "ALLOC-NULL", key + "|1-bound", w,
                          f"{f['name']}: the result of {fnname} is not bound directly by a `let` (it is used or stored before any null test)")
                if not ok1:
                    for i in (2, 3, 4):
                        res.bad("ALLOC-NULL", key + f"|{i}", w, f"{f['name']}: obligation {i} cannot be established because the result is not let-bound")
                    continue
                # the statement list that contains the let
                blk, _ = par[id(let)]
                stmts = blk["stmts"]
                idx = next(i for i, s in enumerate(stmts) if s is let)
                nxt = stmts[idx + 1] if idx + 1 < len(stmts) else None
                e = nxt["expr"] if nxt is not None and nxt["t"] == "ExprStmt" else None
                is_test = False
                null_block = None
                import pm
                if e is not None and e["t"] == "If":
                    e = pm.canon(e)          # `if !p.is_null() {..} else {D}` -> `if p.is_null() {D} else {..}`
                    c_ = strip_paren(e["cond"])
                    if c_["t"] != "Let":
                        ct = T(ast, path, e["cond"])
                        is_test = ct in (f"{var}.is_null()", f"{var}==ptr::null_mut()", f"{var}==std::ptr::null_mut()", f"{var}asusize==0")
                        null_block = e["then"]
                    elif c_["pat"]["t"] == "PTupleStruct" and c_["pat"]["path"]["name"] == "Some" and e.get("else") is not None and e["else"].get("t") == "BlockExpr" and \
                            any(pm.match_expr(strip_paren(c_["expr"]), pt) is not None for pt in (f"{var}.as_mut()", f"{var}.as_ref()", f"NonNull::new({var})", f"ptr::NonNull::new({var})")):
                        # `if let Some(r) = p.as_mut() { .. } else { D }`: the None arm is the null branch
                        is_test = True
                        null_block = e["else"]["block"]
                elif nxt is not None and nxt["t"] == "Local" and nxt.get("else") is not None and nxt.get("init") is not None and nxt["pat"]["t"] == "PTupleStruct" \
                        and nxt["pat"]["path"]["name"] == "Some" and any(pm.match_expr(strip_paren(nxt["init"]), pt) is not None
                                                                           for pt in (f"{var}.as_mut()", f"{var}.as_ref()", f"NonNull::new({var})", f"ptr::NonNull::new({var})")):
                    is_test = True
                    eb_ = nxt["else"]
                    null_block = eb_["block"] if eb_.get("t") == "BlockExpr" else eb_
                res.check(is_test, "ALLOC-NULL", key + "|3-dominates", w,
                          f"{f['name']}: the statement after `let {var} = {fnname}(..)` is not `if {var}.is_null() {{ .. }}`: the pointer can be used before the test"
                          + (f" (found `{ast.src1(path, nxt, 80)}`)" if nxt is not None else ""))
                # (2) diverging null branch
                div = False
                if is_test:
                    ts = (null_block or {}).get("stmts") or []
                    if ts:
                        last = ts[-1]
                        le = last.get("expr") if last["t"] == "ExprStmt" else None
                        if le is not None and le["t"] == "Call" and path_name(le["func"]) in DIVERGING:
                            div = True
                        if last["t"] in ("MacroStmt",) and last["mac"]["name"] in ("panic", "unreachable"):
                            div = True
                        if le is not None and le["t"] == "MacroExpr" and le["mac"]["name"] in ("panic", "unreachable"):
                            div = True
                        # nothing but the diverging call may happen on the null branch
                        if len(ts) != 1:
                            div = False
                res.check(div, "ALLOC-NULL", key + "|2-diverges", w,
                          f"{f['name']}: the null branch must consist of a single diverging call (handle_alloc_error / abort / panic!); "
                          "a retry, a debug_assert or a fall-through continues with a null or stale tape")
                # (4) the let's own initialiser contains nothing but the call and casts (no store, no dealloc)
                extra = [x for x in walk_t(let["init"], "Call", "MethodCall", "Assign") if x is not c]
                res.check(not extra, "ALLOC-NULL", key + "|4-nothing-between", w,
                          f"{f['name']}: other effects happen inside the allocation expression before the null test")
                res.sample({"rule": "ALLOC-NULL", "site": w, "pointer": var, "test": ast.src1(path, nxt, 100) if nxt else None})
    # no other raw allocation API slips by
    other = []
    for path in sorted(ast.files):
        if not path.startswith("src/") or path.startswith("src/bin/fuzz"):
            continue
        for f in ast.find_fns(path):
            if is_test_item(f) or not f["node"].get("body"):
                continue
            for c in walk_t(f["node"]["body"], "Call"):
                n = path_name(c["func"]) or ""
                if n.split("::")[-1] in ("malloc", "calloc", "allocate", "allocate_zeroed", "grow", "grow_zeroed", "alloc_layout"):
                    other.append(where(path, c, f["name"]))
    res.check(not other, "ALLOC-NULL", "other-alloc-apis", "-", f"raw allocation APIs not covered by the rule are used at {other}")
    # supporting: mmap result asserted
    for f in ast.find_fns("src/exec/basejit/mod.rs", "enter_jit_code"):
        mm = [c for c in walk_t(f["node"]["body"], "Call") if path_name(c["func"]) == "libc::mmap"]
        t = T(ast, "src/exec/basejit/mod.rs", f["node"]["body"], 3000)
        ok = len(mm) == 1 and "assert!(code_memasisize!=-1" in t and t.index("assert!(code_memasisize!=-1") < t.index("ptr::copy_nonoverlapping")
        res.check(ok, "ALLOC-NULL", "src/exec/basejit/mod.rs|enter_jit_code|mmap", where("src/exec/basejit/mod.rs", f["node"], "enter_jit_code"),
                  "the mmap result must be asserted != MAP_FAILED before the code is copied into it")
    return nsites


def run_alloc_layout(res, ast):
    """ALLOC-LAYOUT: the byte size of a tape allocation is computed by an overflow-checked constructor from the element count
    that becomes self.size - so an absurdly large request panics (clean) instead of wrapping into a small buffer that the
    size field then misdescribes."""
    import pm
    res.rule("ALLOC-LAYOUT", "every allocation of the tape passes a layout built by Layout::array::<C>(count) (overflow-checked, unwrapped), the count is the value "
             "stored into self.size, and every dealloc of the tape uses Layout::array::<C>(self.size): a request whose byte size overflows panics instead "
             "of allocating a wrapped (too small) block", floor=3, what="layout sites")
    fns = {f["name"]: f["node"] for f in ast.find_fns(RUNTIME) if "Memory" in f["container"] and "mod tests" not in f["container"] and f["node"].get("body")}
    nsite = 0
    for name, fn in fns.items():
        body = fn["body"]
        lets = {}
        for l in walk_t(body, "Local"):
            if l["pat"]["t"] == "PIdent" and l.get("init") is not None:
                lets[l["pat"]["name"]] = l["init"]

        def resolve(e, depth=0):
            e = strip_paren(e)
            n = path_name(e)
            if n in lets and depth < 4:
                return resolve(lets[n], depth + 1)
            return e

        def checked_array(e):
            """-> the count expression if e is Layout::array::<C>(count).unwrap()/expect(..), else None"""
            b_ = pm.match_expr(e, "Layout::array::<C>(__e_n).unwrap()") or pm.match_expr(e, "Layout::array::<C>(__e_n).expect(__e_m)") \
                or pm.match_expr(e, "std::alloc::Layout::array::<C>(__e_n).unwrap()") or pm.match_expr(e, "alloc::Layout::array::<C>(__e_n).unwrap()")
            return b_["__e_n"] if b_ else None
        size_assigned = [a["right"] for a in walk_t(body, "Assign") if pm.match_expr(strip_paren(a["left"]), "self.size") is not None]
        for c in walk_t(body, "Call"):
            cn = (path_name(strip_paren(c["func"])) or "").split("::")[-1]
            if cn in ("alloc", "alloc_zeroed") and len(c["args"]) == 1:
                nsite += 1
                lay = resolve(c["args"][0])
                cnt = checked_array(lay)
                key = f"{RUNTIME}|Memory::{name}|{cn}"
                w = where(RUNTIME, c, f"Memory::{name}")
                if cnt is None:
                    res.bad("ALLOC-LAYOUT", key, w, f"the layout of the new tape block is `{ast.src1(RUNTIME, lay)}`: it must be Layout::array::<C>(count).unwrap() "
                            "(an unchecked `count * size_of` wraps for huge requests and allocates too little)")
                    continue
                same = size_assigned and all(pm._eq(strip_paren(x), strip_paren(cnt)) or (path_name(strip_paren(x)) is not None and path_name(strip_paren(x)) == path_name(strip_paren(cnt)))
                                             for x in size_assigned)
                res.check(bool(same), "ALLOC-LAYOUT", key, w, f"the block is allocated for `{ast.src1(RUNTIME, cnt)}` cells but self.size is set to "
                          f"`{ast.src1(RUNTIME, size_assigned[0]) if size_assigned else '(nothing)'}`")
            if cn in ("realloc",):
                nsite += 1
                res.bad("ALLOC-LAYOUT", f"{RUNTIME}|Memory::{name}|realloc", where(RUNTIME, c, f"Memory::{name}"), "realloc of the tape is not analysed (its new size is a raw byte count)")
            if cn == "dealloc" and len(c["args"]) == 2:
                nsite += 1
                lay = resolve(c["args"][1])
                cnt = checked_array(lay)
                okd = cnt is not None and pm.match_expr(strip_paren(cnt), "self.size") is not None
                res.check(okd, "ALLOC-LAYOUT", f"{RUNTIME}|Memory::{name}|dealloc", where(RUNTIME, c, f"Memory::{name}"),
                          f"the tape is freed with layout `{ast.src1(RUNTIME, lay)}`, it must be Layout::array::<C>(self.size).unwrap() (the layout it was allocated with)")
    if nsite == 0:
        res.bad("ALLOC-LAYOUT", f"{RUNTIME}|none", RUNTIME, "no allocation of the tape found")


# --------------------------------------------------------------------------- bounds facts (flow analysis)

class BoundsFlow:
    """Forward flow analysis of one Memory method: which facts about the tape hold where a raw access
    `*self.buffer.add(X)` is made.  Tracked: immutable `let` definitions with pure initialisers (resolved into the
    expressions that use them), the facts established by enclosing conditions (`a < b` in the then-branch, its
    negation in the else-branch and after a diverging then-branch), and `accessible(o)` established by a call
    `self.make_accessible(o, o + 1)`.  A statement that may change the tape (`&mut self` call, assignment to a
    field of self) kills every fact and every definition that reads self."""

    MUT_OK = ("make_accessible",)

    def __init__(self, ast, fn, mut_methods):
        import pm
        self.pm = pm
        self.ast, self.fn = ast, fn
        self.mut_methods = mut_methods
        self.params = [p_["pat"]["name"] for p_ in fn["sig"]["inputs"] if p_["t"] == "Arg" and p_["pat"]["t"] == "PIdent"]
        self.sites = []      # (node, ok, why)

    # -- expressions
    def resolve(self, e, defs):
        e = strip_paren(e)
        if not isinstance(e, dict):
            return e
        n = self.pm._ident(e)
        if n is not None and n in defs:
            return defs[n]
        out = {}
        for k, v in e.items():
            if k in ("sp",):
                out[k] = v
            elif isinstance(v, dict):
                out[k] = self.resolve(v, defs) if "t" in v else v
            elif isinstance(v, list):
                out[k] = [self.resolve(x, defs) if isinstance(x, dict) and "t" in x else x for x in v]
            else:
                out[k] = v
        return out

    def same(self, a, b):
        return self.pm._eq(a, b)

    def reads_self(self, e):
        return any(n.get("t") == "PathExpr" and n["path"]["name"] == "self" for n in walk(e))

    def atom(self, c, defs):
        """condition -> list of (positive?, lhs, rhs) facts `lhs < rhs` it is equivalent to, or None"""
        c = strip_paren(c)
        if c["t"] == "Unary" and c["op"] == "!":
            a = self.atom(c["expr"], defs)
            if a and len(a) == 1:
                return [(not a[0][0], a[0][1], a[0][2])]
            return None
        if c["t"] == "Binary" and c["op"] in ("<", ">", "<=", ">="):
            l, r = self.resolve(c["left"], defs), self.resolve(c["right"], defs)
            return {"<": [(True, l, r)], ">": [(True, r, l)], ">=": [(False, l, r)], "<=": [(False, r, l)]}[c["op"]]
        return None

    def cond_facts(self, c, defs, truth):
        """facts known when condition c evaluates to `truth`"""
        c = strip_paren(c)
        if c["t"] == "Binary" and c["op"] == "&&":
            if truth:
                return self.cond_facts(c["left"], defs, True) + self.cond_facts(c["right"], defs, True)
            return []
        if c["t"] == "Binary" and c["op"] == "||":
            if not truth:
                return self.cond_facts(c["left"], defs, False) + self.cond_facts(c["right"], defs, False)
            return []
        a = self.atom(c, defs)
        if a is None:
            return []
        return [(pos == truth, l, r) for pos, l, r in a]

    # -- statements
    def diverges(self, blk):
        st = blk["stmts"]
        if not st:
            return False
        e = st[-1].get("expr") if st[-1]["t"] == "ExprStmt" else None
        return isinstance(e, dict) and e.get("t") in ("Return", "Break", "Continue") or \
            (isinstance(e, dict) and e.get("t") == "MacroExpr" and e["mac"]["name"] in ("panic", "unreachable"))

    def kill(self, defs, facts):
        for k in [k for k, v in defs.items() if self.reads_self(v)]:
            del defs[k]
        facts[:] = [f for f in facts if f[0] == "acc-keep"]

    def effects(self, e, defs, facts):
        """apply the effects of evaluating expression e (calls that change the tape, accesses)"""
        # accesses first (they are evaluated in the state before any mutation in the same statement only when no
        # mutation occurs in that statement; a statement with both is rejected)
        muts = []
        for n in walk(e):
            if n.get("t") == "MethodCall" and self.pm._ident(strip_paren(n["receiver"])) == "self" and n["method"] in self.mut_methods:
                muts.append(n)
            if n.get("t") == "Assign" and self.reads_self(n["left"]) and strip_paren(n["left"])["t"] != "Unary":
                muts.append(n)
            if n.get("t") == "Call" and any(self.pm._ident(strip_paren(a)) == "self" for a in n["args"]):
                muts.append(n)
        derefs = [u for u in walk_t(e, "Unary") if u["op"] == "*" and self.is_raw(u["expr"])]
        if muts and derefs:
            for d in derefs:
                self.sites.append((d, False, "the access shares a statement with a change of the tape"))
            self.kill(defs, facts)
            return
        for d in derefs:
            self.judge(d, defs, facts)
        for m in muts:
            self.kill(defs, facts)
            if m.get("t") == "MethodCall" and m["method"] == "make_accessible" and len(m["args"]) == 2:
                o = self.resolve(m["args"][0], defs)
                e1 = self.resolve(m["args"][1], defs)
                one = {"t": "Binary", "op": "+", "left": o, "right": {"t": "Lit", "kind": "int", "digits": "1", "suffix": "", "sp": [0, 0, 0, 0]}, "sp": [0, 0, 0, 0]}
                if self.same(e1, one) and not self.reads_self(o):
                    facts.append(("acc", o))

    def is_raw(self, e):
        e = strip_paren(e)
        return e["t"] == "MethodCall" and e["method"] in ("add", "offset", "wrapping_add", "wrapping_offset", "sub") and \
            strip_paren(e["receiver"])["t"] == "Field" and strip_paren(e["receiver"])["member"] == "buffer"

    def judge(self, d, defs, facts):
        e = strip_paren(d["expr"])
        if e["method"] != "add" or len(e["args"]) != 1:
            self.sites.append((d, False, f"raw access through .{e['method']}(): only `self.buffer.add(i)` is analysed"))
            return
        x = self.resolve(e["args"][0], defs)
        # index must be offset (+) parameter, computed with wrapping_add_signed from the current self.offset
        b = self.pm.match_expr(x, "self.offset.wrapping_add_signed(__v_o)")
        if not b or b["__v_o"] not in self.params:
            self.sites.append((d, False, "the index is not `self.offset.wrapping_add_signed(<offset parameter>)` computed from the current offset"))
            return
        size = self.pm._parse("expr", "self.size")
        for f in facts:
            if f[0] is True and self.same(f[1], x) and self.same(f[2], size):
                self.sites.append((d, True, "inside the strict unsigned test against self.size"))
                return
            if f[0] == "acc" and self.pm._ident(f[1]) == b["__v_o"]:
                self.sites.append((d, True, "after make_accessible(o, o + 1), index recomputed from the same o"))
                return
        self.sites.append((d, False, "no dominating `index < self.size` test (strict, same index) and no preceding make_accessible(o, o + 1)"))

    def block(self, blk, defs, facts):
        defs = dict(defs)
        facts = list(facts)
        for st in blk["stmts"]:
            self.stmt(st, defs, facts)
        return defs, facts

    def stmt(self, st, defs, facts):
        t = st["t"]
        if t == "Local":
            if st.get("init") is not None:
                self.expr(st["init"], defs, facts)
            if st["pat"]["t"] == "PIdent":
                nm = st["pat"]["name"]
                defs.pop(nm, None)
                if not st["pat"]["mut"] and not st["pat"]["by_ref"] and st.get("init") is not None and self.pm._pure(st["init"]):
                    defs[nm] = self.resolve(st["init"], defs)
            else:
                for n in walk(st["pat"]):
                    if n.get("t") == "PIdent":
                        defs.pop(n["name"], None)
            return
        if t == "ExprStmt":
            self.expr(st["expr"], defs, facts)
            return
        if t in ("Item", "ItemStmt", "Macro", "MacroStmt"):
            return
        self.expr(st, defs, facts)

    def expr(self, e, defs, facts):
        e = strip_paren(e)
        t = e.get("t")
        if t == "If":
            c = e["cond"]
            if strip_paren(c)["t"] == "Let":
                self.effects(strip_paren(c)["expr"], defs, facts)
                tf, ff = [], []
            else:
                self.effects(c, defs, facts)
                tf, ff = self.cond_facts(c, defs, True), self.cond_facts(c, defs, False)
            d1, f1 = self.block(e["then"], defs, facts + tf)
            els = e.get("else")
            if els is not None:
                eb = els["block"] if els.get("t") == "BlockExpr" else {"t": "Block", "stmts": [{"t": "ExprStmt", "expr": els, "semi": False, "sp": els["sp"]}], "sp": els["sp"]}
                d2, f2 = self.block(eb, defs, facts + ff)
                ediv = self.diverges(eb)
            else:
                d2, f2, ediv = defs, facts + ff, False
            tdiv = self.diverges(e["then"])
            # join: keep what survives both non-diverging branches
            outs = [(d, f) for (d, f, dv) in ((d1, f1, tdiv), (d2, f2, ediv)) if not dv]
            if len(outs) == 1:
                nd, nf = outs[0]
                # scoped definitions of the branch do not escape; facts about outer definitions do
                nd = {k: v for k, v in nd.items() if k in defs and v is defs[k]}
            elif len(outs) == 2:
                nd = {k: v for k, v in defs.items() if k in outs[0][0] and k in outs[1][0] and outs[0][0][k] is v and outs[1][0][k] is v}
                nf = [f for f in outs[0][1] if any(f is g for g in outs[1][1])]
            else:
                nd, nf = {}, []
            defs.clear(); defs.update(nd)
            facts[:] = nf
            return
        if t == "BlockExpr" or t == "Unsafe":
            nd, nf = self.block(e["block"], defs, facts)
            keepd = {k: v for k, v in nd.items() if k in defs and v is defs[k]}
            defs.clear(); defs.update(keepd)
            facts[:] = nf
            return
        if t in ("While", "ForLoop", "Loop", "Match", "Closure"):
            # not needed by the tape accessors; anything inside is judged with no facts
            for d in [u for u in walk_t(e, "Unary") if u["op"] == "*" and self.is_raw(u["expr"])]:
                self.sites.append((d, False, f"raw access inside a {t} is not analysed"))
            self.kill(defs, facts)
            return
        if t == "Return" and e.get("expr") is not None:
            self.expr(e["expr"], defs, facts)
            return
        # does the expression contain nested control flow with accesses? (e.g. `let v = if .. {..}`)
        for k in ("If", "BlockExpr", "Unsafe"):
            inner = [n for n in walk(e) if n is not e and n.get("t") == k]
            if inner:
                # evaluate the outermost nested construct structurally, the rest as plain effects
                self.expr(inner[0], defs, facts)
                return
        self.effects(e, defs, facts)


def run_tape_rules(res, ast, rules=("BOUNDS-GUARD", "READ-NOALLOC", "TAPE-PAIR")):
    res.files.add(RUNTIME)
    try:
        fns = {f["name"]: f["node"] for f in ast.find_fns(RUNTIME) if "Memory" in f["container"] and "mod tests" not in f["container"]}
        for n in ("read", "write", "check", "check_ptr", "make_accessible", "mov", "set_current_ptr", "current_ptr", "new", "drop"):
            if n not in fns:
                raise Missing(f"Memory::{n}")
    except Missing as m:
        for r in rules:
            res.rule(r, "(anchor missing)")
            res.missing(r, m)
        return
    if "BOUNDS-GUARD" in rules:
        res.rule("BOUNDS-GUARD", "every `*self.buffer.add(i)` is inside `if i < self.size` (strict, unsigned, same i computed with "
                 "wrapping_add_signed) or follows make_accessible(o, o + 1) with i recomputed from the same o; check/check_ptr use "
                 "the same strict comparison (check_ptr on the element index, i.e. after dividing by the cell size)", floor=5, what="accesses and tests")
        import pm
        mut_methods = {n for n, f_ in fns.items() if any(p_["t"] == "Receiver" and p_["mut"] for p_ in f_["sig"]["inputs"])}
        access_fns = []
        for name, fn in fns.items():
            if not fn.get("body"):
                continue
            raw = [u for u in walk_t(fn["body"], "Unary") if u["op"] == "*" and ("self.buffer" in T(ast, RUNTIME, u["expr"]) or strip_paren(u["expr"])["t"] in ("MethodCall", "Call", "Cast"))]
            raw += [m for m in walk_t(fn["body"], "MethodCall") if m["method"] in ("read", "write", "read_volatile", "write_volatile", "read_unaligned", "write_unaligned", "replace", "swap")
                    and "self.buffer" in T(ast, RUNTIME, m["receiver"])]
            if not raw:
                continue
            access_fns.append(name)
            w = where(RUNTIME, fn, f"Memory::{name}")
            bf = BoundsFlow(ast, fn, mut_methods)
            try:
                bf.block(fn["body"], {}, [])
                judged = {id(d) for d, _, _ in bf.sites}
                why = [y for d, okd_, y in bf.sites if not okd_]
                why += ["a raw access of the buffer is not of the analysed form `*self.buffer.add(i)`" for r_ in raw if id(r_) not in judged]
                okall = bool(bf.sites) and not why
            except (KeyError, TypeError, IndexError) as ex:
                okall, why = False, [f"could not be analysed (fail closed): {type(ex).__name__} {ex}"]
            res.check(okall, "BOUNDS-GUARD", f"{RUNTIME}|Memory::{name}|deref", w, f"Memory::{name}: " + "; ".join(sorted(set(why)) or ["no raw access found"]))
        for name in ("read", "write"):
            res.check(name in access_fns or any(True for m in walk_t(fns[name]["body"], "MethodCall") if m["method"] in access_fns), "BOUNDS-GUARD",
                      f"{RUNTIME}|Memory::{name}|present", where(RUNTIME, fns[name], f"Memory::{name}"), f"Memory::{name} no longer accesses the tape")
        okc = pm.match_stmts(fns["check"]["body"]["stmts"], "self.offset.wrapping_add_signed(__v_o) < self.size") is not None
        res.check(okc, "BOUNDS-GUARD", f"{RUNTIME}|Memory::check", where(RUNTIME, fns["check"], "check"),
                  f"check must be `self.offset.wrapping_add_signed(offset) < self.size` (strict); found `{T(ast, RUNTIME, fns['check']['body'])}`")
        okp = pm.match_stmts(fns["check_ptr"]["body"]["stmts"], "((__v_p as usize).wrapping_sub(self.buffer as usize) / mem::size_of::<C>()) < self.size") is not None
        res.check(okp, "BOUNDS-GUARD", f"{RUNTIME}|Memory::check_ptr", where(RUNTIME, fns["check_ptr"], "check_ptr"),
                  f"check_ptr must compare the element index ((ptr - buffer) / size_of::<C>()) strictly with size; found `{T(ast, RUNTIME, fns['check_ptr']['body'])}`")
    if "READ-NOALLOC" in rules:
        res.rule("READ-NOALLOC", "Memory::read/check/check_ptr/current_ptr/mov/set_current_ptr call nothing that allocates or grows "
                 "(no make_accessible, write, alloc*, Vec/Box), and read takes &self", floor=6, what="functions")
        std_alloc = ("alloc", "alloc_zeroed", "realloc", "push", "reserve", "with_capacity", "to_vec", "collect", "clone")

        def callees(fn_):
            return [m["method"] for m in walk_t(fn_.get("body") or {}, "MethodCall")] + \
                [(path_name(c["func"]) or "?").split("::")[-1] for c in walk_t(fn_.get("body") or {}, "Call")]
        growing = {n_ for n_, f_ in fns.items() if any(c in std_alloc for c in callees(f_))}
        changed = True
        while changed:
            changed = False
            for n_, f_ in fns.items():
                if n_ not in growing and any(c in growing for c in callees(f_)):
                    growing.add(n_)
                    changed = True
        res.check("make_accessible" in growing and "write" in growing and "read" not in growing, "READ-NOALLOC", f"{RUNTIME}|growing-set", RUNTIME,
                  f"the methods that can allocate are {sorted(growing)}; expected make_accessible and write (through the slow path) and never read")
        banned = tuple(growing) + std_alloc
        for name in ("read", "check", "check_ptr", "current_ptr", "mov", "set_current_ptr"):
            fn = fns[name]
            called = [m["method"] for m in walk_t(fn["body"], "MethodCall")] + [(path_name(c["func"]) or "?").split("::")[-1] for c in walk_t(fn["body"], "Call")]
            macs = [m["name"] for m in walk_t(fn["body"], "Macro")]
            bad = [c for c in called if c in banned] + [m for m in macs if m in ("vec", "format")]
            okr = not bad
            if name == "read":
                recv = [p for p in fn["sig"]["inputs"] if p["t"] == "Receiver"]
                okr = okr and recv and recv[0]["ref"] and not recv[0]["mut"]
            res.check(okr, "READ-NOALLOC", f"{RUNTIME}|Memory::{name}", where(RUNTIME, fn, f"Memory::{name}"),
                      f"Memory::{name} calls {bad or called} / takes a mutable receiver: reads and queries must not allocate")
    if "TAPE-PAIR" in rules:
        res.rule("TAPE-PAIR", "make_accessible: old block copied into the new one before it is freed, freed with Layout::array::<C>(old size), "
                 "buffer/size/offset all assigned after the copy, copy destination and offset adjusted by the same added_below; Drop "
                 "frees iff size != 0 with the same layout; the three fields have no other writer", floor=5, what="obligations")
        fn = fns["make_accessible"]
        w = where(RUNTIME, fn, "make_accessible")
        # copy and free of the old block happen only under `self.size != 0` (ordering of copy / free / field stores and the
        # shared `added_below` are decided on MIR: TAPE-PAIR/MIR)
        import pm
        par_ = parents(fn)
        olds = [m_ for m_ in walk_t(fn["body"], "MethodCall") if m_["method"] in ("copy_to_nonoverlapping", "copy_to", "copy_from_nonoverlapping", "copy_from")] + \
               [c_ for c_ in walk_t(fn["body"], "Call") if (path_name(strip_paren(c_["func"])) or "").split("::")[-1] in ("dealloc", "realloc")]

        def under_nonempty(n_):
            cur = n_
            while id(cur) in par_:
                pn, k = par_[id(cur)]
                if pn["t"] == "If":
                    c_ = pm.canon(pn)
                    # canon turns `if a != b {X} else {Y}` into `if a == b {Y} else {X}`
                    cond = strip_paren(c_["cond"])
                    in_then = any(x is n_ for x in walk(c_["then"]))
                    if pm.match_expr(cond, "self.size == 0") is not None and not in_then:
                        return True
                    if pm.match_expr(cond, "self.size != 0") is not None and in_then:
                        return True
                    if pm.match_expr(cond, "self.size > 0") is not None and in_then:
                        return True
                    if pm.match_expr(cond, "self.buffer.is_null()") is not None and not in_then:
                        return True
                cur = pn
            return False
        guard = len(olds) >= 2 and all(under_nonempty(o_) for o_ in olds)
        res.check(guard, "TAPE-PAIR", f"{RUNTIME}|make_accessible|empty-guard", w, "copy and free of the old block must be skipped when there is no old block (size == 0)")
        import pm
        okd = pm.match_stmts(fns["drop"]["body"]["stmts"],
                             "if self.size != 0 { unsafe { let __v_l = Layout::array::<C>(self.size).unwrap(); dealloc(self.buffer as *mut u8, __v_l); } }") is not None
        res.check(okd, "TAPE-PAIR", f"{RUNTIME}|Memory::drop", where(RUNTIME, fns["drop"], "Memory::drop"), "Drop must free iff size != 0 with Layout::array::<C>(self.size)")
        writers = {}
        for n, f_ in fns.items():
            for a in walk_t(f_.get("body") or {}, "Assign"):
                l = T(ast, RUNTIME, a["left"])
                if l in ("self.buffer", "self.size", "self.offset"):
                    writers.setdefault(l, set()).add(n)
        okw = writers.get("self.buffer", set()) <= {"make_accessible"} and writers.get("self.size", set()) <= {"make_accessible"} and \
            writers.get("self.offset", set()) <= {"make_accessible", "mov", "set_current_ptr"}
        res.check(okw, "TAPE-PAIR", f"{RUNTIME}|field-writers", RUNTIME, f"unexpected writers of the tape fields: { {k: sorted(v) for k, v in writers.items()} }")
        st = ast.item(RUNTIME, "Struct", "Memory")
        priv = all(f["vis"] == "" for f in st["fields"]["fields"])
        res.check(priv, "TAPE-PAIR", f"{RUNTIME}|Memory|private", where(RUNTIME, st, "struct Memory"), "the tape fields must stay private to runtime.rs")
        nt = T(ast, RUNTIME, fns["new"]["body"])
        res.check("buffer:ptr::null_mut(),size:0,offset:0," in nt, "TAPE-PAIR", f"{RUNTIME}|Memory::new", where(RUNTIME, fns["new"], "Memory::new"),
                  "a new tape must be empty (null buffer, size 0, offset 0) so that every cell reads as zero")
        okm = pm.match_stmts(fns["mov"]["body"]["stmts"], "self.offset = self.offset.wrapping_add_signed(__v_o);") is not None
        res.check(okm, "TAPE-PAIR", f"{RUNTIME}|Memory::mov", where(RUNTIME, fns["mov"], "Memory::mov"), "mov must only adjust the logical offset")
