"""Runtime rules: the tape (src/runtime.rs) and raw allocation sites.

ALLOC-NULL    every raw allocation result is null-tested by the very next statement, the null branch
              diverges, nothing touches the pointer or the tape fields before the test (C17).
BOUNDS-GUARD  every raw dereference of the tape buffer is guarded by the strict unsigned test
              `index < size` of the same index, or follows make_accessible of that offset (C09, C06).
READ-NOALLOC  read/check/check_ptr/current_ptr/mov/set_current_ptr reach no allocating or growing call (C09).
TAPE-PAIR     make_accessible copies before it frees, frees with the old size, assigns all three
              fields after the copy using the same `added_below`; Drop frees iff size != 0; the three
              fields have no other writer (C09, C06).
"""
from common import *
from iolim import parents

RUNTIME = "src/runtime.rs"
ALLOC_FNS = ("alloc", "alloc_zeroed", "realloc")
DIVERGING = ("handle_alloc_error", "abort", "process::abort", "std::process::abort", "alloc::handle_alloc_error", "std::alloc::handle_alloc_error")


def T(ast, path, n, limit=600):
    return ast.src1(path, n, limit).replace(" ", "")


def strip_unsafe_cast(e):
    """Peel `unsafe { X }`, `X as T`, parentheses."""
    while True:
        e = strip_paren(e)
        if e["t"] == "Unsafe" and len(e["block"]["stmts"]) == 1 and e["block"]["stmts"][0]["t"] == "ExprStmt" and not e["block"]["stmts"][0]["semi"]:
            e = e["block"]["stmts"][0]["expr"]
        elif e["t"] == "Cast":
            e = e["expr"]
        else:
            return e


def run_alloc_null(res, ast):
    res.rule("ALLOC-NULL", "for every raw allocation call (alloc, alloc_zeroed, realloc): (1) the result is bound by a `let` "
             "and null-tested, (2) the null branch ends in a diverging call (handle_alloc_error/abort/panic), (3) the test is "
             "the statement immediately after the `let`, so it dominates every use of the pointer, (4) no store to the tape "
             "fields and no dealloc happens between allocation and test", floor=8, what="obligations (4 per site)")
    nsites = 0
    for path in sorted(ast.files):
        if not path.startswith("src/") or path.startswith("src/bin/fuzz"):
            continue
        for f in ast.find_fns(path):
            if is_test_item(f) or not f["node"].get("body"):
                continue
            body = f["node"]["body"]
            calls = [c for c in walk_t(body, "Call") if path_name(c["func"]) and path_name(c["func"]).split("::")[-1] in ALLOC_FNS
                     and (len(path_name(c["func"]).split("::")) == 1 or path_name(c["func"]).split("::")[-2] in ("alloc",))]
            if not calls:
                continue
            res.files.add(path)
            par = parents(f["node"])
            for c in calls:
                nsites += 1
                fnname = path_name(c["func"]).split("::")[-1]
                key = f"{path}|{f['name']}|{fnname}"
                w = where(path, c, f["name"])
                # (1) find the enclosing `let X = ..` whose init is the (unsafe/cast-wrapped) call
                cur = c
                let = None
                while id(cur) in par:
                    pn, k = par[id(cur)]
                    if pn["t"] == "Local":
                        let = pn
                        break
                    if pn["t"] not in ("Cast", "Paren", "Unsafe", "Block", "ExprStmt"):
                        break
                    cur = pn
                ok1 = let is not None and let["pat"]["t"] in ("PIdent", "PType") and strip_unsafe_cast(let["init"]) is c
                var = None
                if ok1:
                    p = let["pat"]
                    while p["t"] == "PType":
                        p = p["pat"]
                    var = p.get("name")
                res.check(ok1, "ALLOC-NULL", key + "|1-bound", w,
                          f"{f['name']}: the result of {fnname} is not bound directly by a `let` (it is used or stored before any null test)")
                if not ok1:
                    for i in (2, 3, 4):
                        res.bad("ALLOC-NULL", key + f"|{i}", w, f"{f['name']}: obligation {i} cannot be established because the result is not let-bound")
                    continue
                # the statement list that contains the let
                blk, _ = par[id(let)]
                stmts = blk["stmts"]
                idx = next(i for i, s in enumerate(stmts) if s is let)
                nxt = stmts[idx + 1] if idx + 1 < len(stmts) else None
                e = nxt["expr"] if nxt is not None and nxt["t"] == "ExprStmt" else None
                is_test = False
                if e is not None and e["t"] == "If" and e["else"] is None:
                    ct = T(ast, path, e["cond"])
                    is_test = ct in (f"{var}.is_null()", f"{var}==ptr::null_mut()", f"{var}==std::ptr::null_mut()", f"{var}asusize==0")
                res.check(is_test, "ALLOC-NULL", key + "|3-dominates", w,
                          f"{f['name']}: the statement after `let {var} = {fnname}(..)` is not `if {var}.is_null() {{ .. }}`: the pointer can be used before the test"
                          + (f" (found `{ast.src1(path, nxt, 80)}`)" if nxt is not None else ""))
                # (2) diverging null branch
                div = False
                if is_test:
                    ts = e["then"]["stmts"]
                    if ts:
                        last = ts[-1]
                        le = last.get("expr") if last["t"] == "ExprStmt" else None
                        if le is not None and le["t"] == "Call" and path_name(le["func"]) in DIVERGING:
                            div = True
                        if last["t"] in ("MacroStmt",) and last["mac"]["name"] in ("panic", "unreachable"):
                            div = True
                        if le is not None and le["t"] == "MacroExpr" and le["mac"]["name"] in ("panic", "unreachable"):
                            div = True
                        # nothing but the diverging call may happen on the null branch
                        if len(ts) != 1:
                            div = False
                res.check(div, "ALLOC-NULL", key + "|2-diverges", w,
                          f"{f['name']}: the null branch must consist of a single diverging call (handle_alloc_error / abort / panic!); "
                          "a retry, a debug_assert or a fall-through continues with a null or stale tape")
                # (4) the let's own initialiser contains nothing but the call and casts (no store, no dealloc)
                extra = [x for x in walk_t(let["init"], "Call", "MethodCall", "Assign") if x is not c]
                res.check(not extra, "ALLOC-NULL", key + "|4-nothing-between", w,
                          f"{f['name']}: other effects happen inside the allocation expression before the null test")
                res.sample({"rule": "ALLOC-NULL", "site": w, "pointer": var, "test": ast.src1(path, nxt, 100) if nxt else None})
    # no other raw allocation API slips by
    other = []
    for path in sorted(ast.files):
        if not path.startswith("src/") or path.startswith("src/bin/fuzz"):
            continue
        for f in ast.find_fns(path):
            if is_test_item(f) or not f["node"].get("body"):
                continue
            for c in walk_t(f["node"]["body"], "Call"):
                n = path_name(c["func"]) or ""
                if n.split("::")[-1] in ("malloc", "calloc", "allocate", "allocate_zeroed", "grow", "grow_zeroed", "alloc_layout"):
                    other.append(where(path, c, f["name"]))
    res.check(not other, "ALLOC-NULL", "other-alloc-apis", "-", f"raw allocation APIs not covered by the rule are used at {other}")
    # supporting: mmap result asserted
    for f in ast.find_fns("src/exec/basejit/mod.rs", "enter_jit_code"):
        mm = [c for c in walk_t(f["node"]["body"], "Call") if path_name(c["func"]) == "libc::mmap"]
        t = T(ast, "src/exec/basejit/mod.rs", f["node"]["body"], 3000)
        ok = len(mm) == 1 and "assert!(code_memasisize!=-1" in t and t.index("assert!(code_memasisize!=-1") < t.index("ptr::copy_nonoverlapping")
        res.check(ok, "ALLOC-NULL", "src/exec/basejit/mod.rs|enter_jit_code|mmap", where("src/exec/basejit/mod.rs", f["node"], "enter_jit_code"),
                  "the mmap result must be asserted != MAP_FAILED before the code is copied into it")
    return nsites


def run_tape_rules(res, ast, rules=("BOUNDS-GUARD", "READ-NOALLOC", "TAPE-PAIR")):
    res.files.add(RUNTIME)
    try:
        fns = {f["name"]: f["node"] for f in ast.find_fns(RUNTIME) if "Memory" in f["container"] and "mod tests" not in f["container"]}
        for n in ("read", "write", "write_out_of_bounds", "check", "check_ptr", "make_accessible", "mov", "set_current_ptr", "current_ptr", "new", "drop"):
            if n not in fns:
                raise Missing(f"Memory::{n}")
    except Missing as m:
        for r in rules:
            res.rule(r, "(anchor missing)")
            res.missing(r, m)
        return
    if "BOUNDS-GUARD" in rules:
        res.rule("BOUNDS-GUARD", "every `*self.buffer.add(i)` is inside `if i < self.size` (strict, unsigned, same i computed with "
                 "wrapping_add_signed) or follows make_accessible(o, o + 1) with i recomputed from the same o; check/check_ptr use "
                 "the same strict comparison (check_ptr on the element index, i.e. after dividing by the cell size)", floor=5, what="accesses and tests")
        for name in ("read", "write"):
            fn = fns[name]
            w = where(RUNTIME, fn, f"Memory::{name}")
            derefs = [u for u in walk_t(fn["body"], "Unary") if u["op"] == "*" and T(ast, RUNTIME, u["expr"]).startswith("self.buffer.add(")]
            lets = {l["pat"]["name"]: T(ast, RUNTIME, l["init"]) for l in walk_t(fn["body"], "Local") if l["pat"]["t"] == "PIdent" and l["init"] is not None}
            par = parents(fn)
            okall = bool(derefs)
            why = []
            pn0 = [p["pat"]["name"] for p in fn["sig"]["inputs"] if p["t"] == "Arg"][0]
            for d in derefs:
                iv = T(ast, RUNTIME, d["expr"])[len("self.buffer.add("):-1]
                if lets.get(iv) != f"self.offset.wrapping_add_signed({pn0})":
                    okall = False
                    why.append(f"index `{iv}` is not `self.offset.wrapping_add_signed({pn0})`")
                guarded = False
                cur = d
                while id(cur) in par:
                    pn, k = par[id(cur)]
                    if pn["t"] == "If" and k == "then" and T(ast, RUNTIME, pn["cond"]) == f"{iv}<self.size":
                        guarded = True
                    cur = pn
                if not guarded:
                    okall = False
                    why.append(f"`*self.buffer.add({iv})` is not inside `if {iv} < self.size`")
            res.check(okall, "BOUNDS-GUARD", f"{RUNTIME}|Memory::{name}|deref", w, f"Memory::{name}: " + "; ".join(why or ["no raw access found"]))
        import pm
        fn = fns["write_out_of_bounds"]
        ok = pm.match_stmts(fn["body"]["stmts"], "self.make_accessible(__v_o, __v_o + 1); let __v_i = self.offset.wrapping_add_signed(__v_o); unsafe { *self.buffer.add(__v_i) = __v_val };") is not None
        res.check(ok, "BOUNDS-GUARD", f"{RUNTIME}|Memory::write_out_of_bounds", where(RUNTIME, fn, "write_out_of_bounds"),
                  "the slow path must call make_accessible(offset, offset + 1) and recompute the index from the same offset before the raw store")
        okc = pm.match_stmts(fns["check"]["body"]["stmts"], "self.offset.wrapping_add_signed(__v_o) < self.size") is not None
        res.check(okc, "BOUNDS-GUARD", f"{RUNTIME}|Memory::check", where(RUNTIME, fns["check"], "check"),
                  f"check must be `self.offset.wrapping_add_signed(offset) < self.size` (strict); found `{T(ast, RUNTIME, fns['check']['body'])}`")
        okp = pm.match_stmts(fns["check_ptr"]["body"]["stmts"], "((__v_p as usize).wrapping_sub(self.buffer as usize) / mem::size_of::<C>()) < self.size") is not None
        res.check(okp, "BOUNDS-GUARD", f"{RUNTIME}|Memory::check_ptr", where(RUNTIME, fns["check_ptr"], "check_ptr"),
                  f"check_ptr must compare the element index ((ptr - buffer) / size_of::<C>()) strictly with size; found `{T(ast, RUNTIME, fns['check_ptr']['body'])}`")
        # no other raw deref of the buffer anywhere in runtime.rs
        alld = []
        for n, fn in fns.items():
            for u in walk_t(fn.get("body") or {}, "Unary"):
                if u["op"] == "*" and "self.buffer" in T(ast, RUNTIME, u["expr"]):
                    alld.append(n)
        res.check(sorted(set(alld)) == ["read", "write", "write_out_of_bounds"], "BOUNDS-GUARD", f"{RUNTIME}|raw-access-sites", RUNTIME,
                  f"raw tape accesses occur in {sorted(set(alld))}; only read, write and write_out_of_bounds are analysed")
    if "READ-NOALLOC" in rules:
        res.rule("READ-NOALLOC", "Memory::read/check/check_ptr/current_ptr/mov/set_current_ptr call nothing that allocates or grows "
                 "(no make_accessible, write, alloc*, Vec/Box), and read takes &self", floor=6, what="functions")
        banned = ("make_accessible", "write", "write_out_of_bounds", "alloc", "alloc_zeroed", "realloc", "push", "reserve", "with_capacity", "to_vec", "collect", "clone")
        for name in ("read", "check", "check_ptr", "current_ptr", "mov", "set_current_ptr"):
            fn = fns[name]
            called = [m["method"] for m in walk_t(fn["body"], "MethodCall")] + [(path_name(c["func"]) or "?").split("::")[-1] for c in walk_t(fn["body"], "Call")]
            macs = [m["name"] for m in walk_t(fn["body"], "Macro")]
            bad = [c for c in called if c in banned] + [m for m in macs if m in ("vec", "format")]
            okr = not bad
            if name == "read":
                recv = [p for p in fn["sig"]["inputs"] if p["t"] == "Receiver"]
                okr = okr and recv and recv[0]["ref"] and not recv[0]["mut"]
            res.check(okr, "READ-NOALLOC", f"{RUNTIME}|Memory::{name}", where(RUNTIME, fn, f"Memory::{name}"),
                      f"Memory::{name} calls {bad or called} / takes a mutable receiver: reads and queries must not allocate")
    if "TAPE-PAIR" in rules:
        res.rule("TAPE-PAIR", "make_accessible: old block copied into the new one before it is freed, freed with Layout::array::<C>(old size), "
                 "buffer/size/offset all assigned after the copy, copy destination and offset adjusted by the same added_below; Drop "
                 "frees iff size != 0 with the same layout; the three fields have no other writer", floor=5, what="obligations")
        fn = fns["make_accessible"]
        w = where(RUNTIME, fn, "make_accessible")
        t = T(ast, RUNTIME, fn["body"], 6000)

        def pos(frag):
            return t.find(frag)
        p_copy = pos("self.buffer.copy_to_nonoverlapping(new_buffer.wrapping_add(added_below),self.size);")
        p_lay = pos("letold_layout=Layout::array::<C>(self.size).unwrap();")
        p_free = pos("dealloc(self.bufferas*mutu8,old_layout);")
        p_b = pos("self.buffer=new_buffer;")
        p_s = pos("self.size=new_size;")
        p_o = pos("self.offset=self.offset.wrapping_add(added_below);")
        # ordering of copy / free / field stores and the shared `added_below` are decided on MIR (TAPE-PAIR/MIR)
        guard = "ifself.size!=0{" in t and (p_copy < 0 or t.find("ifself.size!=0{") < p_copy)
        res.check(guard, "TAPE-PAIR", f"{RUNTIME}|make_accessible|empty-guard", w, "copy and free of the old block must be skipped when there is no old block (size == 0)")
        import pm
        okd = pm.match_stmts(fns["drop"]["body"]["stmts"],
                             "if self.size != 0 { unsafe { let __v_l = Layout::array::<C>(self.size).unwrap(); dealloc(self.buffer as *mut u8, __v_l); } }") is not None
        res.check(okd, "TAPE-PAIR", f"{RUNTIME}|Memory::drop", where(RUNTIME, fns["drop"], "Memory::drop"), "Drop must free iff size != 0 with Layout::array::<C>(self.size)")
        writers = {}
        for n, f_ in fns.items():
            for a in walk_t(f_.get("body") or {}, "Assign"):
                l = T(ast, RUNTIME, a["left"])
                if l in ("self.buffer", "self.size", "self.offset"):
                    writers.setdefault(l, set()).add(n)
        okw = writers.get("self.buffer", set()) <= {"make_accessible"} and writers.get("self.size", set()) <= {"make_accessible"} and \
            writers.get("self.offset", set()) <= {"make_accessible", "mov", "set_current_ptr"}
        res.check(okw, "TAPE-PAIR", f"{RUNTIME}|field-writers", RUNTIME, f"unexpected writers of the tape fields: { {k: sorted(v) for k, v in writers.items()} }")
        st = ast.item(RUNTIME, "Struct", "Memory")
        priv = all(f["vis"] == "" for f in st["fields"]["fields"])
        res.check(priv, "TAPE-PAIR", f"{RUNTIME}|Memory|private", where(RUNTIME, st, "struct Memory"), "the tape fields must stay private to runtime.rs")
        nt = T(ast, RUNTIME, fns["new"]["body"])
        res.check("buffer:ptr::null_mut(),size:0,offset:0," in nt, "TAPE-PAIR", f"{RUNTIME}|Memory::new", where(RUNTIME, fns["new"], "Memory::new"),
                  "a new tape must be empty (null buffer, size 0, offset 0) so that every cell reads as zero")
        okm = pm.match_stmts(fns["mov"]["body"]["stmts"], "self.offset = self.offset.wrapping_add_signed(__v_o);") is not None
        res.check(okm, "TAPE-PAIR", f"{RUNTIME}|Memory::mov", where(RUNTIME, fns["mov"], "Memory::mov"), "mov must only adjust the logical offset")
