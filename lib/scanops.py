"""Move / scan ops of the bytecode interpreter, decided by abstract evaluation with affine induction.

A tape pointer is `entry pointer + offset` with the offset a polynomial over the operand words (w1, w2, ..) and, inside
a loop, the iteration counter k.  `checkl/checkr(cxt, p)` is a *probe*: it returns a pointer to the same logical cell
(the buffer may have been reallocated), so every pointer computed before it is stale afterwards.  A `while` loop is
summarised by induction: the body is evaluated once from the entry state to find each variable's per-iteration
increment, then once more from the symbolic state `entry + k * increment` to confirm that the increment is invariant;
after the loop the state is `entry + K * increment` for the (unknown) exit iteration K.

What the rule then states, for SAFE in {true, false}:
  * the cell tested in iteration k is `entry + w_cond + k * w_shift` (scans);
  * the pointer handed to the continuation is `entry + K * w_shift` (scans) / `entry + w_shift` (moves), and it is not stale;
  * SAFE: exactly one probe per step, applied to the already moved pointer, through checkl for the ops that move left and
    checkr for those that move right; not SAFE: no probe at all;
  * the continuation is `noop(cxt, <that pointer>, ip + <number of words>, r0, r1)`.
Nothing is executed; the loop is never unrolled.
"""
from common import strip_paren, path_name, walk_t
from rusteval import Interp, Env, Unanalysable, Reached, ReturnEx, BreakEx, ContinueEx, Poly, UNIT


class Ptr:
    def __init__(self, off, epoch):
        self.off, self.epoch = off, epoch

    def __repr__(self):
        return f"mem+({self.off!r})@{self.epoch}"


class IpV:
    def __init__(self, off):
        self.off = off


class Cell:
    def __init__(self, ptr):
        self.ptr = ptr


class CondV:
    """`*p != ZERO` (nonzero=True) or `*p == ZERO`"""

    def __init__(self, ptr, nonzero):
        self.ptr, self.nonzero = ptr, nonzero


class ScanInterp(Interp):
    def __init__(self, names, safe, safe_name):
        super().__init__()
        self.n = names            # cxt, mem, ip, r0, r1
        self.safe, self.safe_name = safe, safe_name
        self.epoch = 0
        self.probes = []          # (which, offset, epoch before)
        self.reads = []           # offsets of tested cells (with epoch validity checked)
        self.problems = []
        self.cont = None
        self.loops = []

    # -- values
    def path_value(self, name, node):
        if name == self.safe_name:
            return self.safe
        if name == "C::ZERO":
            return 0
        raise Unanalysable(f"path {name}")

    def use(self, p, what):
        if isinstance(p, Ptr) and p.epoch != self.epoch:
            self.problems.append(f"{what} uses a pointer computed before a probe (the buffer may have moved since)")

    def eval(self, e, env):
        t = e.get("t")
        if t == "Field" and e["member"] in ("off", "idx", "val"):
            b = strip_paren(e["base"])
            if b["t"] == "Unary" and b["op"] == "*":
                ipv = self.eval(b["expr"], env)
                if isinstance(ipv, IpV) and ipv.off > 0:
                    return Poly.var(f"w{ipv.off}")
            raise Unanalysable("operand load the rule does not model")
        if t == "Unary" and e["op"] == "*":
            v = self.eval(e["expr"], env)
            if isinstance(v, Ptr):
                self.use(v, "a cell read")
                return Cell(v)
            raise Unanalysable("dereference of a non-pointer")
        if t == "While":
            return self.loop(e, env)
        if t == "Loop" or t == "ForLoop":
            raise Unanalysable(f"{t} in a move/scan op")
        return super().eval(e, env)

    def binary(self, op, l, r, node):
        if isinstance(l, Cell) and r == 0 and op in ("!=", "=="):
            return CondV(l.ptr, op == "!=")
        if isinstance(r, Cell) and l == 0 and op in ("!=", "=="):
            return CondV(r.ptr, op == "!=")
        if isinstance(l, Poly) and isinstance(r, Poly) and op in ("+", "-"):
            return l + r if op == "+" else l - r
        if isinstance(l, Poly) and isinstance(r, int) and op in ("+", "-"):
            return l + Poly.const(r) if op == "+" else l - Poly.const(r)
        return super().binary(op, l, r, node)

    def unary(self, op, v, node):
        if op == "!" and isinstance(v, CondV):
            return CondV(v.ptr, not v.nonzero)
        if op == "-" and isinstance(v, Poly):
            return -v
        return super().unary(op, v, node)

    def method(self, recv, name, targs, args, node):
        if isinstance(recv, Ptr) and name in ("offset", "wrapping_offset", "add", "wrapping_add") and len(args) == 1:
            a = args[0]
            a = Poly.const(a) if isinstance(a, int) and not isinstance(a, bool) else a
            if isinstance(a, Poly):
                return Ptr(recv.off + a, recv.epoch)
        if isinstance(recv, Ptr) and name in ("sub", "wrapping_sub") and len(args) == 1:
            a = args[0]
            a = Poly.const(a) if isinstance(a, int) and not isinstance(a, bool) else a
            if isinstance(a, Poly):
                return Ptr(recv.off - a, recv.epoch)
        if isinstance(recv, IpV) and name in ("add", "offset") and isinstance(args[0], int):
            return IpV(recv.off + args[0])
        if isinstance(recv, Poly) and name in ("unsigned_abs", "abs"):
            raise Unanalysable("magnitude of a signed operand word (the direction would be lost)")
        raise Unanalysable(f"method .{name}() on {recv!r}")

    def cast(self, v, ty, node):
        return v

    def call(self, name, targs, args, node):
        base = name.split("::")[-1]
        if base in ("checkl", "checkr") and len(args) == 2 and isinstance(args[1], Ptr):
            self.use(args[1], "a probe")
            self.probes.append((base, args[1].off, self.loop_depth()))
            self.epoch += 1
            return Ptr(args[1].off, self.epoch)
        if base == "noop" and len(args) == 5:
            self.cont = args
            if isinstance(args[1], Ptr):
                self.use(args[1], "the continuation")
            return UNIT
        raise Unanalysable(f"call of {name}")

    def loop_depth(self):
        return len(self.loops)

    def cond(self, c, env):
        v = self.eval(strip_paren(c), env) if strip_paren(c)["t"] != "Let" else None
        if isinstance(v, bool):
            return v
        raise Unanalysable("a branch on a tape cell inside a move/scan op (only the loop condition may test one)")

    # -- induction over `while`
    def snapshot(self, env):
        out = {}
        e = env
        while e is not None:
            for k, v in e.vars.items():
                if k not in out and isinstance(v, (Ptr, Poly)):
                    out[k] = v
            e = e.parent
        return out

    def loop(self, e, env):
        if self.loops:
            raise Unanalysable("nested loops in a scan op")
        K = Poly.var("K")
        k = Poly.var("k")
        entry = self.snapshot(env)
        # pass 1: one iteration from the entry state -> increments
        saved = (list(self.probes), self.epoch, list(self.problems))
        self.loops.append("probe-pass")
        c0 = self.eval(strip_paren(e["cond"]), env)
        if not isinstance(c0, CondV) or not c0.nonzero:
            raise Unanalysable("the loop condition is not `cell != ZERO`")
        scope = env.child()
        try:
            self.exec_block(e["body"], scope)
        except (BreakEx, ContinueEx):
            raise Unanalysable("break/continue in a scan loop")
        after = self.snapshot(env)
        delta = {}
        for name, v0 in entry.items():
            v1 = after.get(name)
            if isinstance(v0, Ptr) and isinstance(v1, Ptr):
                delta[name] = v1.off - v0.off
            elif isinstance(v0, Poly) and isinstance(v1, Poly):
                delta[name] = v1 - v0
            else:
                raise Unanalysable(f"`{name}` changes kind inside the loop")
        probes_per_iter = self.probes[len(saved[0]):]
        self.probes, self.epoch, self.problems = saved[0], saved[1], saved[2]
        # pass 2: from the symbolic state entry + k * delta
        for name, v0 in entry.items():
            nv = Ptr(v0.off + delta[name] * k, self.epoch) if isinstance(v0, Ptr) else v0 + delta[name] * k
            env.assign(name, nv)
        self.loops[-1] = "induction-pass"
        ck = self.eval(strip_paren(e["cond"]), env)
        self.reads.append(("loop-test", ck.ptr.off))
        n_before = len(self.probes)
        ep_before = self.epoch
        self.exec_block(e["body"], env.child())
        afterk = self.snapshot(env)
        for name, v0 in entry.items():
            want = (v0.off if isinstance(v0, Ptr) else v0) + delta[name] * (k + Poly.const(1))
            got = afterk[name].off if isinstance(afterk[name], Ptr) else afterk[name]
            if got != want:
                raise Unanalysable(f"`{name}` does not advance by a fixed amount per iteration")
            if isinstance(afterk[name], Ptr) and afterk[name].epoch != self.epoch and delta[name] != Poly.const(0) or \
                    (isinstance(afterk[name], Ptr) and afterk[name].epoch != self.epoch and self.epoch != ep_before and name == self.n[1]):
                self.problems.append(f"`{name}` is carried into the next iteration although a probe may have moved the buffer")
        self.iter_probes = self.probes[n_before:]
        self.loops.pop()
        # exit state: K iterations done
        for name, v0 in entry.items():
            nv = Ptr(v0.off + delta[name] * K, self.epoch) if isinstance(v0, Ptr) else v0 + delta[name] * K
            if isinstance(afterk[name], Ptr) and afterk[name].epoch != self.epoch:
                nv = Ptr(nv.off, afterk[name].epoch)
            env.assign(name, nv)
        self.looped = True
        return UNIT


def run_scan_effect(res, ast, OPS, rules=("UNSAFE-TWIN", "PROBE-DIR")):
    from common import where, Missing
    for name, chk, looped, words in (("scanl", "checkl", True, 3), ("scanr", "checkr", True, 3), ("movl", "checkl", False, 2), ("movr", "checkr", False, 2)):
        try:
            fn = ast.fn(OPS, name)["node"]
        except Missing as m:
            for r in rules:
                res.missing(r, m)
            continue
        w = where(OPS, fn, name)
        ps = [p["pat"]["name"] for p in fn["sig"]["inputs"] if p["t"] == "Arg" and p["pat"]["t"] == "PIdent"]
        gens = [g["name"] for g in fn["sig"]["generics"]["params"] if g["t"] == "ConstParam"]
        if len(ps) != 5 or len(gens) != 1:
            for r in rules:
                res.bad(r, f"{OPS}|{name}|signature", w, f"{name} does not have the op signature (cxt, mem, ip, r0, r1) with one const mode parameter")
            continue
        k, K = Poly.var("k"), Poly.var("K")
        w1, w2 = Poly.var("w1"), Poly.var("w2")
        shiftw = w2 if looped else w1
        twin, pdir = [], []
        results = {}
        for safe in (True, False):
            it = ScanInterp(ps, safe, gens[0])
            it.looped = False
            it.iter_probes = []
            env = Env()
            env.bind(ps[0], "cxt"); env.bind(ps[1], Ptr(Poly.const(0), 0)); env.bind(ps[2], IpV(0)); env.bind(ps[3], "r0"); env.bind(ps[4], "r1")
            res.evaluations += 1
            mode = "checked" if safe else "unchecked"
            try:
                try:
                    it.exec_block(fn["body"], env)
                except ReturnEx:
                    raise Unanalysable("early return")
            except (Unanalysable, Reached, KeyError, TypeError, AttributeError) as u_:
                twin.append(f"{mode}: cannot be analysed (fail closed): {u_}")
                continue
            twin += [f"{mode}: {p_}" for p_ in it.problems]
            if it.cont is None:
                twin.append(f"{mode}: no continuation noop(..)")
                continue
            c = it.cont
            if not (c[0] == "cxt" and isinstance(c[2], IpV) and c[2].off == words and c[3] == "r0" and c[4] == "r1" and isinstance(c[1], Ptr)):
                twin.append(f"{mode}: the continuation is not noop(cxt, mem, ip + {words}, r0, r1)")
                continue
            want_final = shiftw * K if looped else shiftw
            if c[1].off != want_final:
                twin.append(f"{mode}: the pointer handed on is entry + ({c[1].off!r}), it must be entry + ({want_final!r})")
            if looped:
                if not it.looped:
                    twin.append(f"{mode}: no loop")
                tests = [o for what, o in it.reads if what == "loop-test"]
                if tests != [w1 + shiftw * k]:
                    twin.append(f"{mode}: iteration k tests the cell at entry + ({tests[0]!r})" + f", it must test entry + ({(w1 + shiftw * k)!r})" if tests else f"{mode}: no cell test")
                probes = it.iter_probes
                moved = shiftw * (k + Poly.const(1))
            else:
                probes = it.probes
                moved = shiftw
            if safe:
                if len(probes) != 1:
                    pdir.append(f"checked: {len(probes)} probes per step, expected exactly one")
                else:
                    which, off, _ = probes[0]
                    if off != moved:
                        pdir.append(f"checked: the probe sees entry + ({off!r}), not the moved pointer entry + ({moved!r})")
                    if which != chk:
                        pdir.append(f"{name} moves {'left' if chk == 'checkl' else 'right'} but probes with {which}")
            elif probes or it.probes:
                twin.append("unchecked: a probe is performed in unchecked mode")
            results[safe] = c[1].off
        if "UNSAFE-TWIN" in rules:
            res.check(not twin, "UNSAFE-TWIN", f"{OPS}|{name}|twin", w,
                      f"{name}: checked and unchecked mode must test the same cells and hand on the same pointer, the checked one adding only the probe: " + "; ".join(twin[:3]))
        if "PROBE-DIR" in rules:
            res.check(not pdir and not [t_ for t_ in twin if "cannot be analysed" in t_], "PROBE-DIR", f"{OPS}|{name}|probe", w, f"{name}: " + ("; ".join(pdir[:2]) or "probe not analysable (see UNSAFE-TWIN)"))
