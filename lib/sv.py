"""C18 rules over src/smallvec.rs (syntax tree, path-sensitive).

SV-REPR-GUARD  every access to the union payload (`data.arr` / `data.vec`) and every use of the
               tag `size` as a value happens in the region selected by a discriminant test
               (`size <= N` / `size.cmp(&N)`) on the same vector.
SV-DISPOSE     in every loop that walks the inline slots, each slot is on every syntactic path
               exactly one of: kept (size += 1, moved by read->write when i != j) or consumed
               (assume_init_drop, or assume_init_read whose value is moved out) - never neither, never both.
SV-ITER        the by-value iterator hands out / drops each initialised slot exactly once.
SV-NODOUBLE    moving out of the union never leaves a second owner (ManuallyDrop before read,
               ptr::write instead of assignment).
"""
from common import *
from paths import block_paths, TooComplex

SV = "src/smallvec.rs"


def unwrap(e):
    """Strip parentheses, derefs and borrows."""
    while isinstance(e, dict):
        if e["t"] == "Paren":
            e = e["expr"]
        elif e["t"] == "Unary" and e["op"] == "*":
            e = e["expr"]
        elif e["t"] == "Reference":
            e = e["expr"]
        else:
            break
    return e


def payload(e):
    """('arr'|'vec', owner name) if e is X.data.arr / X.data.vec (through derefs), else None."""
    e = unwrap(e)
    if e["t"] == "Field" and e["member"] in ("arr", "vec"):
        b = unwrap(e["base"])
        if b["t"] == "Field" and b["member"] == "data":
            o = unwrap(b["base"])
            if o["t"] == "PathExpr":
                return e["member"], o["path"]["name"]
    return None


def size_of(e):
    """owner name if e is X.size (through casts/parens), else None."""
    e = unwrap(e)
    while e["t"] == "Cast":
        e = unwrap(e["expr"])
    if e["t"] == "Field" and e["member"] == "size":
        o = unwrap(e["base"])
        if o["t"] == "PathExpr":
            return o["path"]["name"]
    return None


def is_N(e):
    e = unwrap(e)
    return e["t"] == "PathExpr" and e["path"]["name"] == "N"


def slot(e):
    """(owner, index expr) if e is X.data.arr[idx] (or a local alias `arr[idx]`), else None."""
    e = unwrap(e)
    if e["t"] == "Index":
        p = payload(e["expr"])
        if p and p[0] == "arr":
            return p[1], e["index"]
        b = unwrap(e["expr"])
        if b["t"] == "PathExpr" and b["path"]["name"] == "arr":
            return "arr", e["index"]
    return None


def idx_name(e):
    e = unwrap(e)
    while e["t"] == "Cast":
        e = unwrap(e["expr"])
    if e["t"] == "PathExpr":
        return e["path"]["name"]
    if e["t"] == "Binary" and e["op"] == "-" and int_lit(e["right"]) is not None:
        n = idx_name(e["left"])
        return f"{n}-{int_lit(e['right'])}" if n else None
    return None


# ----------------------------------------------------------------------------- SV-REPR-GUARD

L, E, G = "Less", "Equal", "Greater"
ALL = frozenset((L, E, G))
INLINE = frozenset((L, E))
HEAP = frozenset((G,))
_CMP = {"<=": (INLINE, HEAP), "<": (frozenset((L,)), frozenset((E, G))), ">": (HEAP, INLINE), ">=": (frozenset((E, G)), frozenset((L,))),
        "==": (frozenset((E,)), frozenset((L, G))), "!=": (frozenset((L, G)), frozenset((E,)))}
_FLIP = {"<=": ">=", "<": ">", ">": "<", ">=": "<=", "==": "==", "!=": "!="}


def region_name(s_):
    if s_ is None or s_ == ALL:
        return None
    if s_ <= INLINE:
        return "inline"
    if s_ <= HEAP:
        return "heap"
    return "mixed"


def size_owner(e, alias):
    """owner if e is X.size (through casts) or a local immutable copy of it"""
    o = size_of(e)
    if o:
        return o
    u = unwrap(e)
    while u["t"] == "Cast":
        u = unwrap(u["expr"])
    if u["t"] == "PathExpr" and u["path"]["name"] in alias:
        return alias[u["path"]["name"]]
    return None


def disc_test(cond, alias=None):
    """For `if` conditions: list of (owner, set when true, set when false); a comparison of the tag (or of an immutable local copy
    of it) with N, possibly negated or one conjunct of `&&` (then only the true side is informative)."""
    alias = alias or {}
    c = strip_paren(cond)
    if c["t"] == "Unary" and c["op"] == "!":
        return [(o, f_, t_) for o, t_, f_ in disc_test(c["expr"], alias)]
    if c["t"] == "Binary" and c["op"] == "&&":
        return [(o, t_, ALL) for o, t_, f_ in disc_test(c["left"], alias) + disc_test(c["right"], alias)]
    if c["t"] == "Binary" and c["op"] == "||":
        return [(o, ALL, f_) for o, t_, f_ in disc_test(c["left"], alias) + disc_test(c["right"], alias)]
    if c["t"] == "Binary" and c["op"] in _CMP:
        l, r = c["left"], c["right"]
        if size_owner(l, alias) and is_N(r):
            t_, f_ = _CMP[c["op"]]
            return [(size_owner(l, alias), t_, f_)]
        if size_owner(r, alias) and is_N(l):
            t_, f_ = _CMP[_FLIP[c["op"]]]
            return [(size_owner(r, alias), t_, f_)]
    return []


def disc_match(m, alias=None):
    """For `match (X.size as usize).cmp(&N)`: owner or None."""
    e = strip_paren(m["expr"])
    if e["t"] == "MethodCall" and e["method"] == "cmp" and size_owner(e["receiver"], alias or {}) and len(e["args"]) == 1 and is_N(e["args"][0]):
        return size_owner(e["receiver"], alias or {})
    return None


def _diverges(blk):
    st = blk.get("stmts") or []
    if not st:
        return False
    e = st[-1].get("expr") if st[-1]["t"] == "ExprStmt" else None
    return isinstance(e, dict) and (e.get("t") in ("Return", "Break", "Continue") or (e.get("t") == "MacroExpr" and e["mac"]["name"] in ("panic", "unreachable")))


def run_repr_guard(res, ast):
    res.rule("SV-REPR-GUARD", "every access to data.arr / data.vec and every use of `size` as a value lies in the "
             "branch selected by discriminant tests (comparisons of size, or of an immutable local copy of it, with N; size.cmp(&N)) on the same vector: "
             "the orderings {Less, Equal, Greater} still possible there must all be inline (arr, size as a length) or all heap (vec)",
             floor=40, what="payload/tag accesses")
    fns = [f for f in ast.find_fns(SV) if not is_test_item(f) and f["node"].get("body")]
    # functions whose vector argument is guaranteed inline by their (checked) call sites
    pre = {}   # fn name -> (param name, region)
    calls_in_region = []

    def narrow(regions, o, s_):
        r = dict(regions)
        r[o] = regions.get(o, ALL) & s_
        return r

    def visit(e, regions, fn, out, alias=None):
        """regions: dict owner -> possible orderings.  out: list of (kind, owner, node, regions)"""
        alias = alias if alias is not None else {}
        if isinstance(e, list):
            for x in e:
                visit(x, regions, fn, out, alias)
            return
        if not isinstance(e, dict):
            return
        t = e.get("t")
        if t == "Block":
            regions = dict(regions)
            alias = dict(alias)
            for st in e["stmts"]:
                if st["t"] == "Local" and st.get("init") is not None and st["pat"]["t"] == "PIdent" and not st["pat"]["mut"] and not st["pat"]["by_ref"] \
                        and size_of(st["init"]) and unwrap(st["init"])["t"] in ("Field", "Cast"):
                    alias[st["pat"]["name"]] = size_of(st["init"])
                    continue
                if st["t"] == "Local" and st["pat"]["t"] == "PIdent":
                    alias.pop(st["pat"]["name"], None)
                visit(st, regions, fn, out, alias)
                # a write of the tag ends the validity of its local copies and of what was learnt about it
                for n_ in walk(st):
                    if (n_.get("t") == "Assign" or (n_.get("t") == "Binary" and n_["op"].endswith("=") and n_["op"] not in ("==", "!=", "<=", ">="))) and size_of(n_["left"]):
                        o_ = size_of(n_["left"])
                        for k_ in [k_ for k_, v_ in alias.items() if v_ == o_]:
                            del alias[k_]
                # `if <test> { ..; return }` narrows what follows
                x = st.get("expr") if st["t"] == "ExprStmt" else None
                if isinstance(x, dict) and x.get("t") == "If" and x.get("else") is None and _diverges(x["then"]):
                    for o, t_, f_ in disc_test(x["cond"], alias):
                        regions = narrow(regions, o, f_)
            return
        if t == "If":
            d = disc_test(e["cond"], alias) if strip_paren(e["cond"])["t"] != "Let" else []
            if d:
                r1, r2 = dict(regions), dict(regions)
                for o, t_, f_ in d:
                    out.append(("test", o, e["cond"], dict(regions)))
                    r1 = narrow(r1, o, t_)
                    r2 = narrow(r2, o, f_)
                visit(e["then"], r1, fn, out, alias)
                if e["else"] is not None:
                    visit(e["else"], r2, fn, out, alias)
                return
        if t == "Match":
            o = disc_match(e, alias)
            if o:
                out.append(("test", o, e["expr"], dict(regions)))
                seen = set()
                for arm in e["arms"]:
                    n = arm["pat"]["path"]["name"] if arm["pat"]["t"] in ("PPath",) else (arm["pat"].get("name") if arm["pat"]["t"] == "PIdent" else None)
                    names = [n]
                    if arm["pat"]["t"] == "POr":
                        names = [c_["path"]["name"] if c_["t"] == "PPath" else c_.get("name") for c_ in arm["pat"]["cases"]]
                    got = frozenset(x.split("::")[-1] for x in names if x and x.split("::")[-1] in ALL)
                    if arm["pat"]["t"] == "PWild":
                        got = ALL - seen
                    seen |= got
                    r = narrow(regions, o, got) if got and arm.get("guard") is None else dict(regions)
                    visit(arm["body"], r, fn, out, alias)
                return
        if t == "Field" and e["member"] in ("arr", "vec"):
            p = payload(e)
            if p:
                out.append((p[0], p[1], e, dict(regions)))
                return
        if t == "Field" and e["member"] == "size":
            o = size_of(e)
            if o:
                out.append(("size", o, e, dict(regions)))
                return
        if t == "PathExpr" and e["path"]["name"] in alias and len(e["path"]["segs"]) == 1:
            out.append(("size", alias[e["path"]["name"]], e, dict(regions)))
            return
        if t == "Call":
            nm = path_name(strip_paren(e["func"]))
            if nm and nm.startswith("Self::") and e["args"]:
                a0 = unwrap(e["args"][0])
                if a0["t"] == "PathExpr":
                    calls_in_region.append((nm[6:], a0["path"]["name"], dict(regions), e, fn))
        for k, v in e.items():
            if k in ("sp", "t"):
                continue
            if isinstance(v, (dict, list)):
                visit(v, regions, fn, out, alias)

    per_fn = {}
    for f in fns:
        out = []
        visit(f["node"]["body"], {}, f, out)
        per_fn[(f["container"], f["name"])] = (f, out)
    # callee preconditions: an `unsafe fn` taking `me: &mut Self` is inline iff all its call sites are
    for (cont, name), (f, out) in per_fn.items():
        sig = f["node"]["sig"]
        args = [p for p in sig["inputs"] if p["t"] == "Arg"]
        if sig["unsafe"] and args and args[0]["ty"]["s"].replace(" ", "") in ("&mutSelf",):
            pname = args[0]["pat"]["name"]
            sites = [c for c in calls_in_region if c[0] == name]
            if sites and all(region_name(c[2].get(c[1])) == "inline" for c in sites):
                pre[(cont, name)] = (pname, "inline")
    n = 0
    for (cont, name), (f, out) in per_fn.items():
        init = {}
        if (cont, name) in pre:
            init[pre[(cont, name)][0]] = pre[(cont, name)][1]
        for kind, owner, node, regions in out:
            if kind == "test":
                continue
            reg = region_name(regions.get(owner)) or init.get(owner)
            key = f"{SV}|{cont}::{name}|{kind}|{owner}|{sum(1 for k2, o2, n2, _ in out[:out.index((kind, owner, node, regions))] if k2 == kind and o2 == owner)}"
            w = where(SV, node, f"{cont}::{name}")
            n += 1
            if kind == "arr":
                res.check(reg == "inline", "SV-REPR-GUARD", key, w,
                          f"`{owner}.data.arr` is accessed where `{owner}.size <= N` is not established "
                          f"({'heap branch' if reg == 'heap' else 'no discriminant test dominates it'})")
            elif kind == "vec":
                res.check(reg == "heap", "SV-REPR-GUARD", key, w,
                          f"`{owner}.data.vec` is accessed where `{owner}.size > N` is not established "
                          f"({'inline branch' if reg == 'inline' else 'no discriminant test dominates it'})")
            else:
                res.check(reg == "inline", "SV-REPR-GUARD", key, w,
                          f"`{owner}.size` is used as a value outside the inline branch of a discriminant test "
                          f"(it is a representation tag, not a length, when the vector is heap-backed)")
    # constructors: the only writers of the heap tag
    heap_tags = []
    for f in fns:
        for se in walk_t(f["node"]["body"], "StructExpr"):
            if se["path"]["name"] in ("Self", "SmallVec"):
                fl = {x["member"]: x["expr"] for x in se["fields"]}
                if "size" in fl and "data" in fl:
                    d = fl["data"]
                    dk = [x["member"] for x in d["fields"]] if d["t"] == "StructExpr" else []
                    sz = fl["size"]
                    szs = ast.src1(SV, sz)
                    key = f"{SV}|{f['container']}::{f['name']}|ctor"
                    w = where(SV, se, f["name"])
                    if dk == ["vec"]:
                        good = szs.replace(" ", "") in ("Nasu8+1",)
                        res.check(good, "SV-REPR-GUARD", key, w, f"heap payload constructed with tag `{szs}`, expected N as u8 + 1")
                    elif dk == ["arr"]:
                        good = int_lit(sz) == 0
                        res.check(good, "SV-REPR-GUARD", key, w, f"inline payload constructed with tag `{szs}`, expected 0")
                    else:
                        res.bad("SV-REPR-GUARD", key, w, "constructor payload not understood (fail closed)")
    return n


# ----------------------------------------------------------------------------- SV-DISPOSE

def events_of(ast, ev_list):
    """Flatten path events into slot/size actions (in source order)."""
    acts = []
    aliases = {}   # local name -> ('moved', owner, idx)

    def scan(e):
        for n in walk(e):
            t = n.get("t")
            if t == "MethodCall":
                s = slot(n["receiver"])
                m = n["method"]
                if s and m in ("assume_init_read", "assume_init_drop", "write", "assume_init_ref", "assume_init_mut"):
                    acts.append((m, idx_name(s[1]), n))
                elif m in ("assume_init_read", "assume_init_drop") and unwrap(n["receiver"])["t"] == "PathExpr":
                    acts.append((m + "@elem", unwrap(n["receiver"])["path"]["name"], n))
            if t == "Binary" and n["op"] in ("+=", "-=") and (size_of(n["left"]) or idx_name(n["left"]) in ("i",)):
                acts.append(("size" + n["op"] if size_of(n["left"]) else "idx" + n["op"], int_lit(n["right"]), n))
            if t == "Assign" and size_of(n["left"]):
                acts.append(("size=", int_lit(n["right"]), n))
    for kind, n in ev_list:
        if kind == "cond":
            scan(n)
        elif kind == "let":
            if n["init"] is not None:
                scan(n["init"])
        elif kind == "expr":
            scan(n)
    return acts


def cond_text(ast, conds):
    out = []
    for c in conds:
        if c[0] == "if":
            out.append(("" if c[2] else "!") + "(" + ast.src1(SV, c[1], 70) + ")")
        else:
            out.append("arm " + ast.src1(SV, c[3]["pat"], 40))
    return " && ".join(out) or "true"


def run_dispose(res, ast):
    res.rule("SV-DISPOSE", "on every syntactic path through a per-slot loop body of the inline representation the "
             "slot is exactly one of kept (size += 1; moved with read->write when i != j) or consumed "
             "(assume_init_drop / read moved out); the loop covers exactly the initialised slots",
             floor=14, what="loop paths")
    fns = {(f["container"], f["name"]): f for f in ast.find_fns(SV) if not is_test_item(f)}

    def get(cont_sub, name):
        r = [f for (c, n), f in fns.items() if n == name and c.startswith(cont_sub)]
        if len(r) != 1:
            raise Missing(f"{SV}: function {name} in `{cont_sub}`: found {len(r)}")
        return r[0]

    # ---- compaction loops
    for name, first in (("retain", 0), ("retain_mut", 0), ("dedup", 1)):
        try:
            f = get("impl SmallVec < T , N >", name)
        except Missing as m:
            res.missing("SV-DISPOSE", m)
            continue
        body = f["node"]["body"]
        loops = [l for l in walk_t(body, "ForLoop") if payload_in(l)]
        key0 = f"{SV}|{name}"
        if len(loops) != 1:
            res.bad("SV-DISPOSE", key0 + "|loop", where(SV, f["node"], name), f"{name}: expected exactly one per-slot loop over the inline array, found {len(loops)}")
            continue
        lp = loops[0]
        w = where(SV, lp, name)
        rng = strip_paren(lp["expr"])
        ivar = lp["pat"].get("name")
        # range must be first..old_size with old_size = self.size saved before size is reset.  "Before" is structural (statements that precede
        # the loop in its block or in an enclosing block), not by line number: inlined helpers keep their own spans
        from iolim import parents as _parents
        par_l = _parents(f["node"])
        prior = []
        cur_ = lp
        while id(cur_) in par_l:
            pn_, k_ = par_l[id(cur_)]
            if pn_["t"] == "Block":
                idx_ = next((j_ for j_, s_ in enumerate(pn_["stmts"]) if s_ is cur_ or any(x is cur_ for x in walk(s_))), None)
                if idx_ is not None:
                    prior = pn_["stmts"][:idx_] + prior
            cur_ = pn_
        before_ids = {id(n_) for s_ in prior for n_ in walk(s_)}
        saved = [n["pat"]["name"] for n in walk_t(body, "Local") if n["pat"]["t"] == "PIdent" and n["init"] is not None
                 and size_of(n["init"]) == "self" and id(n) in before_ids]
        sname = saved[0] if len(saved) == 1 else "old_size"
        okr = rng["t"] == "Range" and not rng["closed"] and int_lit(rng["start"]) == first and idx_name(rng["end"]) == sname
        res.check(okr, "SV-DISPOSE", key0 + "|range", w, f"{name}: loop range is `{ast.src1(SV, rng)}`, expected {first}..<the length saved before the loop>")
        # old_size = self.size before `self.size = first`
        seq = []
        order = 0
        for s_ in prior:
            for n in walk(s_):
                order += 1
                if n.get("t") == "Local" and n["pat"].get("name") == sname and n["init"] is not None and size_of(n["init"]) == "self":
                    seq.append(("save", order))
                if n.get("t") == "Assign" and size_of(n["left"]) == "self":
                    seq.append(("reset", order, int_lit(n["right"])))
        # an assignment of the tag anywhere else than before the loop (apart from `size += 1` inside it) is a second reset
        stray = [n for n in walk_t(body, "Assign") if size_of(n["left"]) == "self" and id(n) not in before_ids]
        saves = [s for s in seq if s[0] == "save"]
        resets = [s for s in seq if s[0] == "reset"]
        okp = len(saves) == 1 and len(resets) == 1 and not stray and saves[0][1] < resets[0][1] and resets[0][2] == first
        if okp and first == 1:
            # dedup keeps the first element unconditionally: that is only right when there is one
            import pm
            from iolim import parents as _parents
            par_ = _parents(f["node"])
            reset_node = [n for n in walk_t(body, "Assign") if size_of(n["left"]) == "self"][0]

            def nonempty_cond(c_, truth):
                c_ = strip_paren(c_)
                for pat, t_ in (("self.size != 0", True), ("self.size > 0", True), ("self.size >= 1", True), ("self.size == 0", False), ("self.size < 1", False),
                                ("!self.is_empty()", True), ("self.is_empty()", False), (f"{sname} != 0", True), (f"{sname} > 0", True), (f"{sname} >= 1", True),
                                (f"{sname} == 0", False), (f"{sname} < 1", False), (f"{sname} > 1", True), (f"{sname} >= 2", True), ("self.size > 1", True), ("self.size as usize > 1", True),
                                ("self.size as usize != 0", True), ("self.size as usize > 0", True), ("self.size as usize == 0", False)):
                    if pm.match_expr(c_, pat) is not None:
                        return t_ == truth
                return False
            guarded = False
            cur = reset_node
            while id(cur) in par_ and not guarded:
                pn, k = par_[id(cur)]
                if pn["t"] == "If" and k in ("then", "else") and strip_paren(pn["cond"])["t"] != "Let":
                    guarded = nonempty_cond(pn["cond"], k == "then")
                if pn["t"] == "Block":
                    idx = next((j for j, s_ in enumerate(pn["stmts"]) if s_ is cur), None)
                    for s_ in pn["stmts"][:idx or 0]:
                        x = s_.get("expr") if s_["t"] == "ExprStmt" else None
                        if isinstance(x, dict) and x.get("t") == "If" and x.get("else") is None and _diverges(x["then"]) and nonempty_cond(x["cond"], False):
                            guarded = True
                cur = pn
            res.check(guarded, "SV-DISPOSE", key0 + "|nonempty", w,
                      f"{name}: `self.size = 1` (the first element is kept) must only happen when the vector is not empty; an empty vector would gain an uninitialised element")
        res.check(okp, "SV-DISPOSE", key0 + "|prologue", w,
                  f"{name}: expected the old length to be saved (`let n = self.size`) and then `self.size = {first}` before the loop; found {seq}")
        try:
            paths = block_paths(lp["body"])
        except TooComplex as t:
            res.bad("SV-DISPOSE", key0 + "|paths", w, f"{name}: {t} (fail closed)")
            continue
        for conds, ev, term in paths:
            acts = events_of(ast, ev)
            ct = cond_text(ast, conds)
            res.evaluations += 1
            reads = [a for a in acts if a[0] == "assume_init_read" and a[1] == ivar]
            drops = [a for a in acts if a[0] == "assume_init_drop" and a[1] == ivar]
            jnames = [n_["pat"]["name"] for k_, n_ in ev if k_ == "let" and n_["pat"]["t"] == "PIdent" and n_["init"] is not None and size_of(n_["init"]) == "self"]
            jn = jnames[0] if jnames else "j"
            writes = [a for a in acts if a[0] == "write"]
            incs = [a for a in acts if a[0] == "size+=" and a[1] == 1]
            other = [a for a in acts if a[0] in ("size-=", "size=") or (a[0] == "size+=" and a[1] != 1)
                     or (a[0] in ("assume_init_read", "assume_init_drop") and a[1] != ivar)]
            # relation between i and j on this path; loop invariant j <= i (size starts at the loop's first
            # index and grows by at most one per iteration - both checked here), so only {i == j, i > j} occur
            feas = {"eq", "gt"}
            for c in conds:
                if c[0] != "if":
                    continue
                txt = ast.src1(SV, c[1]).replace(" ", "")
                rel = None
                for op in ("!=", "==", ">=", "<=", ">", "<"):
                    if txt == f"{ivar}{op}{jn}":
                        rel = op
                    elif txt == f"{jn}{op}{ivar}":
                        rel = {"!=": "!=", "==": "==", ">=": "<=", "<=": ">=", ">": "<", "<": ">"}[op]
                if rel is None:
                    continue
                sat = {"!=": {"gt"}, "==": {"eq"}, ">=": {"eq", "gt"}, "<=": {"eq"}, ">": {"gt"}, "<": set()}[rel]
                feas &= sat if c[2] else ({"eq", "gt"} - sat)
            if not feas:
                res.ok("SV-DISPOSE", f"{key0}|path|{ct}", w, "infeasible (contradicts j <= i)", nontrivial=False)
                continue
            i_ne_j = feas == {"gt"}
            i_eq_j = feas == {"eq"}
            verdict = None
            if other:
                verdict = f"unexpected action on another slot or on size: {[a[0] for a in other]}"
            elif len(incs) == 1 and not drops:
                if reads and len(reads) == 1 and len(writes) == 1 and writes[0][1] == jn:
                    # a self-move (i == j) through read -> write is harmless, so i != j need not be established
                    state = "kept (moved i -> j)"
                elif not reads and not writes and (i_eq_j or not i_ne_j):
                    state = "kept in place (i == j)"
                    if not i_eq_j:
                        verdict = "slot counted as kept without establishing i == j or moving it to j"
                else:
                    verdict = f"kept path with reads={len(reads)} writes={[w_[1] for w_ in writes]} (i != j established: {i_ne_j})"
            elif not incs and len(drops) == 1 and not reads and not writes:
                state = "consumed (dropped)"
            elif not incs and not drops and not reads:
                verdict = "the slot is neither kept (size += 1) nor dropped on this path: the element leaks"
            elif incs and drops:
                verdict = "the slot is dropped and also counted as kept: double drop later"
            elif reads and not writes:
                verdict = "the slot is moved out (assume_init_read) but the value is not written back: lost or double owner"
            else:
                verdict = f"path not classifiable: incs={len(incs)} drops={len(drops)} reads={len(reads)} writes={len(writes)}"
            pkey = f"{key0}|path|{ct}"
            if verdict:
                res.bad("SV-DISPOSE", pkey, w, f"{name}: on path [{ct}] {verdict}")
            else:
                res.ok("SV-DISPOSE", pkey, w, state)
                res.sample({"rule": "SV-DISPOSE", "fn": name, "path": ct, "slot": state})
    # ---- pure drop loops: clear, Drop for SmallVec
    for cont, name in (("impl SmallVec < T , N >", "clear"), ("impl Drop for SmallVec <", "drop")):
        try:
            f = get(cont, name)
        except Missing as m:
            res.missing("SV-DISPOSE", m)
            continue
        body = f["node"]["body"]
        loops = [l for l in walk_t(body, "ForLoop") if payload_in(l)]
        key0 = f"{SV}|{'SmallVec::' + name}"
        w = where(SV, f["node"], name)
        if len(loops) != 1:
            res.bad("SV-DISPOSE", key0 + "|loop", w, f"{name}: expected exactly one drop loop over the inline array, found {len(loops)}")
            continue
        lp = loops[0]
        rng = strip_paren(lp["expr"])
        ivar = lp["pat"].get("name")
        # two idioms: `for i in 0..self.size { arr[i].assume_init_drop() }` and
        # `for e in &mut arr[..self.size] { e.assume_init_drop() }` (also `arr[0..self.size]`, `.iter_mut()`)
        by_elem = False
        # an immutable local copy of the tag taken before the loop stands for it, as long as the tag is not written in between
        tag_alias = set()
        for l_ in walk_t(body, "Local"):
            if l_["pat"]["t"] == "PIdent" and not l_["pat"]["mut"] and l_.get("init") is not None and size_of(l_["init"]) == "self" and before(l_, lp) \
                    and not any(size_of(a_["left"]) == "self" and before(l_, a_) and before(a_, lp) for a_ in walk_t(body, "Assign")):
                tag_alias.add(l_["pat"]["name"])

        def is_tag(e_):
            if e_ is None:
                return False
            if size_of(e_) == "self":
                return True
            u_ = unwrap(e_)
            while u_["t"] == "Cast":
                u_ = unwrap(u_["expr"])
            return u_["t"] == "PathExpr" and u_["path"]["name"] in tag_alias
        okr = rng["t"] == "Range" and not rng["closed"] and int_lit(rng["start"]) == 0 and is_tag(rng["end"])
        if not okr:
            it = rng
            if it["t"] == "MethodCall" and it["method"] == "iter_mut" and not it["args"]:
                it = strip_paren(it["receiver"])
            elif it["t"] == "Reference" and it.get("mut"):
                it = strip_paren(it["expr"])
            else:
                it = None
            if it is not None and it["t"] == "Index":
                pl = payload(it["expr"])
                r_ = strip_paren(it["index"])
                if pl and pl[0] == "arr" and pl[1] == "self" and r_["t"] == "Range" and not r_["closed"] and \
                        (r_["start"] is None or int_lit(r_["start"]) == 0) and r_["end"] is not None and is_tag(r_["end"]):
                    okr = by_elem = True
        res.check(okr, "SV-DISPOSE", key0 + "|range", where(SV, lp, name), f"{name}: drop loop range is `{ast.src1(SV, rng)}`, expected 0..self.size")
        paths = block_paths(lp["body"])
        good = len(paths) == 1
        if good:
            acts = events_of(ast, paths[0][1])
            good = [a[0] for a in acts] == ["assume_init_drop@elem" if by_elem else "assume_init_drop"] and acts[0][1] == ivar
        res.check(good, "SV-DISPOSE", key0 + "|body", where(SV, lp, name), f"{name}: loop body must drop slot {ivar} exactly once, unconditionally")
        res.evaluations += 1
        # anything between the discriminant test and the loop may only be the needs_drop::<T>() short-cut
        guards = []
        for n in walk_t(body, "If"):
            if any(x is lp for x in walk(n["then"])) and not disc_test(n["cond"]):
                guards.append(ast.src1(SV, n["cond"]).replace(" ", ""))
        res.check(all(g in ("mem::needs_drop::<T>()", "needs_drop::<T>()", "std::mem::needs_drop::<T>()") for g in guards),
                  "SV-DISPOSE", key0 + "|guard", w, f"{name}: the drop loop is skipped under {guards}; only needs_drop::<T>() is an accepted short-cut")
        if name == "clear":
            # size = 0 on the inline path, outside the needs_drop guard
            assigns = [n for n in walk_t(body, "Assign") if size_of(n["left"]) == "self"]
            inguard = False
            for n in walk_t(body, "If"):
                if not disc_test(n["cond"]) and any(a is x for a in assigns for x in walk(n["then"])):
                    inguard = True
            res.check(len(assigns) == 1 and int_lit(assigns[0]["right"]) == 0 and not inguard and before(lp, assigns[0]),
                      "SV-DISPOSE", key0 + "|reset", w, "clear: `self.size = 0` must follow the drop loop unconditionally on the inline path")


def payload_in(loop):
    for n in walk(loop):
        if n.get("t") == "Field" and n["member"] == "arr" and payload(n):
            return True
    return False


# ----------------------------------------------------------------------------- SV-ITER / SV-NODOUBLE

def run_iter(res, ast):
    res.rule("SV-ITER", "every function that destructures SmallVecIntoIter::Small(arr, i, size) either leaves the "
             "cursor alone, or advances it by exactly one after moving slot i out, or (Drop) drops exactly arr[i..size]",
             floor=3, what="iterator paths")
    res.rule("SV-NODOUBLE", "into_iter wraps self in ManuallyDrop before reading the payload and seeds the iterator "
             "with (0, size); push_promote moves all N slots out and replaces *me with ptr::write",
             floor=4, what="ownership transfer obligations")
    fns = [f for f in ast.find_fns(SV) if not is_test_item(f) and f["node"].get("body")]
    seen = 0
    for f in fns:
        body = f["node"]["body"]
        arms = []
        for m in walk_t(body, "Match"):
            for a in m["arms"]:
                p = a["pat"]
                if p["t"] == "PTupleStruct" and p["path"]["name"].split("::")[-1] == "Small" and "IntoIter" in (f["container"] + p["path"]["name"]):
                    arms.append(a)
        # the same destructuring written as `if let Small(..) = self { .. }` / `while let`
        for i_ in walk_t(body, "If", "While"):
            c_ = strip_paren(i_["cond"])
            if c_["t"] == "Let" and c_["pat"]["t"] == "PTupleStruct" and c_["pat"]["path"]["name"].split("::")[-1] == "Small" and \
                    "IntoIter" in (f["container"] + c_["pat"]["path"]["name"]):
                blk = i_["then"] if i_["t"] == "If" else i_["body"]
                arms.append({"pat": c_["pat"], "body": {"t": "BlockExpr", "block": blk, "label": None, "sp": blk["sp"]}, "sp": i_["sp"], "guard": None})
        for a in arms:
            seen += 1
            names = [e.get("name") if e["t"] == "PIdent" else ("_" if e["t"] == "PWild" else None) for e in a["pat"]["elems"]]
            if len(names) != 3 or None in names:
                res.bad("SV-ITER", f"{SV}|{f['container']}::{f['name']}|pattern", where(SV, a, f["name"]),
                        "Small(..) destructured with a pattern the rule does not model (fail closed)")
                continue
            arr, cur, size = names
            w = where(SV, a, f"{f['container']}::{f['name']}")
            is_drop = f["name"] == "drop"
            loops = list(walk_t(a["body"], "ForLoop", "While", "Loop"))
            if is_drop:
                good = False
                why = "expected `for elem in &mut arr[*i as usize..*size as usize] { elem.assume_init_drop() }`"
                if len(loops) == 1 and loops[0]["t"] == "ForLoop":
                    it = unwrap(loops[0]["expr"])
                    if it["t"] == "Index" and unwrap(it["expr"])["t"] == "PathExpr" and unwrap(it["expr"])["path"]["name"] == arr:
                        r = strip_paren(it["index"])
                        if r["t"] == "PathExpr":
                            # the range was given a name just before the loop
                            defs_ = [l_ for l_ in walk_t(a["body"], "Local") if l_["pat"]["t"] == "PIdent" and l_["pat"]["name"] == r["path"]["name"]
                                     and not l_["pat"]["mut"] and l_.get("init") is not None and strip_paren(l_["init"])["t"] == "Range"]
                            if len(defs_) == 1 and before(defs_[0], loops[0]):
                                r = strip_paren(defs_[0]["init"])
                        if r["t"] == "Range" and not r["closed"] and r.get("start") is not None and r.get("end") is not None and idx_name(r["start"]) == cur and idx_name(r["end"]) == size:
                            ev = loops[0]["pat"].get("name")
                            ps = block_paths(loops[0]["body"])
                            if len(ps) == 1:
                                acts = events_of(ast, ps[0][1])
                                good = [(x[0], x[1]) for x in acts] == [("assume_init_drop@elem", ev)]
                res.check(good, "SV-ITER", f"{SV}|{f['container']}::{f['name']}|drop-range", w, f"{f['name']}: {why}")
                continue
            if loops:
                res.bad("SV-ITER", f"{SV}|{f['container']}::{f['name']}|loop", w, f"{f['name']}: loop over the iterator state is not modelled (fail closed)")
                continue
            for conds, ev, term in block_paths({"stmts": [{"t": "ExprStmt", "expr": a["body"], "semi": False, "sp": a["sp"]}]}):
                acts = []
                for kind, n in ev:
                    tgt = n["init"] if kind == "let" and n["init"] is not None else n
                    for x in walk(tgt):
                        t = x.get("t")
                        if t == "MethodCall" and x["method"] in ("assume_init_read", "assume_init_drop"):
                            s = unwrap(x["receiver"])
                            if s["t"] == "Index" and unwrap(s["expr"])["t"] == "PathExpr" and unwrap(s["expr"])["path"]["name"] == arr:
                                acts.append((x["method"], idx_name(s["index"])))
                        if t == "Binary" and x["op"].endswith("=") and x["op"] not in ("==", "!=", "<=", ">=") and idx_name(x["left"]) == cur:
                            acts.append(("cur" + x["op"], int_lit(x["right"])))
                        if t == "Assign" and idx_name(x["left"]) == cur:
                            acts.append(("cur=", None))
                ct = cond_text(ast, conds)
                def bounds_test(c):
                    if c[0] != "if":
                        return False
                    t_ = ast.src1(SV, c[1]).replace(" ", "").replace("*", "").replace("(", "").replace(")", "")
                    lt = (f"{cur}<{size}", f"{size}>{cur}")          # true on the taken side
                    ge = (f"{cur}>={size}", f"{size}<={cur}")        # true on the not-taken side
                    return (c[2] and t_ in lt) or ((not c[2]) and t_ in ge)
                in_bounds = any(bounds_test(c) for c in conds)
                key = f"{SV}|{f['container']}::{f['name']}|path|{ct}"
                res.evaluations += 1
                if not acts:
                    res.ok("SV-ITER", key, w, "cursor untouched")
                elif acts == [("assume_init_read", cur), ("cur+=", 1)] and in_bounds:
                    res.ok("SV-ITER", key, w, "slot i moved out, cursor advanced by one")
                else:
                    res.bad("SV-ITER", key, w, f"{f['name']}: on path [{ct}] the iterator state changes as {acts} "
                            f"(bounds test i < size established: {in_bounds}); every advanced slot must be moved out exactly once")
    if seen == 0:
        res.bad("SV-ITER", f"{SV}|no-sites", SV, "no function destructures SmallVecIntoIter::Small (anchor missing)")
    # ---- SV-NODOUBLE
    try:
        f = [x for x in fns if x["name"] == "into_iter" and "IntoIterator for SmallVec" in x["container"]]
        if len(f) != 1:
            raise Missing("into_iter of `impl IntoIterator for SmallVec`")
        f = f[0]
        st = f["node"]["body"]["stmts"]
        w = where(SV, f["node"], "into_iter")
        first = st[0] if st else None
        okmd = (first is not None and first["t"] == "Local" and first["init"] is not None and
                strip_paren(first["init"])["t"] == "Call" and path_name(strip_paren(first["init"])["func"]) == "ManuallyDrop::new"
                and path_name(strip_paren(first["init"])["args"][0]) == "self")
        res.check(okmd, "SV-NODOUBLE", f"{SV}|into_iter|manuallydrop", w, "into_iter: `self` must be wrapped in ManuallyDrop::new as the first statement, before any payload read")
        me = first["pat"]["name"] if okmd else "me"
        uses_self = [n for n in walk_t({"s": st[1:]}, "PathExpr") if n["path"]["name"] == "self"]
        res.check(not uses_self, "SV-NODOUBLE", f"{SV}|into_iter|no-self", w, "into_iter: `self` is used after being moved into ManuallyDrop")
        ctor = [c for c in walk_t(f["node"]["body"], "Call") if path_name(strip_paren(c["func"])) == "SmallVecIntoIter::Small"]
        okc = len(ctor) == 1 and len(ctor[0]["args"]) == 3 and int_lit(ctor[0]["args"][1]) == 0 and size_of(ctor[0]["args"][2]) == me
        res.check(okc, "SV-NODOUBLE", f"{SV}|into_iter|seed", w, "into_iter: the by-value iterator must start as Small(<array>, 0, me.size)")
    except Missing as m:
        res.missing("SV-NODOUBLE", m)
    try:
        f = [x for x in fns if x["name"] == "push_promote"]
        if len(f) != 1:
            raise Missing("push_promote")
        f = f[0]
        w = where(SV, f["node"], "push_promote")
        body = f["node"]["body"]
        loops = [l for l in walk_t(body, "ForLoop")]
        good = False
        if len(loops) == 1:
            it = unwrap(loops[0]["expr"])
            p = payload(it)
            ev = loops[0]["pat"].get("name")
            reads = [m for m in walk_t(loops[0]["body"], "MethodCall") if m["method"] == "assume_init_read" and
                     unwrap(m["receiver"])["t"] == "PathExpr" and unwrap(m["receiver"])["path"]["name"] == ev]
            pushes = [m for m in walk_t(loops[0]["body"], "MethodCall") if m["method"] == "push"]
            ps = block_paths(loops[0]["body"])
            good = bool(p) and p[0] == "arr" and len(reads) == 1 and len(pushes) == 1 and len(ps) == 1
        res.check(good, "SV-NODOUBLE", f"{SV}|push_promote|move-all", w, "push_promote: every slot of the full inline array must be moved (assume_init_read) into the new Vec exactly once")
        wr = [m for m in walk_t(body, "MethodCall") if m["method"] == "write" and strip_paren(m["receiver"])["t"] == "Call"
              and path_name(strip_paren(m["receiver"])["func"]) in ("ptr::from_mut", "std::ptr::from_mut")]
        asg = [a for a in walk_t(body, "Assign") if unwrap(a["left"])["t"] == "PathExpr"]
        res.check(len(wr) == 1 and not asg, "SV-NODOUBLE", f"{SV}|push_promote|ptr-write", w,
                  "push_promote: *me must be replaced with ptr::write (a plain assignment would drop the moved-from array)")
    except Missing as m:
        res.missing("SV-NODOUBLE", m)


def run_dedup_cmp(res, ast):
    """SV-DEDUP: the inline compaction loop of dedup keeps an element iff it differs from the *last kept* one.  The slots compared by the test that
    decides keep / drop are evaluated as polynomials over the loop index and the running size: they must be {i, size - 1}.  (Comparing with any
    other slot gives a different result than Vec::dedup for some input.)"""
    from rusteval import Poly
    res.rule("SV-DEDUP", "SmallVec::dedup, inline representation: the keep/drop test compares slot i (the loop index) with slot size - 1 (the last element kept so far)",
             floor=1, what="tests")
    fn = ast.fn(SV, "dedup")["node"]
    w = where(SV, fn, "dedup")
    loops = [l for l in walk_t(fn["body"], "ForLoop") if l["pat"]["t"] == "PIdent"]
    if len(loops) != 1:
        res.bad("SV-DEDUP", f"{SV}|dedup|loop", w, f"expected one per-slot loop in dedup, found {len(loops)}")
        return
    loop = loops[0]
    iv = loop["pat"]["name"]

    def ev(e, env):
        e = strip_paren(e)
        t = e["t"]
        if t == "Lit" and e.get("kind") == "int":
            return Poly.const(int(e["digits"]))
        if t == "Cast":
            return ev(e["expr"], env)
        if t == "PathExpr":
            n = e["path"]["name"]
            if n in env:
                return env[n]
            return Poly.var(n)
        if t == "Field" and e["member"] == "size":
            return Poly.var("size")
        if t == "Binary" and e["op"] in ("+", "-"):
            a, b = ev(e["left"], env), ev(e["right"], env)
            return a + b if e["op"] == "+" else a - b
        if t == "MethodCall" and e["method"] in ("wrapping_sub", "wrapping_add", "saturating_sub") and len(e["args"]) == 1:
            a, b = ev(e["receiver"], env), ev(e["args"][0], env)
            return a - b if "sub" in e["method"] else a + b
        raise ValueError(ast.src1(SV, e))
    env = {iv: Poly.var("i")}
    test = None
    try:
        for st in loop["body"]["stmts"]:
            if st["t"] == "Local" and st["pat"]["t"] == "PIdent" and st.get("init") is not None:
                try:
                    env[st["pat"]["name"]] = ev(st["init"], env)
                except (ValueError, KeyError, TypeError):
                    pass
                continue
            ifs = [st["expr"]] if st["t"] == "ExprStmt" and strip_paren(st["expr"])["t"] == "If" else []
            for i_ in ifs:
                c = strip_paren(strip_paren(i_)["cond"])
                while c["t"] == "Unary" and c["op"] == "!":
                    c = strip_paren(c["expr"])
                if c["t"] == "Binary" and c["op"] in ("==", "!=") and all(any(True for _ in walk_t(c[k], "Index")) for k in ("left", "right")):
                    test = c
            if test is not None:
                break
        if test is None:
            res.bad("SV-DEDUP", f"{SV}|dedup|test", where(SV, loop, "dedup"), "the comparison of two slots that decides keep / drop was not found in the loop")
            return
        idx = []
        for k in ("left", "right"):
            ix = [n_ for n_ in walk_t(test[k], "Index")]
            idx.append(ev(ix[0]["index"], env))
        want = [Poly.var("i"), Poly.var("size") - Poly.const(1)]
        ok = (idx[0] == want[0] and idx[1] == want[1]) or (idx[0] == want[1] and idx[1] == want[0])
        res.check(ok, "SV-DEDUP", f"{SV}|dedup|test", where(SV, test, "dedup"),
                  f"dedup compares slot {idx[0]} with slot {idx[1]}; it must compare the loop's slot i with the last kept slot size - 1 (as Vec::dedup does)")
    except (ValueError, KeyError, TypeError, IndexError) as u_:
        res.bad("SV-DEDUP", f"{SV}|dedup|test", where(SV, loop, "dedup"), f"cannot be analysed (fail closed): {u_}")


def run_sv(res, ast):
    res.files.add(SV)
    with res.guard("SV-DEDUP"):
        run_dedup_cmp(res, ast)
    with res.guard("SV-REPR-GUARD"):
        run_repr_guard(res, ast)
    with res.guard("SV-DISPOSE"):
        run_dispose(res, ast)
    with res.guard("SV-ITER"):
        run_iter(res, ast)
