"""GROW-BOUNDS: the placement arithmetic of Memory::make_accessible, decided by abstract interpretation.

Domain.  A state maps every integer local to a *linear form* over a few symbolic atoms (the tape fields on entry
`S = self.size`, `O = self.offset` read as a signed number, the parameters, and one fresh atom per non-linear
sub-term) together with a conjunction of linear facts `form >= 0`.  `max`, `min`, `if`-expressions, `match` arms
and floor division introduce the facts that define them; `max`/`min`/`if`/`match` split the state (trace
partitioning), so every state stays a convex polyhedron.  Entailment of an obligation `form >= 0` by a state's
facts is decided by Fourier-Motzkin elimination over the rationals (the closure operation of the polyhedral
domain; a handful of atoms and facts).  The analysis is a forward pass over the statements of the function; it
does not execute hpbf and does not enumerate inputs.

Obligations (what C09/C06 ask of growth):
  SUB     every unsigned subtraction and every `as usize` of a signed value is non-negative (no wrap / no panic);
  EARLY   where the function returns without growing, the requested range is already inside the allocation;
  RANGE   after the field updates, offset' + start >= 0 and offset' + end <= size' (the requested range is accessible);
  FIT     the old block is copied to [d, d + S) with 0 <= d and d + S <= size' (contents preserved, no overflow of the
          new block);
  SHIFT   offset' - O == d (the logical pointer moves with the contents).
Assumption (stated, not proven): additions do not overflow isize/usize - sizes are bounded by what the allocator
can hand out, far below 2^63.
"""
from fractions import Fraction as Fr
from common import strip_paren, path_name, int_lit, walk, walk_t


class Unanalysable(Exception):
    pass


# --------------------------------------------------------------------------- linear forms

class Lin:
    __slots__ = ("c", "k")

    def __init__(self, k=0, c=None):
        self.k = Fr(k)
        self.c = {a: Fr(v) for a, v in (c or {}).items() if v != 0}

    @staticmethod
    def atom(a):
        return Lin(0, {a: 1})

    def __add__(self, o):
        o = o if isinstance(o, Lin) else Lin(o)
        c = dict(self.c)
        for a, v in o.c.items():
            c[a] = c.get(a, 0) + v
        return Lin(self.k + o.k, c)

    def __neg__(self):
        return Lin(-self.k, {a: -v for a, v in self.c.items()})

    def __sub__(self, o):
        o = o if isinstance(o, Lin) else Lin(o)
        return self + (-o)

    def scale(self, f):
        return Lin(self.k * f, {a: v * f for a, v in self.c.items()})

    def is_const(self):
        return not self.c

    def __repr__(self):
        parts = [f"{v}*{a}" if v != 1 else a for a, v in sorted(self.c.items())]
        if self.k != 0 or not parts:
            parts.append(str(self.k))
        return " + ".join(parts)


def _norm(r, s):
    """scale a row so that its first non-zero coefficient is +-1: duplicates become identical"""
    if not r.c:
        return (r.k, (), s)
    a0 = sorted(r.c)[0]
    f = abs(r.c[a0])
    return (r.k / f, tuple((a, v / f) for a, v in sorted(r.c.items())), s)


def fm_entails(facts, goal, strict=False):
    """facts: list of Lin meaning `f >= 0`.  Is `goal >= 0` (or > 0) implied over the rationals?
    Checked by refutation: facts and `-goal > 0` (resp. `-goal >= 0`) must be infeasible.  Equalities (a pair f >= 0,
    -f >= 0) are eliminated by substitution first, then Fourier-Motzkin with duplicate and dominated-row removal."""
    rows = [(f, False) for f in facts] + [(-goal, not strict)]
    # --- equalities by substitution
    changed = True
    while changed:
        changed = False
        keys = {}
        for i, (r, s_) in enumerate(rows):
            if not s_ and r.c:
                keys[_norm(r, False)[:2]] = i
        for i, (r, s_) in enumerate(rows):
            if s_ or not r.c:
                continue
            neg = -r
            if _norm(neg, False)[:2] in keys:
                # r == 0: solve for one atom and substitute everywhere
                a = sorted(r.c)[0]
                expr = Lin(-r.k / r.c[a], {b: -v / r.c[a] for b, v in r.c.items() if b != a})   # a = expr
                new = []
                for r2, s2 in rows:
                    if a in r2.c:
                        coef = r2.c[a]
                        r2 = Lin(r2.k, {b: v for b, v in r2.c.items() if b != a}) + expr.scale(coef)
                    new.append((r2, s2))
                rows = new
                changed = True
                break
    def clean(rows):
        seen = {}
        for r, s_ in rows:
            if r.is_const():
                if r.k < 0 or (s_ and r.k <= 0):
                    return None
                continue
            k_, c_, _ = _norm(r, s_)
            # same direction: keep the tighter (smaller constant; strict beats non-strict at equal constant)
            if c_ in seen:
                k0, s0 = seen[c_]
                if k_ < k0 or (k_ == k0 and s_ and not s0):
                    seen[c_] = (k_, s_)
            else:
                seen[c_] = (k_, s_)
        return [(Lin(k_, dict(c_)), s_) for c_, (k_, s_) in seen.items()]
    rows = clean(rows)
    if rows is None:
        return True
    while True:
        atoms = sorted({a for r, _ in rows for a in r.c})
        if not atoms:
            break
        def cost(a):
            p_ = sum(1 for r, _ in rows if r.c.get(a, 0) > 0)
            n_ = sum(1 for r, _ in rows if r.c.get(a, 0) < 0)
            return p_ * n_ - p_ - n_
        a = min(atoms, key=cost)
        pos, neg, rest = [], [], []
        for r, s_ in rows:
            v = r.c.get(a, 0)
            (pos if v > 0 else neg if v < 0 else rest).append((r, s_))
        new = rest
        for p_, sp in pos:
            for n_, sn in neg:
                comb = p_.scale(1 / p_.c[a]) + n_.scale(1 / -n_.c[a])
                comb.c.pop(a, None)
                new.append((comb, sp or sn))
        rows = clean(new)
        if rows is None:
            return True
        if len(rows) > 6000:
            raise Unanalysable("constraint system too large")
    return False


# --------------------------------------------------------------------------- states

class State:
    def __init__(self, env=None, facts=None, ty=None, note=None):
        self.env = dict(env or {})        # local -> Lin | None (opaque)
        self.ty = dict(ty or {})          # local -> 'u' | 'i'
        self.facts = list(facts or [])    # Lin >= 0
        self.note = list(note or [])      # how the state was split (for messages)
        self.fields = {}                  # assigned tape fields: name -> Lin
        self.copy = None                  # (dest index Lin, count Lin)

    def fork(self, why=None):
        s = State(self.env, self.facts, self.ty, self.note + ([why] if why else []))
        s.fields = dict(self.fields)
        s.copy = self.copy
        return s

    def feasible(self):
        return not fm_entails(self.facts, Lin(-1))


class Grow:
    def __init__(self, ast, path, fn):
        self.ast, self.path, self.fn = ast, path, fn
        self.fresh = 0
        self.obligations = []     # (kind, key, node, ok, message)
        self.params = {}
        for p_ in fn["sig"]["inputs"]:
            if p_["t"] == "Arg" and p_["pat"]["t"] == "PIdent":
                self.params[p_["pat"]["name"]] = p_["ty"]["s"].replace(" ", "")

    def new_atom(self, hint):
        self.fresh += 1
        return f"{hint}#{self.fresh}"

    def src(self, n):
        return self.ast.src1(self.path, n, 80)

    # ---- obligations
    def require(self, kind, key, node, states_goal, msg):
        """states_goal: list of (state, Lin goal) - all must hold"""
        bad = []
        for st, goal in states_goal:
            if not fm_entails(st.facts, goal):
                bad.append(" and ".join(st.note) or "always")
        self.obligations.append((kind, key, node, not bad, msg + (f" - not established when {bad[0]}" if bad else "")))

    # ---- expressions: returns list of (state, value Lin, type)
    def ev(self, e, st):
        e = strip_paren(e)
        t = e["t"]
        if t == "Lit" and e.get("kind") == "int":
            return [(st, Lin(int(e["digits"].replace("_", ""))), None)]
        if t == "PathExpr":
            n = e["path"]["name"]
            if n in st.env:
                if st.env[n] is None:
                    raise Unanalysable(f"`{n}` is not an analysed integer")
                return [(st, st.env[n], st.ty.get(n))]
            if n.split("::")[-1].isupper() or n.startswith("Self::"):
                # an associated constant: an unknown non-negative number
                a = "const:" + n
                st2 = st.fork()
                st2.facts.append(Lin.atom(a))
                return [(st2, Lin.atom(a), "u")]
            raise Unanalysable(f"unknown name `{n}`")
        if t == "Field" and path_name(strip_paren(e["base"])) == "self":
            m = e["member"]
            if m in st.fields:
                raise Unanalysable(f"self.{m} is read after it was assigned")
            if m == "size":
                return [(st, Lin.atom("S"), "u")]
            if m == "offset":
                return [(st, Lin.atom("O"), "u")]
            raise Unanalysable(f"field self.{m}")
        if t == "Cast":
            ty = e["ty"]["s"].replace(" ", "")
            out = []
            for s1, v, vt in self.ev(e["expr"], st):
                if ty == "usize" and vt == "i":
                    self.require("SUB", f"cast|{self.src(e)}", e, [(s1, v)], f"`{self.src(e)}` reinterprets a signed value as unsigned: it must be non-negative")
                    out.append((s1, v, "u"))
                elif ty == "isize":
                    out.append((s1, v, "i"))
                elif ty == "usize":
                    out.append((s1, v, "u"))
                else:
                    raise Unanalysable(f"cast to {ty}")
            return out
        if t == "Unary" and e["op"] == "-":
            return [(s1, -v, "i") for s1, v, vt in self.ev(e["expr"], st)]
        if t == "Binary" and e["op"] in ("+", "-", "*", "/"):
            out = []
            for s1, a, ta in self.ev(e["left"], st):
                for s2, b, tb in self.ev(e["right"], s1):
                    ty = ta or tb or "u"
                    if e["op"] == "+":
                        out.append((s2, a + b, ty))
                    elif e["op"] == "-":
                        if ty == "u":
                            self.require("SUB", f"sub|{self.src(e)}", e, [(s2, a - b)], f"unsigned subtraction `{self.src(e)}` must not go below zero")
                        out.append((s2, a - b, ty))
                    elif e["op"] == "*":
                        if b.is_const():
                            out.append((s2, a.scale(b.k), ty))
                        elif a.is_const():
                            out.append((s2, b.scale(a.k), ty))
                        else:
                            raise Unanalysable("product of two variables")
                    else:
                        if not b.is_const() or b.k <= 0 or b.k.denominator != 1:
                            raise Unanalysable("division by a non-constant")
                        if not fm_entails(s2.facts, a):
                            raise Unanalysable(f"dividend of `{self.src(e)}` is not known to be non-negative")
                        q = Lin.atom(self.new_atom("div"))
                        s3 = s2.fork()
                        s3.facts += [a - q.scale(b.k), q.scale(b.k) - a + (b.k - 1), q]
                        out.append((s3, q, ty))
            return out
        if t == "MethodCall":
            m = e["method"]
            if m in ("wrapping_add", "wrapping_add_signed", "saturating_add", "checked_add") and len(e["args"]) == 1:
                if m == "checked_add":
                    raise Unanalysable("checked_add")
                return [(s2, a + b, ta or tb) for s1, a, ta in self.ev(e["receiver"], st) for s2, b, tb in self.ev(e["args"][0], s1)]
            if m in ("wrapping_sub",) and len(e["args"]) == 1:
                return [(s2, a - b, ta or tb) for s1, a, ta in self.ev(e["receiver"], st) for s2, b, tb in self.ev(e["args"][0], s1)]
            if m in ("unsigned_abs", "abs") and not e["args"]:
                out = []
                for s1, v, vt in self.ev(e["receiver"], st):
                    for sign, val, fact, why in ((1, v, v, f"{self.src(e['receiver'])} >= 0"), (-1, -v, -v - 1, f"{self.src(e['receiver'])} < 0")):
                        s2 = s1.fork(why)
                        s2.facts.append(fact)
                        if s2.feasible():
                            out.append((s2, val, "u"))
                return out
            if m in ("max", "min") and len(e["args"]) == 1:
                out = []
                for s1, a, ta in self.ev(e["receiver"], st):
                    for s2, b, tb in self.ev(e["args"][0], s1):
                        for val, fact, why in ((a, (a - b) if m == "max" else (b - a), f"{self.src(e['receiver'])} {'>=' if m == 'max' else '<='} {self.src(e['args'][0])}"),
                                               (b, (b - a) if m == "max" else (a - b), f"{self.src(e['args'][0])} {'>=' if m == 'max' else '<='} {self.src(e['receiver'])}")):
                            s3 = s2.fork(why)
                            s3.facts.append(fact)
                            if s3.feasible():
                                out.append((s3, val, ta or tb))
                return out
            raise Unanalysable(f"method .{m}()")
        if t == "Tuple":
            acc = [(st, [])]
            for x in e["elems"]:
                acc = [(s2, vs + [v]) for s1, vs in acc for s2, v, _ in self.ev(x, s1)]
            return [(s1, ("tup", vs), None) for s1, vs in acc]
        if (t == "Binary" and e["op"] in ("<", "<=", ">", ">=", "==", "!=", "&&", "||")) or (t == "Unary" and e["op"] == "!"):
            return [(s1, truth, "b") for s1, truth in self.cond(e, st)]
        if t == "Lit" and e.get("kind") == "bool":
            return [(st, bool(e["value"]), "b")]
        if t == "Return":
            if e.get("expr") is not None:
                raise Unanalysable("return with a value")
            self.ret(st, e)
            return []
        if t == "If":
            out = []
            for s1, truth in self.cond(e["cond"], st):
                blk = e["then"] if truth else e.get("else")
                if blk is None:
                    raise Unanalysable("if without else used as a value")
                out += self.ev_block(blk if truth else (blk["block"] if blk.get("t") == "BlockExpr" else blk), s1)
            return out
        if t == "BlockExpr":
            return self.ev_block(e["block"], st)
        if t == "Match":
            return self.ev_match(e, st)
        raise Unanalysable(f"expression `{self.src(e)}`")

    def ev_block(self, blk, st):
        if blk.get("t") != "Block":
            return self.ev(blk, st)
        states = [st]
        for s_ in blk["stmts"][:-1]:
            states = [x for y in states for x in self.stmt(s_, y)]
        last = blk["stmts"][-1] if blk["stmts"] else None
        if last is None or last["t"] != "ExprStmt" or last["semi"]:
            raise Unanalysable("block without a value")
        return [r for y in states for r in self.ev(last["expr"], y)]

    def ev_match(self, e, st):
        sc = strip_paren(e["expr"])
        elems = sc["elems"] if sc["t"] == "Tuple" else [sc]
        out = []
        # evaluate scrutinee components
        scr = [(st, [])]
        for x in elems:
            scr = [(s2, vs + [v]) for s1, vs in scr for s2, v, _ in self.ev(x, s1)]
        for s0, vals in scr:
            remaining = [s0]
            for arm in e["arms"]:
                pats = arm["pat"]["elems"] if arm["pat"]["t"] == "PTuple" else [arm["pat"]]
                if len(pats) != len(vals):
                    raise Unanalysable("match pattern shape")
                nxt_remaining = []
                for r in remaining:
                    # the arm is taken when every literal sub-pattern matches (and the guard holds)
                    taken = r.fork()
                    lits = []
                    mismatch = False
                    for p_, v in zip(pats, vals):
                        if p_["t"] == "PWild" or (p_["t"] == "PIdent" and p_.get("sub") is None):
                            if p_["t"] == "PIdent":
                                taken.env[p_["name"]] = v
                            continue
                        if p_["t"] == "PLit" and p_["lit"].get("kind") == "bool":
                            if not isinstance(v, bool):
                                raise Unanalysable("boolean pattern against a number")
                            if bool(p_["lit"]["value"]) != v:
                                mismatch = True
                            continue
                        if isinstance(v, bool):
                            raise Unanalysable("numeric pattern against a boolean")
                        if p_["t"] == "PLit" and p_["lit"].get("kind") == "int":
                            k = int(p_["lit"]["digits"].replace("_", ""))
                            lits.append((v, k))
                            continue
                        raise Unanalysable(f"pattern `{self.src(p_)}`")
                    if mismatch:
                        # a concrete boolean component differs: the arm is not taken in this state
                        nxt_remaining.append(r)
                        continue
                    for v, k in lits:
                        taken.facts += [v - k, Lin(k) - v]
                    taken.note.append(f"arm `{self.src(arm['pat'])}`")
                    takens = [taken]
                    not_guard = []
                    if arm.get("guard") is not None:
                        takens = []
                        for s1, truth in self.cond(arm["guard"], taken):
                            (takens if truth else not_guard).append(s1)
                    for tk in takens:
                        if tk.feasible():
                            out += self.ev(arm["body"], tk)
                    # not taken: some literal differs (values are integers: v <= k-1 or v >= k+1), or the guard failed
                    if not lits and arm.get("guard") is None:
                        continue
                    for idx, (v, k) in enumerate(lits):
                        for fact, why in ((Lin(k - 1) - v, f"{v!r} < {k}"), (v - (k + 1), f"{v!r} > {k}")):
                            s2 = r.fork(why)
                            # earlier literals of this arm matched (otherwise counted in their own split)
                            for v0, k0 in lits[:idx]:
                                s2.facts += [v0 - k0, Lin(k0) - v0]
                            s2.facts.append(fact)
                            if s2.feasible():
                                nxt_remaining.append(s2)
                    for s2 in not_guard:
                        if s2.feasible():
                            nxt_remaining.append(s2)
                remaining = nxt_remaining
                if not remaining:
                    break
            if remaining:
                raise Unanalysable("match may be non-exhaustive for the analysis")
        return out

    # ---- conditions: list of (state, truth)
    def cond(self, c, st):
        c = strip_paren(c)
        if c["t"] == "Binary" and c["op"] == "&&":
            out = []
            for s1, t1 in self.cond(c["left"], st):
                if not t1:
                    out.append((s1, False))
                else:
                    out += self.cond(c["right"], s1)
            return out
        if c["t"] == "Binary" and c["op"] == "||":
            out = []
            for s1, t1 in self.cond(c["left"], st):
                if t1:
                    out.append((s1, True))
                else:
                    out += self.cond(c["right"], s1)
            return out
        if c["t"] == "Unary" and c["op"] == "!":
            return [(s1, not t1) for s1, t1 in self.cond(c["expr"], st)]
        if c["t"] == "Binary" and c["op"] in ("<", "<=", ">", ">=", "==", "!="):
            out = []
            for s1, a, _ in self.ev(c["left"], st):
                for s2, b, _ in self.ev(c["right"], s1):
                    d = a - b
                    txt = self.src(c)
                    # integer semantics: a < b  <=>  b - a - 1 >= 0
                    alts = {"<": [([-d - 1], True), ([d], False)], "<=": [([-d], True), ([d - 1], False)],
                            ">": [([d - 1], True), ([-d], False)], ">=": [([d], True), ([-d - 1], False)],
                            "==": [([d, -d], True), ([d - 1], False), ([-d - 1], False)],
                            "!=": [([d, -d], False), ([d - 1], True), ([-d - 1], True)]}[c["op"]]
                    for facts, truth in alts:
                        s3 = s2.fork(("" if truth else "not ") + f"({txt})")
                        s3.facts += facts
                        if s3.feasible():
                            out.append((s3, truth))
            return out
        raise Unanalysable(f"condition `{self.src(c)}`")

    # ---- statements: returns list of continuing states
    def mentions_tracked(self, node, st):
        return any(n.get("t") == "PathExpr" and st.env.get(n["path"]["name"]) is not None for n in walk(node))

    def stmt(self, s_, st):
        t = s_["t"]
        if t == "Local" and s_["pat"]["t"] == "PTuple" and s_.get("init") is not None and all(p_["t"] in ("PIdent", "PWild") for p_ in s_["pat"]["elems"]):
            out = []
            for s1, v, _ in self.ev(s_["init"], st):
                if not (isinstance(v, tuple) and v[0] == "tup" and len(v[1]) == len(s_["pat"]["elems"])):
                    raise Unanalysable(f"statement `{self.src(s_)}`")
                for p_, x in zip(s_["pat"]["elems"], v[1]):
                    if p_["t"] == "PIdent":
                        s1.env[p_["name"]] = x
                        s1.ty[p_["name"]] = "u"
                out.append(s1)
            return out
        if t == "Local":
            if s_["pat"]["t"] != "PIdent" or s_.get("init") is None:
                raise Unanalysable(f"statement `{self.src(s_)}`")
            name = s_["pat"]["name"]
            try:
                res = self.ev(s_["init"], st)
            except Unanalysable as u:
                # a non-arithmetic local (layout, pointer): opaque; it must not be needed later
                if self.is_arith(s_["init"], st):
                    raise
                st.env[name] = None
                return [st]
            out = []
            for s1, v, ty in res:
                s1.env[name] = v
                s1.ty[name] = ty or "u"
                out.append(s1)
            return out
        if t == "ExprStmt":
            e = strip_paren(s_["expr"])
            if e["t"] == "If":
                return self.if_stmt(e, st)
            if e["t"] == "Assign":
                l = strip_paren(e["left"])
                if l["t"] == "Field" and path_name(strip_paren(l["base"])) == "self" and l["member"] in ("size", "offset"):
                    out = []
                    for s1, v, _ in self.ev(e["right"], st):
                        s1.fields[l["member"]] = v
                        out.append(s1)
                    # later reads of the field would see the new value: ev() refuses them
                    return out
                if l["t"] == "Field" and path_name(strip_paren(l["base"])) == "self":
                    return [st]      # buffer
                if l["t"] == "PathExpr" and st.env.get(l["path"]["name"]) is not None:
                    out = []
                    for s1, v, ty in self.ev(e["right"], st):
                        s1.env[l["path"]["name"]] = v
                        out.append(s1)
                    return out
                raise Unanalysable(f"assignment `{self.src(e)}`")
            if e["t"] == "Return":
                return self.ret(st, e)
            if e["t"] in ("Unsafe", "BlockExpr"):
                states = [st]
                for x in e["block"]["stmts"]:
                    states = [y for z in states for y in self.stmt(x, z)]
                return states
            # copies of the old block
            for m_ in walk_t(e, "MethodCall"):
                if m_["method"] in ("copy_to_nonoverlapping", "copy_to", "copy_from_nonoverlapping", "copy_from"):
                    return self.copy_call(m_, st)
            if any(a_ for a_ in walk_t(e, "Assign")) and self.mentions_tracked(e, st):
                raise Unanalysable(f"statement `{self.src(e)}`")
            return [st]
        if t in ("MacroStmt", "Item"):
            return [st]
        raise Unanalysable(f"statement kind {t}")

    def is_arith(self, e, st):
        """does the expression look like integer arithmetic over tracked values (then failing to analyse it is an error)?"""
        for n in walk(e):
            if n.get("t") == "Call":
                return False
            if n.get("t") == "MethodCall" and n["method"] in ("unwrap", "is_null", "as_ptr", "cast"):
                return False
        return self.mentions_tracked(e, st) or any(n.get("t") == "Field" and n.get("member") in ("size", "offset") for n in walk(e))

    def copy_call(self, m_, st):
        # self.buffer.copy_to_nonoverlapping(new_buffer.wrapping_add(d), count)
        if len(m_["args"]) != 2:
            raise Unanalysable("copy call shape")
        dst = strip_paren(m_["args"][0])
        if m_["method"].startswith("copy_from"):
            dst = strip_paren(m_["receiver"])
        if dst["t"] == "MethodCall" and dst["method"] in ("wrapping_add", "add", "offset", "wrapping_offset") and len(dst["args"]) == 1:
            ds = self.ev(dst["args"][0], st)
        elif dst["t"] == "PathExpr":
            ds = [(st, Lin(0), "u")]
        else:
            raise Unanalysable(f"copy destination `{self.src(dst)}`")
        out = []
        for s1, d, _ in ds:
            for s2, n, _ in self.ev(m_["args"][1], s1):
                if s2.copy is not None:
                    raise Unanalysable("more than one copy of the old block")
                s2.copy = (d, n)
                out.append(s2)
        return out

    def if_stmt(self, e, st):
        try:
            branches = self.cond(e["cond"], st)
        except Unanalysable:
            # a condition on untracked values (null test of the new buffer): neither branch may touch tracked values
            for blk in (e["then"], e.get("else")):
                if blk is not None and any(a_ for a_ in walk_t(blk, "Assign")) and False:
                    raise
            if self.is_arith(e["cond"], st):
                raise
            # analyse the then-branch for copies / field updates under no extra facts, and the skip path
            out = []
            s1 = st.fork()
            states = [s1]
            for x in e["then"]["stmts"]:
                states = [y for z in states for y in self.stmt(x, z)]
            out += states
            if e.get("else") is not None:
                eb = e["else"]["block"] if e["else"].get("t") == "BlockExpr" else None
                if eb is None:
                    raise Unanalysable("else-if on untracked values")
                states = [st.fork()]
                for x in eb["stmts"]:
                    states = [y for z in states for y in self.stmt(x, z)]
                out += states
            else:
                out.append(st)
            return out
        out = []
        for s1, truth in branches:
            blk = e["then"] if truth else e.get("else")
            if blk is None:
                out.append(s1)
                continue
            if blk.get("t") == "BlockExpr":
                blk = blk["block"]
            if blk.get("t") == "If":
                out += self.if_stmt(blk, s1)
                continue
            states = [s1]
            for x in blk["stmts"]:
                states = [y for z in states for y in self.stmt(x, z)]
            out += states
        return out

    def ret(self, st, node):
        # early return: nothing was changed, so the requested range must already be accessible
        if st.fields or st.copy:
            raise Unanalysable("return after the tape was changed")
        self.early.append((st, node))
        return []

    # ---- driver
    def run(self):
        self.early = []
        st = State()
        st.facts.append(Lin.atom("S"))           # size >= 0
        names = list(self.params)
        if len(names) != 2 or any(self.params[n] != "isize" for n in names):
            raise Unanalysable("make_accessible does not have the parameters (start: isize, end: isize)")
        for n in names:
            st.env[n] = Lin.atom("p:" + n)
            st.ty[n] = "i"
        states = [st]
        for s_ in self.fn["body"]["stmts"]:
            states = [y for z in states for y in self.stmt(s_, z)]
        start, end = Lin.atom("p:" + names[0]), Lin.atom("p:" + names[1])
        O, S = Lin.atom("O"), Lin.atom("S")
        node = self.fn
        self.require("EARLY", "early|start", node, [(s, O + start) for s, _ in self.early],
                     "where make_accessible returns without growing, offset + start must already be >= 0")
        self.require("EARLY", "early|end", node, [(s, S - O - end) for s, _ in self.early],
                     "where make_accessible returns without growing, offset + end must already be <= size")
        if not self.early:
            self.obligations.append(("EARLY", "early|exists", node, True, "no early return"))
        # a path that ends without touching the tape (an `if nothing-needed { } else { grow }` shape) is an early return as well
        for s_ in states:
            if not s_.fields and s_.copy is None:
                self.early.append((s_, node))
        grown = [s for s in states if s.fields or s.copy is not None]
        self.obligations = [o for o in self.obligations if not o[1].startswith("early|")]
        self.require("EARLY", "early|start", node, [(s, O + start) for s, _ in self.early],
                     "where make_accessible returns without growing, offset + start must already be >= 0")
        self.require("EARLY", "early|end", node, [(s, S - O - end) for s, _ in self.early],
                     "where make_accessible returns without growing, offset + end must already be <= size")
        if not grown:
            raise Unanalysable("no path grows the tape")
        for s in grown:
            # a field that is not assigned keeps its value
            s.fields.setdefault("size", S)
            s.fields.setdefault("offset", O)
        self.require("RANGE", "range|start", node, [(s, s.fields["offset"] + start) for s in grown],
                     "after growing, offset' + start must be >= 0 (the first requested cell is inside the new block)")
        self.require("RANGE", "range|end", node, [(s, s.fields["size"] - s.fields["offset"] - end) for s in grown],
                     "after growing, offset' + end must be <= size' (the last requested cell is inside the new block)")
        # the copy happens only when the old block is non-empty; states without a copy must have S == 0 possible only
        withc = [s for s in grown if s.copy is not None]
        without = [s for s in grown if s.copy is None]
        self.require("FIT", "fit|copied", node, [(s, -S) for s in without],
                     "the old contents are copied whenever the old block is non-empty")
        self.require("FIT", "fit|low", node, [(s, s.copy[0]) for s in withc], "the copy destination index must be >= 0")
        self.require("FIT", "fit|high", node, [(s, s.fields["size"] - s.copy[0] - s.copy[1]) for s in withc],
                     "the copied block [d, d + count) must end inside the new block (d + count <= size')")
        self.require("FIT", "fit|count", node, [(s, g) for s in withc for g in (s.copy[1] - S, S - s.copy[1])], "the whole old block (self.size cells) must be copied")
        self.require("SHIFT", "shift", node, [(s, g) for s in withc for g in (s.fields["offset"] - O - s.copy[0], O + s.copy[0] - s.fields["offset"])],
                     "the logical pointer must move by exactly the copy displacement (offset' - offset == d)")
        return len(grown), len(self.early)


def run_grow(res, ast, rule="GROW-BOUNDS"):
    from common import where, Missing
    RUNTIME = "src/runtime.rs"
    res.rule(rule, "placement arithmetic of Memory::make_accessible, by a forward polyhedral analysis (linear forms over size/offset/start/end, "
             "state splitting at max/min/if/match, Fourier-Motzkin entailment): no unsigned subtraction underflows, an early return "
             "happens only when the range is already accessible, after growth offset'+start >= 0 and offset'+end <= size', the old block is "
             "copied whole to [d, d+size) inside the new block and the pointer moves by d", floor=8, what="arithmetic obligations")
    fs = [f for f in ast.find_fns(RUNTIME) if f["name"] == "make_accessible" and "Memory" in f["container"] and "tests" not in f["container"]]
    if len(fs) != 1:
        res.missing(rule, Missing("Memory::make_accessible"))
        return
    fn = fs[0]["node"]
    g = Grow(ast, RUNTIME, fn)
    w = where(RUNTIME, fn, "Memory::make_accessible")
    try:
        ng, ne = g.run()
    except Unanalysable as u:
        res.bad(rule, f"{RUNTIME}|make_accessible|analysable", w, f"make_accessible cannot be analysed (fail closed): {u}")
        return
    except (KeyError, TypeError, IndexError, AttributeError) as ex:
        res.bad(rule, f"{RUNTIME}|make_accessible|analysable", w, f"make_accessible cannot be analysed (fail closed): {type(ex).__name__}: {ex}")
        return
    seen = {}
    for kind, key, node, ok, msg in g.obligations:
        k = f"{RUNTIME}|make_accessible|{kind}|{key}"
        # the same source construct is evaluated in several states: all must hold
        seen[k] = (seen.get(k, (True, None, None))[0] and ok, node, msg if not ok or k not in seen or seen[k][0] else seen[k][2])
    for k, (ok, node, msg) in seen.items():
        res.check(ok, rule, k, where(RUNTIME, node, "Memory::make_accessible"), msg)
    res.evaluations += ng + ne
    res.sample({"rule": rule, "grown_states": ng, "early_return_states": ne, "obligations": len(seen)})
