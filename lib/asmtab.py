"""ASM-TABLE: every `emit_<mnemonic>_<operands>` encoder in basejit/asm.rs against a reference
x86-64 encoding table (Intel SDM vol. 2, written out below), and SEL-WIDTH: the width
helpers of codegen.rs dispatch `C::BITS` to the encoder of the same width.

Each encoder body is evaluated abstractly (rusteval) for every immediate class its own
comparisons distinguish; the result is a list of encoding events (prefix byte, REX request,
opcode bytes, ModRM request, immediate) that must equal the reference list.  The bit-level
core (`emit_rex`, `emit_modrm`) is NOT decided here.
"""
from common import *
from rusteval import *

ASM = "src/exec/basejit/asm.rs"
CODEGEN = "src/exec/basejit/codegen.rs"

REG_ORDER = ["Rax", "Rcx", "Rdx", "Rbx", "Rsp", "Rbp", "Rsi", "Rdi", "R8", "R9", "R10", "R11", "R12", "R13",
             "R14", "R15"]
JMP_CC = {"Below": 0x02, "Equal": 0x04, "NotEqual": 0x05}   # x86 condition codes B, E/Z, NE/NZ


class Sym:
    def __init__(self, name):
        self.name = name

    def __repr__(self):
        return self.name

    def __eq__(self, o):
        return isinstance(o, Sym) and o.name == self.name

    def __hash__(self):
        return hash(self.name)


class ImmA:
    """An immediate known only by the interval [lo, hi] it lies in, and its declared type."""

    def __init__(self, name, lo, hi, bits):
        self.name, self.lo, self.hi, self.bits = name, lo, hi, bits

    def __repr__(self):
        return f"{self.name}∈[{self.lo},{self.hi}]"


class RangeV:
    def __init__(self, lo, hi, closed):
        self.lo, self.hi, self.closed = lo, hi, closed


class CodeV:
    pass


class SelfA:
    pass


INT_CONSTS = {"i32::MAX": 2**31 - 1, "i32::MIN": -2**31, "u32::MAX": 2**32 - 1, "i8::MAX": 127, "i8::MIN": -128,
              "i16::MAX": 2**15 - 1, "i16::MIN": -2**15, "u8::MAX": 255, "u16::MAX": 65535}
TYBITS = {"i8": 8, "u8": 8, "i16": 16, "u16": 16, "i32": 32, "u32": 32, "i64": 64, "u64": 64}


class AsmInterp(Interp):
    def __init__(self):
        super().__init__()
        self.events = []

    def path_value(self, name, node):
        if name in INT_CONSTS:
            return INT_CONSTS[name]
        if name.startswith("Reg::") or name.startswith("JmpPred::"):
            return Sym(name)
        raise Unanalysable(f"path {name}")

    def field(self, base, member, node):
        if isinstance(base, SelfA) and member == "code":
            return CodeV()
        return super().field(base, member, node)

    def call(self, name, targs, args, node):
        if name == "RegMem::Reg":
            return ("RegMem::Reg", args[0])
        raise Unanalysable(f"call {name}")

    def cmp_imm(self, a, op, c):
        if op == "==":
            if a.lo == a.hi == c:
                return True
            if c < a.lo or c > a.hi:
                return False
        elif op == "<":
            if a.hi < c:
                return True
            if a.lo >= c:
                return False
        elif op == "<=":
            if a.hi <= c:
                return True
            if a.lo > c:
                return False
        elif op == ">":
            return not self.cmp_imm(a, "<=", c)
        elif op == ">=":
            return not self.cmp_imm(a, "<", c)
        raise Unanalysable(f"comparison {a!r} {op} {c} is not decided by the immediate class")

    def equal(self, a, b, node):
        if isinstance(a, ImmA) and isinstance(b, int):
            return self.cmp_imm(a, "==", b)
        if isinstance(b, ImmA) and isinstance(a, int):
            return self.cmp_imm(b, "==", a)
        return super().equal(a, b, node)

    def binary(self, op, l, r, node):
        if isinstance(l, ImmA) and isinstance(r, int) and op in ("<", "<=", ">", ">="):
            return self.cmp_imm(l, op, r)
        if isinstance(r, ImmA) and isinstance(l, int) and op in ("<", "<=", ">", ">="):
            return self.cmp_imm(r, {"<": ">", "<=": ">=", ">": "<", ">=": "<="}[op], l)
        if op == "+" and isinstance(l, int) and isinstance(r, tuple) and r[0] in ("enc", "cast8"):
            return ("plus", l, r)
        return super().binary(op, l, r, node)

    def cast(self, v, ty, node):
        t = ty["s"]
        if isinstance(v, ImmA):
            if t in TYBITS:
                return ("immcast", v.name, TYBITS[t], v)
        if isinstance(v, tuple) and v[0] == "immcast" and t in TYBITS:
            return ("immcast", v[1], TYBITS[t], v[3])
        if isinstance(v, Sym) and t == "u8":
            return ("cast8", v)
        if isinstance(v, int):
            return v
        raise Unanalysable(f"cast of {v!r} to {t}")

    def eval(self, e, env):
        if e["t"] == "Range":
            lo = self.eval(e["start"], env) if e["start"] else None
            hi = self.eval(e["end"], env) if e["end"] else None
            return RangeV(lo, hi, e["closed"])
        return super().eval(e, env)

    def method(self, recv, name, targs, args, node):
        if isinstance(recv, RangeV) and name == "contains":
            a = args[0]
            if isinstance(a, ImmA) and recv.lo is not None and recv.hi is not None:
                hi = recv.hi if recv.closed else recv.hi - 1
                if a.lo >= recv.lo and a.hi <= hi:
                    return True
                if a.hi < recv.lo or a.lo > hi:
                    return False
            if isinstance(a, int) and not isinstance(a, bool) and (recv.lo is None or isinstance(recv.lo, int)) and (recv.hi is None or isinstance(recv.hi, int)):
                lo_ok = recv.lo is None or a >= recv.lo
                hi_ok = recv.hi is None or (a <= recv.hi if recv.closed else a < recv.hi)
                return lo_ok and hi_ok
            raise Unanalysable("range containment not decided by the immediate class")
        if isinstance(recv, CodeV):
            if name == "push":
                self.events.append(("byte", self.norm_byte(args[0])))
                return UNIT
            if name == "extend_from_slice":
                self.events.append(("bytes", args[0]))
                return UNIT
            raise Unanalysable(f"self.code.{name}")
        if isinstance(recv, SelfA):
            if name == "emit_rex":
                self.events.append(("rex",) + tuple(args))
                return UNIT
            if name == "emit_modrm":
                self.events.append(("modrm",) + tuple(args))
                return UNIT
            if name.startswith("emit_"):
                self.events.append(("call", name) + tuple(args))
                return UNIT
            raise Unanalysable(f"self.{name}")
        if name == "to_le_bytes":
            if isinstance(recv, ImmA):
                return ("le", recv.name, recv.bits)
            if isinstance(recv, tuple) and recv[0] == "immcast":
                return ("le", recv[1], recv[2])
        if name == "enc" and isinstance(recv, Sym):
            return ("enc", recv)
        raise Unanalysable(f".{name}() on {recv!r}")

    def norm_byte(self, v):
        if isinstance(v, tuple) and v[0] == "immcast" and v[2] == 8:
            return ("imm8", v[1])
        if isinstance(v, ImmA) and v.bits == 8:
            return ("imm8", v.name)
        return v


# ----------------------------------------------------------------------------- reference table

ALU = {  # mnemonic: (digit for the immediate group, opcode rm<-r (non-byte), opcode r<-rm (non-byte))
    "add": (0, 0x01, 0x03),
    "sub": (5, 0x29, 0x2B),
    "cmp": (7, 0x39, 0x3B),
}


def parse_name(name):
    """emit_add_rm64_i32 -> ('add', [('rm',64),('i',32)])"""
    parts = name[len("emit_"):].split("_")
    mn = parts[0]
    ops = []
    for p in parts[1:]:
        for pre in ("rm", "rel", "r", "i"):
            if p.startswith(pre) and p[len(pre):].isdigit():
                ops.append((pre, int(p[len(pre):])))
                break
        else:
            ops.append((p, None))
    return mn, ops


def imm_classes(bits, literals):
    """Partition of the immediate's type range at every literal the code compares against."""
    lo, hi = -2**(bits - 1), 2**(bits - 1) - 1
    cuts = sorted({c for c in literals | {-129, -128, -2, -1, 0, 1, 2, 127, 128} if lo <= c <= hi})
    out = []
    prev = lo
    for c in cuts:
        if prev <= c - 1:
            out.append((prev, c - 1))
        out.append((c, c))
        prev = c + 1
    if prev <= hi:
        out.append((prev, hi))
    return out


def reference(name, params, cls):
    """Expected event list for encoder `name` with parameter symbols `params` (dict role->name)
    for an immediate in class `cls` (lo, hi) or None.  Returns list of alternatives (each a list)."""
    mn, ops = parse_name(name)
    P = params

    def small(c):
        return c is not None and -128 <= c[0] and c[1] <= 127

    def rex(w, byte_reg, reg, rm):
        return ("rex", w, "byte" if byte_reg else "any", reg, rm)

    def R(x):
        return Some(Sym(x))

    def pre(w):
        return [("byte", 0x66)] if w == 16 else []
    if mn in ("push", "pop") and ops == [("r", 64)]:
        base = 0x50 if mn == "push" else 0x58
        r = Sym(P["r0"])
        return [[rex(False, False, NONE, ("RegMem::Reg", r)), ("byte", ("plus", base, ("enc", r)))]]
    if mn in ALU and len(ops) == 2 and ops[0][0] == "rm" and ops[1][0] == "i":
        w = ops[0][1]
        digit = ALU[mn][0]
        rm = Sym(P["rm0"])
        alts = []
        if w == 8:
            alts.append([rex(False, False, NONE, rm), ("byte", 0x80), ("modrm", NONE, digit, rm), ("byte", ("imm8", P["i1"]))])
        elif ops[1][1] == 8:
            alts.append(pre(w) + [rex(w == 64, False, NONE, rm), ("byte", 0x83), ("modrm", NONE, digit, rm),
                                  ("byte", ("imm8", P["i1"]))])
        else:
            ib = ops[1][1]
            if small(cls):
                alts.append(pre(w) + [rex(w == 64, False, NONE, rm), ("byte", 0x83), ("modrm", NONE, digit, rm),
                                      ("byte", ("imm8", P["i1"]))])
            # the long form is always a correct encoding
            alts.append(pre(w) + [rex(w == 64, False, NONE, rm), ("byte", 0x81), ("modrm", NONE, digit, rm),
                                  ("bytes", ("le", P["i1"], ib))])
        if mn in ("add", "sub") and cls is not None and cls[0] == cls[1] and cls[0] in (1, -1):
            inc = (cls[0] == 1) == (mn == "add")
            alts.append([("call", f"emit_{'inc' if inc else 'dec'}_rm{w}", rm)])
        return alts
    if mn in ALU and len(ops) == 2 and ops[0][0] == "rm" and ops[1][0] == "r":
        w = ops[0][1]
        op = ALU[mn][1] - (1 if w == 8 else 0)
        rm, r = Sym(P["rm0"]), P["r1"]
        return [pre(w) + [rex(w == 64, w == 8, R(r), rm), ("byte", op), ("modrm", R(r), 0, rm)]]
    if mn in ALU and len(ops) == 2 and ops[0][0] == "r" and ops[1][0] == "rm":
        w = ops[0][1]
        op = ALU[mn][2] - (1 if w == 8 else 0)
        rm, r = Sym(P["rm1"]), P["r0"]
        return [pre(w) + [rex(w == 64, w == 8, R(r), rm), ("byte", op), ("modrm", R(r), 0, rm)]]
    if mn == "mul" and ops == [("r", 64), ("rm", 64), ("i", 32)]:
        rm, r = Sym(P["rm1"]), P["r0"]
        alts = []
        if small(cls):
            alts.append([rex(True, False, R(r), rm), ("byte", 0x6B), ("modrm", R(r), 0, rm), ("byte", ("imm8", P["i2"]))])
        alts.append([rex(True, False, R(r), rm), ("byte", 0x69), ("modrm", R(r), 0, rm), ("bytes", ("le", P["i2"], 32))])
        return alts
    if mn == "mul" and ops == [("r", 64), ("rm", 64)]:
        rm, r = Sym(P["rm1"]), P["r0"]
        return [[rex(True, False, R(r), rm), ("byte", 0x0F), ("byte", 0xAF), ("modrm", R(r), 0, rm)]]
    if mn in ("inc", "dec") and len(ops) == 1 and ops[0][0] == "rm":
        w = ops[0][1]
        rm = Sym(P["rm0"])
        return [pre(w) + [rex(w == 64, False, NONE, rm), ("byte", 0xFE if w == 8 else 0xFF),
                          ("modrm", NONE, 0 if mn == "inc" else 1, rm)]]
    if mn == "mov" and ops == [("r", 64), ("i", 64)]:
        r = Sym(P["r0"])
        rmr = ("RegMem::Reg", r)
        lo, hi = cls
        alts = []
        if lo >= 0 and hi <= 2**32 - 1:
            # mov r32, imm32 zero-extends
            alts.append([rex(False, False, NONE, rmr), ("byte", 0xC7), ("modrm", NONE, 0, rmr), ("bytes", ("le", P["i1"], 32))])
        if lo >= -2**31 and hi <= 2**31 - 1:
            # mov r/m64, imm32 sign-extends
            alts.append([rex(True, False, NONE, rmr), ("byte", 0xC7), ("modrm", NONE, 0, rmr), ("bytes", ("le", P["i1"], 32))])
        alts.append([rex(True, False, NONE, rmr), ("byte", ("plus", 0xB8, ("enc", r))), ("bytes", ("le", P["i1"], 64))])
        return alts
    if mn == "mov" and len(ops) == 2 and ops[0][0] == "rm" and ops[1][0] == "i":
        w = ops[0][1]
        rm = Sym(P["rm0"])
        if w == 8:
            return [[rex(False, False, NONE, rm), ("byte", 0xC6), ("modrm", NONE, 0, rm), ("byte", ("imm8", P["i1"]))]]
        ib = 16 if w == 16 else 32
        if ops[1][1] != ib:
            return None
        return [pre(w) + [rex(w == 64, False, NONE, rm), ("byte", 0xC7), ("modrm", NONE, 0, rm), ("bytes", ("le", P["i1"], ib))]]
    if mn == "mov" and len(ops) == 2 and ops[0][0] == "r" and ops[1][0] == "rm":
        if ops[0][1] != 64:
            return None
        w = ops[1][1]
        rm, r = Sym(P["rm1"]), P["r0"]
        if w == 64:
            return [[rex(True, False, R(r), rm), ("byte", 0x8B), ("modrm", R(r), 0, rm)]]
        if w == 32:   # mov r32, r/m32 zero-extends into the 64-bit register
            return [[rex(False, False, R(r), rm), ("byte", 0x8B), ("modrm", R(r), 0, rm)]]
        if w == 16:   # movzx r32, r/m16
            return [[rex(False, False, R(r), rm), ("byte", 0x0F), ("byte", 0xB7), ("modrm", R(r), 0, rm)],
                    [rex(True, False, R(r), rm), ("byte", 0x0F), ("byte", 0xB7), ("modrm", R(r), 0, rm)]]
        if w == 8:    # movzx r32, r/m8
            return [[rex(False, False, R(r), rm), ("byte", 0x0F), ("byte", 0xB6), ("modrm", R(r), 0, rm)],
                    [rex(True, False, R(r), rm), ("byte", 0x0F), ("byte", 0xB6), ("modrm", R(r), 0, rm)]]
        return None
    if mn == "mov" and len(ops) == 2 and ops[0][0] == "rm" and ops[1][0] == "r":
        w = ops[0][1]
        if ops[1][1] != w:
            return None
        rm, r = Sym(P["rm0"]), P["r1"]
        return [pre(w) + [rex(w == 64, w == 8, R(r), rm), ("byte", 0x88 if w == 8 else 0x89), ("modrm", R(r), 0, rm)]]
    if name == "emit_lea":
        rm, r = Sym(P["rm1"]), P["r0"]
        return [[rex(True, False, R(r), rm), ("byte", 0x8D), ("modrm", R(r), 0, rm)]]
    if mn == "test" and ops == [("rm", 8), ("r", 8)]:
        rm, r = Sym(P["rm0"]), P["r1"]
        return [[rex(False, True, R(r), rm), ("byte", 0x84), ("modrm", R(r), 0, rm)]]
    if name == "emit_jmp_rel8":
        return [[("byte", 0xEB), ("byte", ("imm8", P["i0"]))]]
    if name == "emit_jcc_rel8":
        return [[("byte", ("plus", 0x70, ("cast8", Sym(P["pred"])))), ("byte", ("imm8", P["i1"]))]]
    if name == "emit_jcc_rel32":
        return [[("byte", 0x0F), ("byte", ("plus", 0x80, ("cast8", Sym(P["pred"])))), ("bytes", ("le", P["i1"], 32))]]
    if name == "emit_sar_r64_i8":
        rm = Sym(P["rm0"])
        return [[rex(True, False, NONE, rm), ("byte", 0xC1), ("modrm", NONE, 7, rm), ("byte", ("imm8", P["i1"]))]]
    if name == "emit_ret":
        return [[("byte", 0xC3)]]
    if name == "emit_call_ind":
        rm = Sym(P["rm0"])
        return [[("byte", 0xFF), ("modrm", NONE, 2, rm)],
                [rex(False, False, NONE, rm), ("byte", 0xFF), ("modrm", NONE, 2, rm)]]
    return None


def events_equal(got, exp):
    if len(got) != len(exp):
        return False
    for g, e in zip(got, exp):
        if e[0] == "rex":
            if g[0] != "rex" or len(g) != 5:
                return False
            _, w, isb, reg, rm = g
            if w != e[1] or reg != e[3] or rm != e[4]:
                return False
            if e[2] == "byte" and isb is not True:
                return False
            # a redundant REX.40 on a non-byte instruction is harmless: isb may be anything there
        elif g != e:
            return False
    return True


def fmt_events(ev):
    out = []
    for e in ev:
        if e[0] == "byte" and isinstance(e[1], int):
            out.append(f"{e[1]:02x}")
        else:
            out.append(repr(e))
    return " ".join(out)


def run_asm_table(res, ast):
    res.rule("ASM-TABLE", "each emit_<mnemonic>_<operands> encoder emits prefix, REX request, opcode bytes, ModRM "
             "request and immediate exactly as the Intel SDM reference table says, for every immediate class",
             floor=59, what="encoders")
    res.files.add(ASM)
    # enum discriminants the encoders rely on
    with res.guard("ASM-TABLE"):
        reg = ast.item(ASM, "Enum", "Reg")
        names = [v["name"] for v in reg["variants"]]
        first_disc = int_lit(reg["variants"][0]["disc"]) if reg["variants"][0]["disc"] else 0
        other_disc = [v["name"] for v in reg["variants"][1:] if v["disc"] is not None]
        res.check(names == REG_ORDER and first_disc == 0 and not other_disc, "ASM-TABLE", f"{ASM}|enum Reg|order",
                  where(ASM, reg, "enum Reg"),
                  f"enum Reg must list the 16 registers in x86 encoding order starting at 0; found {names} (first = {first_disc})")
        jp = ast.item(ASM, "Enum", "JmpPred")
        got = {v["name"]: int_lit(v["disc"]) if v["disc"] else None for v in jp["variants"]}
        bad = {k: v for k, v in got.items() if JMP_CC.get(k) != v}
        res.check(not bad, "ASM-TABLE", f"{ASM}|enum JmpPred|cc", where(ASM, jp, "enum JmpPred"),
                  f"JmpPred discriminants must be the x86 condition codes {JMP_CC}; found {got}")
    fns = [f for f in ast.find_fns(ASM, container="impl CodeGen") if f["name"].startswith("emit_")
           and f["name"] not in ("emit_rex", "emit_modrm")]
    count = 0
    for f in fns:
        name = f["name"]
        node = f["node"]
        w = where(ASM, node, name)
        key = f"{ASM}|{name}"
        # parameter roles by declared type
        params = {}
        roles = []
        ok = True
        imm_bits = None
        for i, p in enumerate([p for p in node["sig"]["inputs"] if p["t"] == "Arg"]):
            ty = p["ty"]["s"]
            pn = p["pat"]["name"] if p["pat"]["t"] == "PIdent" else None
            if pn is None:
                ok = False
                break
            if ty == "Reg":
                params[f"r{i}"] = pn
                roles.append(("r", pn))
            elif ty == "RegMem":
                params[f"rm{i}"] = pn
                roles.append(("rm", pn))
            elif ty == "JmpPred":
                params["pred"] = pn
                roles.append(("pred", pn))
            elif ty in TYBITS:
                params[f"i{i}"] = pn
                roles.append(("i", pn))
                imm_bits = TYBITS[ty]
            else:
                ok = False
        if not ok:
            res.bad("ASM-TABLE", key, w, f"{name}: parameter list not understood (fail closed)")
            continue
        # declared operand kinds must agree with the name (the name is what codegen.rs relies on)
        mn, ops = parse_name(name)
        literals = set()
        for b in walk(node["body"]):
            v = int_lit(b) if b.get("t") in ("Lit", "Unary") else None
            if v is not None:
                literals.add(v)
            if b.get("t") == "PathExpr" and b["path"]["name"] in INT_CONSTS:
                literals.add(INT_CONSTS[b["path"]["name"]])
        classes = imm_classes(imm_bits, literals) if imm_bits else [None]
        nclass = 0
        allok = True
        for cls in classes:
            exp = reference(name, params, cls)
            if exp is None:
                res.bad("ASM-TABLE", key, w, f"{name}: no entry in the reference encoding table for this "
                        f"mnemonic/operand form (fail closed)")
                allok = False
                break
            it = AsmInterp()
            env = Env()
            env.bind("self", SelfA())
            for role, pn in roles:
                if role == "i":
                    env.bind(pn, ImmA(pn, cls[0], cls[1], imm_bits))
                else:
                    env.bind(pn, Sym(pn))
            try:
                try:
                    it.exec_block(node["body"], env)
                except ReturnEx:
                    pass
            except (Unanalysable, Reached) as u:
                res.bad("ASM-TABLE", key, w, f"{name}: body cannot be analysed for immediate class {cls} (fail closed): {u}")
                allok = False
                break
            res.evaluations += 1
            nclass += 1
            if not any(events_equal(it.events, e) for e in exp):
                res.bad("ASM-TABLE", key, w,
                        f"{name} with immediate in {cls}: emits [{fmt_events(it.events)}], reference allows "
                        + " | ".join("[" + fmt_events(e) + "]" for e in exp))
                allok = False
                break
        if allok:
            res.ok("ASM-TABLE", key, w, f"{nclass} immediate classes")
            count += 1
            if len(res.samples) < 30 and name in ("emit_add_rm16_i16", "emit_mov_r64_i64", "emit_mov_r64_rm8"):
                res.sample({"rule": "ASM-TABLE", "encoder": name, "immediate_classes": nclass,
                            "reference": [fmt_events(e) for e in reference(name, params, classes[len(classes) // 2])]})
    return {"encoders": len(fns), "encoders_ok": count}


# ----------------------------------------------------------------------------- SEL-WIDTH

# helper -> (emitter name template, argument template); {w} = cell width, {i} = immediate width min(w,32)
WIDTH_HELPERS = {
    "emit_store_reg": ("emit_mov_rm{w}_r{w}", ("mem", "p1")),
    "emit_store_i32": ("emit_mov_rm{w}_i{i}", ("mem", "imm1")),
    "emit_add_reg": ("emit_add_rm{w}_r{w}", ("mem", "p1")),
    "emit_add_to_reg": ("emit_add_r{w}_rm{w}", ("p1", "mem")),
    "emit_add_i32": ("emit_add_rm{w}_i{i}", ("mem", "imm1")),
    "emit_sub_reg": ("emit_sub_rm{w}_r{w}", ("mem", "p1")),
    "emit_sub_to_reg": ("emit_sub_r{w}_rm{w}", ("p1", "mem")),
    "emit_load": ("emit_mov_r64_rm{w}", ("p1", "mem")),
    "emit_cmp_zero": ("emit_cmp_rm{w}_i8", ("mem", "zero")),
}


def bits_match(fn):
    """The single `match C::BITS {..}` that is the body of a width helper."""
    st = fn["body"]["stmts"]
    if len(st) != 1 or st[0]["t"] != "ExprStmt" or st[0]["expr"]["t"] != "Match":
        raise Missing(f"{fn['name']}: body is no longer a single `match C::BITS`")
    m = st[0]["expr"]
    if path_name(strip_paren(m["expr"])) != "C::BITS":
        raise Missing(f"{fn['name']}: does not match on C::BITS")
    arms = {}
    default = None
    for a in m["arms"]:
        if a["pat"]["t"] == "PLit":
            arms[int(a["pat"]["lit"]["digits"])] = a
        elif a["pat"]["t"] == "PWild":
            default = a
        else:
            raise Missing(f"{fn['name']}: unexpected arm pattern")
    return arms, default


def run_sel_width(res, ast):
    res.rule("SEL-WIDTH", "each width helper of codegen.rs dispatches C::BITS in {8,16,32,64} to the encoder that "
             "carries the same width in the memory-operand position, with the tape operand and the register in "
             "the right argument positions; mem_param scales the index by BITS/8", floor=40, what="(helper, width) pairs")
    res.files.add(CODEGEN)
    for h, (tmpl, argt) in WIDTH_HELPERS.items():
        try:
            f = ast.fn(CODEGEN, h, container="impl CodeGen")
            fn = f["node"]
            arms, default = bits_match(fn)
            pnames = [p["pat"]["name"] for p in fn["sig"]["inputs"] if p["t"] == "Arg"]
        except Missing as m:
            res.missing("SEL-WIDTH", m)
            continue
        for w in (8, 16, 32, 64):
            key = f"{CODEGEN}|{h}|{w}"
            if w not in arms:
                res.bad("SEL-WIDTH", key, where(CODEGEN, fn, h), f"{h}: no arm for cell width {w}")
                continue
            a = arms[w]
            body = strip_paren(a["body"])
            wh = where(CODEGEN, a, h)
            want = tmpl.format(w=w, i=min(w, 32))
            if body["t"] != "MethodCall" or path_name(body["receiver"]) != "self":
                res.bad("SEL-WIDTH", key, wh, f"{h}: arm {w} is not a single self.emit_* call")
                continue
            problems = []
            if body["method"] != want:
                problems.append(f"calls {body['method']}, expected {want}")
            if len(body["args"]) != len(argt):
                problems.append("argument count")
            else:
                for arg, role in zip(body["args"], argt):
                    arg = strip_paren(arg)
                    if role == "mem":
                        okm = (arg["t"] == "MethodCall" and arg["method"] == "mem_param"
                               and path_name(arg["receiver"]) == "self" and len(arg["args"]) == 1
                               and path_name(arg["args"][0]) == pnames[0]
                               and arg["turbofish"] and arg["turbofish"][0]["s"] == "C")
                        if not okm:
                            problems.append(f"memory operand is `{ast.src1(CODEGEN, arg)}`, expected self.mem_param::<C>({pnames[0]})")
                    elif role == "p1":
                        if path_name(arg) != pnames[1]:
                            problems.append(f"register operand is `{ast.src1(CODEGEN, arg)}`, expected {pnames[1]}")
                    elif role == "imm1":
                        iw = min(w, 32)
                        good = path_name(arg) == pnames[1] if iw == 32 else (
                            arg["t"] == "Cast" and path_name(strip_paren(arg["expr"])) == pnames[1] and arg["ty"]["s"] == f"i{iw}")
                        if not good:
                            problems.append(f"immediate operand is `{ast.src1(CODEGEN, arg)}`, expected {pnames[1]}"
                                            + (f" as i{iw}" if iw != 32 else ""))
                    elif role == "zero":
                        if int_lit(arg) != 0:
                            problems.append("comparison constant is not 0")
            res.check(not problems, "SEL-WIDTH", key, wh, f"{h} width {w}: " + "; ".join(problems))
        dk = f"{CODEGEN}|{h}|default"
        isun = default is not None and any(m.get("name") in ("unimplemented", "panic", "unreachable")
                                           for m in walk_t(default["body"], "Macro"))
        res.check(isun, "SEL-WIDTH", dk, where(CODEGEN, fn, h), f"{h}: other widths must be rejected (unimplemented!)")
    # mem_param: evaluated for each width with a symbolic index
    try:
        from rusteval import Interp as _I, Env as _E, Unanalysable as _U, Reached as _R, ReturnEx as _Ret, Poly as _P, Opt as _O, Some as _S, NONE as _N
        f = ast.fn(CODEGEN, "mem_param", container="impl CodeGen")
        fn = f["node"]
        pn = [p["pat"]["name"] for p in fn["sig"]["inputs"] if p["t"] == "Arg"][0]

        class MP(_I):
            def __init__(self, w):
                super().__init__()
                self.w = w

            def path_value(self, name, node):
                if name == "C::BITS":
                    return self.w
                raise _U(f"path {name}")

            def call(self, name, targs, args, node):
                if name == "Reg::mem":
                    return ("reg", "mem")
                if name == "RegMem::Mem" and len(args) == 4:
                    return ("Mem",) + tuple(args)
                if name in ("mem::size_of", "std::mem::size_of", "size_of"):
                    return self.w // 8
                raise _U(f"call {name}")

            def cast(self, v, ty, node):
                return v

            def lit(self, l):
                v = super().lit(l)
                return v

            def binary(self, op, l, r, node):
                if op == "*" and isinstance(l, _P) and isinstance(r, int):
                    return l * _P.const(r)
                if op == "*" and isinstance(r, _P) and isinstance(l, int):
                    return r * _P.const(l)
                if op == "/" and isinstance(l, int) and isinstance(r, int) and r:
                    return l // r
                return super().binary(op, l, r, node)

            def eval(self, e, env):
                if e.get("t") == "PathExpr" and e["path"]["name"] == "self":
                    return "self"
                return super().eval(e, env)
        for w in (8, 16, 32, 64):
            key = f"{CODEGEN}|mem_param|{w}"
            wh = where(CODEGEN, fn, "mem_param")
            it = MP(w)
            env = _E()
            env.bind(pn, _P.var("idx"))
            try:
                try:
                    v = it.exec_block(fn["body"], env)
                except _Ret as r_:
                    v = r_.value
                good = isinstance(v, tuple) and v[0] == "Mem" and v[1] == _S(("reg", "mem")) and v[2] == _N and v[3] == 1 and v[4] == _P.var("idx") * _P.const(w // 8)
                why = f"it is {v!r}"
            except (_U, _R, KeyError, TypeError) as u_:
                good, why = False, f"cannot be analysed (fail closed): {u_}"
            res.evaluations += 1
            res.check(good, "SEL-WIDTH", key, wh, f"mem_param width {w}: the operand must be [Reg::mem() + {w // 8} * {pn}] without index register; {why}")
        for w in (4, 128):
            it = MP(w)
            env = _E()
            env.bind(pn, _P.var("idx"))
            try:
                it.exec_block(fn["body"], env)
                rej = False
            except _R:
                rej = True
            except (_U, _Ret, KeyError, TypeError):
                rej = False
            res.check(rej, "SEL-WIDTH", f"{CODEGEN}|mem_param|other-{w}", where(CODEGEN, fn, "mem_param"), "mem_param: other widths must be rejected (unimplemented!)")
    except Missing as m:
        res.missing("SEL-WIDTH", m)
