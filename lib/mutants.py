"""Positive controls: seeded single edits applied to a scratch copy of /repo (outside /repo and
/verif, removed afterwards); the named rule must report each one.  Used by the thorough tier and
by `./tools/run_mutants`."""
import json, os, shutil, subprocess, sys, tempfile

VERIF = os.path.dirname(os.path.dirname(os.path.abspath(__file__)))
REPO = os.environ.get("HPBF_REPO", "/repo")


def load(prop=None):
    with open(os.path.join(VERIF, "mutants", "catalogue.json")) as fh:
        cat = json.load(fh)["mutants"]
    return [m for m in cat if prop is None or prop in m["props"]]


def scratch_copy():
    d = tempfile.mkdtemp(prefix="hpbf-mut-", dir=os.environ.get("HPBF_SCRATCH", "/tmp"))
    for name in ("src", "Cargo.toml", "Cargo.lock", "benches", "examples"):
        s = os.path.join(REPO, name)
        if os.path.isdir(s):
            shutil.copytree(s, os.path.join(d, name))
        elif os.path.exists(s):
            shutil.copy(s, os.path.join(d, name))
    return d


def apply(d, m):
    if "edits" in m:
        # several (file, old, new[, count]) replacements making up one change
        import re
        for e in m["edits"]:
            if len(e) > 3 and e[3] == "re":
                pth = os.path.join(d, e[0])
                txt = open(pth).read()
                txt2, n = re.subn(e[1], e[2], txt)
                if n == 0:
                    return f"regex {e[1]!r} matches nothing in {e[0]} (the catalogue entry is stale)"
                open(pth, "w").write(txt2)
                continue
            err = apply(d, {"file": e[0], "old": e[1], "new": e[2], "count": e[3] if len(e) > 3 else 1, "all": True})
            if err:
                return err
        return None
    p = os.path.join(d, m["file"])
    with open(p) as fh:
        s = fh.read()
    n = s.count(m["old"])
    want = m.get("count", 1)
    if n != want:
        return f"pattern occurs {n} times, expected {want} (the catalogue entry is stale)"
    if m.get("which") is not None:
        parts = s.split(m["old"])
        k = m["which"]
        s = m["old"].join(parts[:k + 1]) + m["new"] + m["old"].join(parts[k + 1:])
    else:
        s = s.replace(m["old"], m["new"])
    with open(p, "w") as fh:
        fh.write(s)
    return None


def run_one(m, prop, tier="quick"):
    d = scratch_copy()
    try:
        err = apply(d, m)
        if err:
            return {"id": m["id"], "status": "stale", "detail": err}
        env = dict(os.environ, HPBF_REPO=d, HPBF_NO_EVIDENCE="1", HPBF_NO_CONTROLS="1")
        p = subprocess.run([os.path.join(VERIF, "check"), prop, "--tier", tier], env=env, capture_output=True, text=True)
        fired = [l for l in p.stdout.splitlines() if l.strip().startswith("violation [")]
        rules = sorted({l.split("[", 1)[1].split("]", 1)[0] for l in fired})
        if m.get("neutral"):
            # behaviour-preserving variant: the check must stay silent
            ok = p.returncode == 0 and not fired
            return {"id": m["id"], "status": "killed" if ok else "missed", "neutral": True, "rules_fired": rules,
                    "expected": [], "first": fired[0].strip()[:300] if fired else "silent, as required"}
        ok = p.returncode == 1 and any(r in m["rules"] for r in rules)
        return {"id": m["id"], "status": "killed" if ok else "missed", "rules_fired": rules, "expected": m["rules"],
                "first": fired[0].strip()[:300] if fired else ""}
    finally:
        shutil.rmtree(d, ignore_errors=True)


def run_seed(seed_dir, prop):
    """A seeded change from /verif/seeded applied to a scratch copy: the property's check must report it
    iff meta.json records it as detected."""
    meta = json.load(open(os.path.join(seed_dir, "meta.json")))
    d = scratch_copy()
    try:
        p = subprocess.run(["patch", "-p1", "-s", "-i", os.path.join(seed_dir, "patch.diff")], cwd=d, capture_output=True, text=True)
        if p.returncode != 0:
            return {"id": "seed:" + meta["id"], "status": "stale", "detail": "patch no longer applies"}
        env = dict(os.environ, HPBF_REPO=d, HPBF_NO_EVIDENCE="1", HPBF_NO_CONTROLS="1")
        q = subprocess.run([os.path.join(VERIF, "check"), prop, "--tier", "quick"], env=env, capture_output=True, text=True)
        fired = [l for l in q.stdout.splitlines() if l.strip().startswith("violation [")]
        rules = sorted({l.split("[", 1)[1].split("]", 1)[0] for l in fired})
        want = bool(meta.get("detected"))
        if want:
            st = "killed" if (q.returncode == 1 and fired) else "missed"
        else:
            st = "undetected-as-documented" if not fired else "killed"
        return {"id": "seed:" + meta["id"], "status": st, "rules_fired": rules, "expected": sorted(meta.get("detected_by", {}).get(prop, {}).get("rules", [])),
                "first": fired[0].strip()[:240] if fired else ""}
    finally:
        shutil.rmtree(d, ignore_errors=True)


def seeds_for(prop):
    import glob
    out = []
    for d in sorted(glob.glob(os.path.join(VERIF, "seeded", "*"))):
        mf = os.path.join(d, "meta.json")
        if os.path.exists(mf) and json.load(open(mf)).get("breaks_property") == prop:
            out.append(d)
    return out


def neutrals_for(files):
    """behaviour-preserving refactorings (written by independent agents, each confirmed to keep the test suite green) that touch
    a file this property's rules analyse"""
    import glob
    out = []
    for pf in sorted(glob.glob(os.path.join(VERIF, "neutral", "*", "*", "patch.diff"))):
        touched = {l[6:].strip() for l in open(pf) if l.startswith("+++ b/")}
        if files is None or touched & set(files):
            out.append(os.path.dirname(pf))
    return out


def run_neutral(ndir, prop):
    nid = "neutral:" + "/".join(ndir.split(os.sep)[-2:])
    d = scratch_copy()
    try:
        p = subprocess.run(["patch", "-p1", "-s", "-i", os.path.join(ndir, "patch.diff")], cwd=d, capture_output=True, text=True)
        if p.returncode != 0:
            return {"id": nid, "status": "stale", "neutral": True, "detail": "patch no longer applies"}
        env = dict(os.environ, HPBF_REPO=d, HPBF_NO_EVIDENCE="1", HPBF_NO_CONTROLS="1")
        q = subprocess.run([os.path.join(VERIF, "check"), prop, "--tier", "quick"], env=env, capture_output=True, text=True)
        fired = [l for l in q.stdout.splitlines() if l.strip().startswith("violation [")]
        rules = sorted({l.split("[", 1)[1].split("]", 1)[0] for l in fired})
        ok = q.returncode == 0 and not fired
        return {"id": nid, "status": "killed" if ok else "missed", "neutral": True, "rules_fired": rules, "expected": [],
                "first": fired[0].strip()[:300] if fired else "silent, as required"}
    finally:
        shutil.rmtree(d, ignore_errors=True)


def run_controls(prop, jobs=12, files=None):
    from concurrent.futures import ThreadPoolExecutor
    ms = load(prop)
    sd = seeds_for(prop)
    nt = neutrals_for(files)
    with ThreadPoolExecutor(max_workers=jobs) as ex:
        a = list(ex.map(lambda m: run_one(m, prop), ms))
        b = list(ex.map(lambda d: run_seed(d, prop), sd))
        c = list(ex.map(lambda d: run_neutral(d, prop), nt))
    return a + b + c


def run_all(prop, tier="quick", jobs=8):
    from concurrent.futures import ThreadPoolExecutor
    ms = load(prop)
    with ThreadPoolExecutor(max_workers=jobs) as ex:
        return list(ex.map(lambda m: run_one(m, prop, tier), ms))


if __name__ == "__main__":
    prop = sys.argv[1]
    only = sys.argv[2] if len(sys.argv) > 2 else None
    ms = [m for m in load(prop) if only is None or m["id"] == only]
    bad = 0
    from concurrent.futures import ThreadPoolExecutor
    with ThreadPoolExecutor(max_workers=8) as ex:
        for r in ex.map(lambda m: run_one(m, prop), ms):
            print(r["status"].upper(), r["id"], r.get("rules_fired"), r.get("first", r.get("detail", ""))[:200])
            bad += r["status"] != "killed"
    sys.exit(1 if bad else 0)
