"""SEL-EFFECT / SEL-COVER: template effect analysis of the baseline JIT instruction selector.

For every canonical bytecode form the generator can hand the JIT and every abstract input
(aliasing partition of the operands x register/stack residency x liveness x immediate size)
the `match instr { .. }` of `CodeGen::emit_program` is evaluated *syntactically* (first-match
semantics, guards, nested if/if-let/match) to the straight-line sequence of `self.emit_*`
calls it would emit.  That sequence is interpreted over an abstract machine whose values are
polynomials over the initial register/stack/tape contents, and the final state is compared
with the meaning of the bytecode instruction.  No machine code is produced or run.
"""
import itertools
from common import *
from rusteval import *

CODEGEN = "src/exec/basejit/codegen.rs"

# ----------------------------------------------------------------------------- domain values


class TmpV:
    def __init__(self, cls, interval, name):
        self.cls, self.interval, self.name = cls, interval, name

    def __repr__(self):
        return f"%{self.name}"


class IdxV:
    def __init__(self, cls, name):
        self.cls, self.name = cls, name

    def __repr__(self):
        return f"[{self.name}]"


class ImmV:
    def __init__(self, kind, name="imm"):
        self.kind, self.name = kind, name

    def __repr__(self):
        return f"{self.name}:{self.kind}"


class LinT:
    """k * tmp (used for stack displacements)."""

    def __init__(self, k, tmp):
        self.k, self.tmp = k, tmp

    def __repr__(self):
        return f"{self.k}*{self.tmp!r}"


class BitT:
    def __init__(self, tmp):
        self.tmp = tmp


class LiveV:
    def __repr__(self):
        return "live"


class LiveBit:
    def __init__(self, tmp):
        self.tmp = tmp


class RegV:
    def __init__(self, name):
        self.name = name   # 'rax' ... or ('T', cls)

    def __eq__(self, o):
        return isinstance(o, RegV) and self.name == o.name

    def __hash__(self):
        return hash(self.name)

    def __repr__(self):
        return self.name if isinstance(self.name, str) else f"reg(t{self.name[1]})"


class RegMemV:
    def __init__(self, kind, **kw):
        self.kind = kind
        self.__dict__.update(kw)

    def __repr__(self):
        if self.kind == "reg":
            return repr(self.reg)
        if self.kind == "cell":
            return f"cell[{self.idx.name}]"
        return f"[{self.base!r}+{self.index!r}*{self.scale}+{self.disp!r}]"


class LocV:
    def __init__(self, kind, v):
        self.kind, self.v = kind, v

    def __repr__(self):
        return f"Loc::{self.kind}({self.v!r})"


class InstrV:
    def __init__(self, op, locs):
        self.op, self.locs = op, locs

    def __repr__(self):
        return f"Instr::{self.op}({', '.join(map(repr, self.locs))})"


class SelfV:
    pass


class Opaque:
    def __init__(self, what):
        self.what = what

    def __repr__(self):
        return f"<{self.what}>"


PHYS = {"Rax": "rax", "Rcx": "rcx", "Rdx": "rdx", "Rbx": "rbx", "Rsp": "rsp", "Rbp": "rbp", "Rsi": "rsi",
        "Rdi": "rdi", "R8": "r8", "R9": "r9", "R10": "r10", "R11": "r11", "R12": "r12", "R13": "r13",
        "R14": "r14", "R15": "r15"}

# ----------------------------------------------------------------------------- the selector model


class SelModel:
    """Facts read from codegen.rs that the interpreter needs (all re-read on every run)."""

    def __init__(self, ast):
        self.ast = ast
        f = ast.fn(CODEGEN, "tmp", container="impl Reg")
        self.tmp_regs = self._tmp_array(f)
        self.helpers = {}
        for name in ("cxt", "mem", "scr0", "scr1"):
            self.helpers[name] = ast.fn(CODEGEN, name, container="impl Reg")
        self.cg = {}
        for name in ("tmp_param", "can_use_as_scratch"):
            self.cg[name] = ast.fn(CODEGEN, name, container="impl CodeGen")
        self.emit_program = ast.fn(CODEGEN, "emit_program", container="impl CodeGen")
        self.match = self._instr_match(self.emit_program)
        self.thresholds = sorted({len(self.tmp_regs)} | self._thresholds(self.cg["can_use_as_scratch"]["node"]))

    def _tmp_array(self, f):
        body = f["node"]["body"]["stmts"]
        # the table may be written in place or named first (a local `const` / `let`, or a constant of the file)
        named = {}
        for st in body[:-1]:
            if st["t"] == "Const" and strip_paren(st["expr"])["t"] == "Array":
                named[st["name"]] = strip_paren(st["expr"])
            elif st["t"] == "Local" and st["pat"]["t"] == "PIdent" and st.get("init") is not None and strip_paren(st["init"])["t"] == "Array":
                named[st["pat"]["name"]] = strip_paren(st["init"])
            else:
                raise Missing("Reg::tmp is no longer a table lookup `[..].get(tmp).cloned()`")
        for it_ in self.ast.items(CODEGEN, "Const"):
            if isinstance(it_.get("expr"), dict) and strip_paren(it_["expr"])["t"] == "Array":
                named.setdefault(it_["name"], strip_paren(it_["expr"]))
        if not body or body[-1]["t"] != "ExprStmt":
            raise Missing("Reg::tmp is no longer a table lookup `[..].get(tmp).cloned()`")
        base, chain = method_chain(body[-1]["expr"])
        names = [c[0] for c in chain]
        base = strip_paren(base)
        if base["t"] == "PathExpr" and path_name(base) in named:
            base = named[path_name(base)]
        if base["t"] != "Array" or names not in (["get", "cloned"], ["get", "copied"]):
            raise Missing("Reg::tmp is no longer `[Reg::..; n].get(tmp).cloned()`")
        arg = chain[0][1]
        if len(arg) != 1 or path_name(arg[0]) != f["node"]["sig"]["inputs"][0]["pat"]["name"]:
            raise Missing("Reg::tmp does not index its table with its parameter")
        regs = []
        for e in base["elems"]:
            n = path_name(e)
            if not n or not n.startswith("Reg::") or n[5:] not in PHYS:
                raise Missing(f"Reg::tmp table entry {n} is not a register")
            regs.append(PHYS[n[5:]])
        return regs

    def _thresholds(self, fn):
        ths = set()
        for b in walk_t(fn["body"], "Binary"):
            if b["op"] in ("<", "<=", ">", ">="):
                for side, other, flip in ((b["left"], b["right"], True), (b["right"], b["left"], False)):
                    v = int_lit(side)
                    if v is not None and path_name(strip_paren(other)) is not None:
                        op = b["op"]
                        if flip:
                            op = {"<": ">", "<=": ">=", ">": "<", ">=": "<="}[op]
                        ths.add(v if op in ("<", ">=") else v + 1)
        return ths

    def _instr_match(self, f):
        """The dispatching match (the one whose arms are Instr:: patterns) and the names emit_program gives to
        the instruction, the live bitmap, the loop index and its parameters (no name is assumed)."""
        ms = []
        for m in walk_t(f["node"]["body"], "Match"):
            n = sum(1 for a in m["arms"] if a["pat"]["t"] in ("PTupleStruct", "PPath") and a["pat"]["path"]["name"].startswith("Instr::"))
            if n >= 10 and path_name(strip_paren(m["expr"])):
                ms.append(m)
        if len(ms) != 1:
            raise Missing(f"emit_program: expected exactly one dispatching `match <instr>`, found {len(ms)}")
        self.names = {"instr": path_name(strip_paren(ms[0]["expr"])), "live": "live", "i": "i"}
        ps = [p["pat"]["name"] for p in f["node"]["sig"]["inputs"] if p["t"] == "Arg" and p["pat"]["t"] == "PIdent"]
        if len(ps) == 3:
            self.names.update(program=ps[0], limited=ps[1], safe=ps[2])
        else:
            self.names.update(program="program", limited="limited", safe="safe")
        for l in walk_t(f["node"]["body"], "ForLoop"):
            if any(x is ms[0] for x in walk(l["body"])):
                ids = [n["name"] for n in walk_t(l["pat"], "PIdent")]
                # for (i, (&instr, &live)) in ..zip(..).enumerate()
                if len(ids) == 3 and self.names["instr"] in ids:
                    rest = [x for x in ids if x != self.names["instr"]]
                    self.names["i"], self.names["live"] = rest[0], rest[1]
        return ms[0]

    def intervals(self):
        """Index intervals a temporary can fall into, split at every threshold the code tests."""
        ths = [0] + [t for t in self.thresholds if t > 0]
        out = []
        for i, lo in enumerate(ths):
            hi = ths[i + 1] if i + 1 < len(ths) else None
            out.append((lo, hi))
        return out


class SelInterp(Interp):
    def __init__(self, model, inp):
        super().__init__()
        self.m = model
        self.inp = inp          # abstract input (dict)
        self.seq = []           # emitted sequence [(name, args, line)]
        self.arm = None

    # -- helpers
    def resident(self, t):
        lo, hi = t.interval
        return hi is not None and hi <= len(self.m.tmp_regs)

    def lt(self, t, k):
        lo, hi = t.interval
        if hi is not None and hi <= k:
            return True
        if lo >= k:
            return False
        raise Unanalysable(f"comparison of a temporary in {t.interval} with {k} is not decided by the abstract input")

    def call_fn(self, frec, args, selfv=None):
        fn = frec["node"]
        env = Env()
        params = [p for p in fn["sig"]["inputs"] if p["t"] == "Arg"]
        if len(params) != len(args):
            raise Unanalysable(f"arity mismatch calling {fn['name']}")
        for p, a in zip(params, args):
            if not self.match(p["pat"], a, env):
                raise Unanalysable("parameter pattern")
        if selfv is not None:
            env.bind("self", selfv)
        try:
            return self.exec_block(fn["body"], env)
        except ReturnEx as r:
            return r.value

    # -- hooks
    def path_value(self, name, node):
        if name.startswith("Reg::") and name[5:] in PHYS:
            return RegV(PHYS[name[5:]])
        if name.startswith("JmpPred::"):
            return Opaque(name)
        if name in ("C::BITS",):
            return Opaque("C::BITS")
        raise Unanalysable(f"path {name}")

    def call(self, name, targs, args, node):
        if name == "Reg::tmp":
            t = args[0]
            if not isinstance(t, TmpV):
                raise Unanalysable("Reg::tmp of a non-temporary")
            return Some(RegV(("T", t.cls))) if self.resident(t) else NONE
        if name.startswith("Reg::") and name[5:] in self.m.helpers:
            return self.call_fn(self.m.helpers[name[5:]], args)
        if name == "RegMem::Reg":
            if not isinstance(args[0], RegV):
                raise Unanalysable("RegMem::Reg of a non-register")
            return RegMemV("reg", reg=args[0])
        if name == "RegMem::Mem":
            base, index, scale, disp = args
            if not isinstance(base, Opt) or not isinstance(index, Opt):
                raise Unanalysable("RegMem::Mem base/index")
            return RegMemV("mem", base=base.v if base.some else None, index=index.v if index.some else None,
                           scale=scale, disp=disp)
        raise Unanalysable(f"call of {name}")

    def method(self, recv, name, targs, args, node):
        if isinstance(recv, SelfV):
            if name.startswith("emit_"):
                self.seq.append((name, args, node["sp"][0]))
                return UNIT
            if name in self.m.cg:
                return self.call_fn(self.m.cg[name], args, recv)
            if name == "mem_param":
                if not isinstance(args[0], IdxV):
                    raise Unanalysable("mem_param of a non-index")
                return RegMemV("cell", idx=args[0])
            raise Unanalysable(f"self.{name}()")
        if isinstance(recv, ImmV):
            if name == "into_i64" and recv.kind == "C":
                return ImmV("i64", recv.name)
            if name == "try_into" and recv.kind == "i64":
                return Res(True, ImmV("i32", recv.name)) if self.inp["fits"] else Res(False, Opaque("TryFromIntError"))
            if name == "wrapping_neg":
                raise Unanalysable("arithmetic on the immediate inside the selector")
        if isinstance(recv, Opt) and name in ("cloned", "copied"):
            return recv
        raise Unanalysable(f"method .{name}() on {recv!r}")

    def match_ctor(self, name, elems, val, env, node):
        if name.startswith("Instr::"):
            if not isinstance(val, InstrV):
                raise Unanalysable("Instr pattern against non-instruction")
            if name[7:] != val.op or len(elems) != len(val.locs):
                return False
            for p, v in zip(elems, val.locs):
                if not self.match(p, v, env):
                    return False
            return True
        if name.startswith("Loc::"):
            if not isinstance(val, LocV):
                raise Unanalysable("Loc pattern against non-location")
            if name[5:] != val.kind:
                return False
            return self.match(elems[0], val.v, env)
        if name == "RegMem::Reg":
            return isinstance(val, RegMemV) and val.kind == "reg" and self.match(elems[0], val.reg, env)
        raise Unanalysable(f"pattern {name}(..)")

    def match_path(self, name, val, node):
        if name.startswith("Instr::"):
            return isinstance(val, InstrV) and val.op == name[7:] and not val.locs
        raise Unanalysable(f"pattern path {name}")

    def equal(self, a, b, node):
        if isinstance(a, TmpV) and isinstance(b, TmpV):
            return a.cls == b.cls
        if isinstance(a, IdxV) and isinstance(b, IdxV):
            return a.cls == b.cls
        if isinstance(a, RegV) and isinstance(b, RegV):
            return a == b
        if isinstance(a, LiveBit) and b == 0:
            t = a.tmp
            return not (self.resident(t) and self.inp["live"].get(t.cls, False))
        if isinstance(b, LiveBit) and a == 0:
            return self.equal(b, a, node)
        return super().equal(a, b, node)

    def binary(self, op, l, r, node):
        if isinstance(l, TmpV) and isinstance(r, int) and op in ("<", "<=", ">", ">="):
            if op == "<":
                return self.lt(l, r)
            if op == "<=":
                return self.lt(l, r + 1)
            if op == ">=":
                return not self.lt(l, r)
            if op == ">":
                return not self.lt(l, r + 1)
        if op == "*" and isinstance(l, int) and isinstance(r, TmpV):
            return LinT(l, r)
        if op == "*" and isinstance(r, int) and isinstance(l, TmpV):
            return LinT(r, l)
        if op == "<<" and l == 1 and isinstance(r, TmpV):
            return BitT(r)
        if op == "&" and isinstance(l, LiveV) and isinstance(r, BitT):
            return LiveBit(r.tmp)
        if op == "&" and isinstance(r, LiveV) and isinstance(l, BitT):
            return LiveBit(l.tmp)
        return super().binary(op, l, r, node)

    def cast(self, v, ty, node):
        if isinstance(v, (TmpV, LinT)):
            return v
        if isinstance(v, ImmV):
            # a truncating cast of the immediate is only the identity when it fits
            if ty["s"] in ("i32",) and v.kind in ("i64",) and not self.inp["fits"]:
                return ImmV("trunc", v.name + "_trunc32")
            return v
        return super().cast(v, ty, node)

    def macro(self, name, mac, env, node):
        if name == "matches" and "matches" in mac:
            v = self.eval(mac["matches"]["expr"], env)
            scope = env.child()
            ok = self.match(mac["matches"]["pat"], v, scope)
            if ok and mac["matches"]["guard"] is not None:
                ok = self.cond(mac["matches"]["guard"], scope)
            return ok
        return super().macro(name, mac, env, node)


# ----------------------------------------------------------------------------- abstract machine

EFFECTS = {
    # name: (kind, roles in argument order, index of destination, index of source)
    "emit_mov_r64_rm64": ("mov", ("r", "rm"), 0, 1),
    "emit_mov_rm64_r64": ("mov", ("rm", "r"), 0, 1),
    "emit_mov_r64_i64": ("mov", ("r", "i"), 0, 1),
    "emit_mov_rm64_i32": ("mov", ("rm", "i"), 0, 1),
    "emit_add_rm64_i32": ("add", ("rm", "i"), 0, 1),
    "emit_add_rm64_r64": ("add", ("rm", "r"), 0, 1),
    "emit_add_r64_rm64": ("add", ("r", "rm"), 0, 1),
    "emit_sub_rm64_i32": ("sub", ("rm", "i"), 0, 1),
    "emit_sub_rm64_r64": ("sub", ("rm", "r"), 0, 1),
    "emit_sub_r64_rm64": ("sub", ("r", "rm"), 0, 1),
    "emit_mul_r64_rm64": ("mul", ("r", "rm"), 0, 1),
    "emit_mul_r64_rm64_i32": ("mul3", ("r", "rm", "i"), 0, 1),
    "emit_inc_rm64": ("inc", ("rm",), 0, None),
    "emit_dec_rm64": ("dec", ("rm",), 0, None),
    "emit_lea": ("mov", ("r", "addr"), 0, 1),
    # width helpers of codegen.rs, arguments (idx, reg|imm); their dispatch is checked by SEL-WIDTH
    "emit_load": ("mov", ("cell", "r"), 1, 0),
    "emit_store_reg": ("mov", ("cell", "r"), 0, 1),
    "emit_store_i32": ("mov", ("cell", "i"), 0, 1),
    "emit_add_reg": ("add", ("cell", "r"), 0, 1),
    "emit_add_to_reg": ("add", ("cell", "r"), 1, 0),
    "emit_add_i32": ("add", ("cell", "i"), 0, 1),
    "emit_sub_reg": ("sub", ("cell", "r"), 0, 1),
    "emit_sub_to_reg": ("sub", ("cell", "r"), 1, 0),
}


class Machine:
    def __init__(self, model, inp):
        self.model = model
        self.inp = inp
        self.state = {}
        self.written = []
        self.problems = []

    def init(self, tmps, idxs):
        for t in tmps.values():
            lo, hi = t.interval
            if hi is not None and hi <= len(self.model.tmp_regs):
                self.state[("t", t.cls)] = Poly.var(f"t{t.cls}")
            else:
                self.state[("s", t.cls)] = Poly.var(f"t{t.cls}")
        for i in idxs.values():
            self.state[("m", i.cls)] = Poly.var(f"m{i.cls}")
        for r in ("rax", "rcx"):
            self.state[("r", r)] = Poly.var(f"junk_{r}")

    def regloc(self, r):
        if not isinstance(r, RegV):
            raise Unanalysable(f"register operand expected, got {r!r}")
        if isinstance(r.name, tuple):
            return ("t", r.name[1])
        return ("r", r.name)

    def rmloc(self, rm):
        if isinstance(rm, RegV):
            raise Unanalysable("bare register where a RegMem is expected")
        if not isinstance(rm, RegMemV):
            raise Unanalysable(f"RegMem operand expected, got {rm!r}")
        if rm.kind == "reg":
            return self.regloc(rm.reg)
        if rm.kind == "cell":
            return ("m", rm.idx.cls)
        if rm.kind == "mem":
            if (isinstance(rm.base, RegV) and rm.base.name == "rsp" and rm.index is None
                    and isinstance(rm.disp, LinT) and rm.disp.k == 8 and rm.scale == 1):
                return ("s", rm.disp.tmp.cls)
            raise Unanalysable(f"memory operand {rm!r} is neither a temporary's stack slot nor a tape cell")
        raise Unanalysable("operand")

    def cellloc(self, idx):
        if not isinstance(idx, IdxV):
            raise Unanalysable(f"tape index expected, got {idx!r}")
        return ("m", idx.cls)

    def immval(self, v):
        if isinstance(v, bool):
            raise Unanalysable("boolean immediate")
        if isinstance(v, int):
            return Poly.const(v)
        if isinstance(v, ImmV):
            return Poly.var(v.name)
        raise Unanalysable(f"immediate operand expected, got {v!r}")

    def read(self, loc):
        if loc not in self.state:
            if loc[0] == "r":
                return Poly.var(f"junk_{loc[1]}")
            raise Unanalysable(f"read of a location that does not exist under this abstract input: {loc}")
        return self.state[loc]

    def write(self, loc, val, line):
        if loc[0] == "r" and loc[1] in ("rsp", "rbp", "rbx"):
            self.problems.append(f"line {line}: writes {loc[1]} (stack / tape / context pointer) in an arithmetic template")
        if loc[0] == "r" and loc[1] in self.model.tmp_regs:
            self.problems.append(f"line {line}: writes {loc[1]}, which holds temporary {self.model.tmp_regs.index(loc[1])}, "
                                 f"without consulting the live bitmap")
        if loc[0] in ("t", "s") and loc not in self.state:
            raise Unanalysable(f"write to {loc}, which does not exist under this abstract input")
        self.state[loc] = val
        self.written.append(loc)

    def addr(self, rm):
        if not isinstance(rm, RegMemV) or rm.kind != "mem":
            raise Unanalysable("lea needs a memory operand")
        v = Poly.const(0)
        if rm.base is not None:
            v = v + self.read(self.regloc(rm.base))
        if rm.index is not None:
            if not isinstance(rm.scale, int):
                raise Unanalysable("lea scale")
            v = v + self.read(self.regloc(rm.index)) * Poly.const(rm.scale)
        v = v + self.immval(rm.disp)
        return v

    def run(self, seq):
        for name, args, line in seq:
            if name not in EFFECTS:
                raise Unanalysable(f"emitter {name} (line {line}) has no entry in the effect table")
            kind, roles, di, si = EFFECTS[name]
            if len(args) != len(roles):
                raise Unanalysable(f"{name}: {len(args)} arguments, effect table expects {len(roles)}")

            def operand(i):
                role, a = roles[i], args[i]
                if role == "r":
                    return ("loc", self.regloc(a))
                if role == "rm":
                    return ("loc", self.rmloc(a))
                if role == "cell":
                    return ("loc", self.cellloc(a))
                if role == "i":
                    return ("val", self.immval(a))
                if role == "addr":
                    return ("val", self.addr(a))
                raise Unanalysable(role)
            d = operand(di)
            if d[0] != "loc":
                raise Unanalysable("destination is not a location")
            dl = d[1]
            sv = None
            if si is not None:
                s = operand(si)
                sv = self.read(s[1]) if s[0] == "loc" else s[1]
            if kind == "mov":
                self.write(dl, sv, line)
            elif kind == "add":
                self.write(dl, self.read(dl) + sv, line)
            elif kind == "sub":
                self.write(dl, self.read(dl) - sv, line)
            elif kind == "mul":
                self.write(dl, self.read(dl) * sv, line)
            elif kind == "mul3":
                iv = operand(2)[1]
                self.write(dl, sv * iv, line)
            elif kind == "inc":
                self.write(dl, self.read(dl) + Poly.const(1), line)
            elif kind == "dec":
                self.write(dl, self.read(dl) - Poly.const(1), line)
            else:
                raise Unanalysable(kind)


# ----------------------------------------------------------------------------- canonical forms

def canonical_forms():
    """Forms `bc::CodeGen::translate(_, 11, false)` can produce, derived by hand from
    `get_value`/`mem_write`/`allocate_temps`/`parameter_reordering` (reasons inline)."""
    forms = []
    # Copy: get_value emits Copy(Tmp, Imm|Mem), mem_write emits Copy(Mem, Tmp); allocate_temps replaces a
    # Tmp source by Tmp|Mem|Imm; parameter_reordering folds op(dst, Imm, Imm) into Copy(dst, Imm).
    for d in ("Mem", "Tmp"):
        for s in ("Imm", "Mem", "Tmp"):
            forms.append(("Copy", (d, s)))
    # Sub: Sub(_, _, Imm) is rewritten to Add, Imm-Imm is folded; every other combination stays.
    for d in ("Mem", "Tmp"):
        for s0 in ("Mem", "Tmp", "Imm"):
            for s1 in ("Mem", "Tmp"):
                forms.append(("Sub", (d, s0, s1)))
    # Add/Mul (commutative): a Tmp first source is swapped behind a non-Tmp one, an Imm is moved last,
    # and sources are swapped when dst == src1.  (Tmp, Mem) therefore only survives as dst == src0.
    for op in ("Add", "Mul"):
        for d in ("Mem", "Tmp"):
            for s in (("Mem", "Imm"), ("Mem", "Tmp"), ("Mem", "Mem"), ("Tmp", "Imm"), ("Tmp", "Tmp")):
                forms.append((op, (d,) + s))
        forms.append((op, ("Tmp", "Tmp", "Mem")))
    return forms


def set_partitions(n):
    """All set partitions of range(n) as class-id lists (restricted growth strings)."""
    if n == 0:
        yield []
        return

    def rec(prefix, mx):
        if len(prefix) == n:
            yield list(prefix)
            return
        for c in range(mx + 2):
            yield from rec(prefix + [c], max(mx, c))
    yield from rec([0], 0)


def canonical_ok(op, kinds, tcls, icls):
    """Restrictions the canonicaliser guarantees on aliasing (see canonical_forms)."""
    def same(i, j):
        if kinds[i] != kinds[j]:
            return False
        if kinds[i] == "Tmp":
            return tcls[i] == tcls[j]
        if kinds[i] == "Mem":
            return icls[i] == icls[j]
        return False
    if op in ("Add", "Mul"):
        if kinds[1:] == ("Tmp", "Mem") and not same(0, 1):
            return False        # (Tmp, Mem) only arises from the dst == src1 swap
        if same(0, 2) and not same(0, 1):
            return False        # dst == src1 is always swapped to dst == src0
    return True


def abstract_inputs(model, op, kinds, allowed=None):
    """allowed: set of (tpart, ipart) aliasings the canonicaliser can produce for this form (computed from bc.rs);
    None = use the hand-derived restriction `canonical_ok`."""
    tpos = [i for i, k in enumerate(kinds) if k == "Tmp"]
    ipos = [i for i, k in enumerate(kinds) if k == "Mem"]
    has_imm = "Imm" in kinds
    ivs = model.intervals()
    nreg = len(model.tmp_regs)
    for tp in set_partitions(len(tpos)):
        for ip in set_partitions(len(ipos)):
            tcls = {p: c for p, c in zip(tpos, tp)}
            icls = {p: c for p, c in zip(ipos, ip)}
            if allowed is not None:
                canon = (tuple(tp), tuple(ip)) in allowed
            else:
                canon = canonical_ok(op, tuple(kinds), tcls, icls)
            classes = sorted(set(tp))
            dstcls = tcls.get(0)
            per_class = []
            for c in classes:
                opts = []
                for iv in ivs:
                    resident = iv[1] is not None and iv[1] <= nreg
                    if resident and c != dstcls:
                        opts.append((iv, True))
                        opts.append((iv, False))
                    else:
                        opts.append((iv, False))
                per_class.append(opts)
            for combo in itertools.product(*per_class):
                for fits in ((True, False) if has_imm else (True,)):
                    yield {
                        "tcls": tcls, "icls": icls, "canon": canon,
                        "interval": {c: combo[i][0] for i, c in enumerate(classes)},
                        "live": {c: combo[i][1] for i, c in enumerate(classes)},
                        "fits": fits,
                    }


def describe_input(kinds, inp, model):
    parts = []
    nreg = len(model.tmp_regs)
    for i, k in enumerate(kinds):
        role = "dst" if i == 0 else f"src{i - 1}"
        if k == "Tmp":
            c = inp["tcls"][i]
            lo, hi = inp["interval"][c]
            res = "reg" if hi is not None and hi <= nreg else f"stack[{lo}..{hi if hi else ''})"
            lv = ("live" if inp["live"][c] else "dead") if res == "reg" else ""
            parts.append(f"{role}=%t{c}:{res}{(':' + lv) if lv else ''}")
        elif k == "Mem":
            parts.append(f"{role}=[m{inp['icls'][i]}]")
        else:
            parts.append(f"{role}=imm:{'i32' if inp['fits'] else 'wide'}")
    return " ".join(parts)


def input_key(kinds, inp, model):
    return describe_input(kinds, inp, model).replace(" ", ",")


def evaluate(model, op, kinds, inp):
    """Returns dict(arm, seq, status, msg, detail)."""
    tmps, idxs = {}, {}
    locs = []
    for i, k in enumerate(kinds):
        if k == "Tmp":
            c = inp["tcls"][i]
            if c not in tmps:
                tmps[c] = TmpV(c, inp["interval"][c], f"t{c}")
            locs.append(LocV("Tmp", tmps[c]))
        elif k == "Mem":
            c = inp["icls"][i]
            if c not in idxs:
                idxs[c] = IdxV(c, f"m{c}")
            locs.append(LocV("Mem", idxs[c]))
        else:
            locs.append(LocV("Imm", ImmV("C")))
    it = SelInterp(model, inp)
    env = Env()
    env.bind("self", SelfV())
    env.bind(model.names["instr"], InstrV(op, locs))
    env.bind(model.names["live"], LiveV())
    for n in ("program", "i", "limited", "safe"):
        env.bind(model.names[n], Opaque(n))
    out = {"arm": None, "seq": [], "status": "ok", "msg": "", "arm_line": None, "wild": False}
    try:
        it.eval(model.match, env)
    except Reached as r:
        out.update(status="reached", msg=f"{r.what} reached at line {r.node['sp'][0]}", arm_line=r.node["sp"][0])
    except Unanalysable as u:
        out.update(status="unanalysable", msg=str(u))
    except ReturnEx:
        out.update(status="unanalysable", msg="early return inside the selector arm")
    for tr in it.trace:
        if tr[0] == "match":
            # the outermost `match instr` decision is recorded last-but-first: find by arm index in model.match
            pass
    # which arm of `match instr` was taken: the arm whose span contains the first emitted line / reached node
    arm_idx = None
    for tr in it.trace:
        if tr[0] == "match":
            for i, a in enumerate(model.match["arms"]):
                if a["sp"][0] == tr[1]:
                    arm_idx = i
    out["arm"] = arm_idx
    if arm_idx is None and out["status"] == "reached":
        for i, a in enumerate(model.match["arms"]):
            if a["sp"][0] <= out["arm_line"] <= a["sp"][2]:
                arm_idx = i
        out["arm"] = arm_idx
    out["seq"] = it.seq
    if arm_idx is not None:
        out["wild"] = model.match["arms"][arm_idx]["pat"]["t"] == "PWild"
    if out["status"] != "ok":
        return out
    # interpret the sequence
    mach = Machine(model, inp)
    mach.init(tmps, idxs)
    try:
        mach.run(it.seq)
    except Unanalysable as u:
        out.update(status="unanalysable", msg=str(u))
        return out

    def val(i):
        k = kinds[i]
        if k == "Tmp":
            return Poly.var(f"t{inp['tcls'][i]}")
        if k == "Mem":
            return Poly.var(f"m{inp['icls'][i]}")
        return Poly.var("imm")
    if op == "Copy":
        exp = val(1)
    elif op == "Add":
        exp = val(1) + val(2)
    elif op == "Sub":
        exp = val(1) - val(2)
    else:
        exp = val(1) * val(2)
    nreg = len(model.tmp_regs)

    def tloc(c):
        lo, hi = inp["interval"][c]
        return ("t", c) if hi is not None and hi <= nreg else ("s", c)
    dloc = tloc(inp["tcls"][0]) if kinds[0] == "Tmp" else ("m", inp["icls"][0])
    errs = list(mach.problems)
    got = mach.state.get(dloc)
    if got != exp:
        errs.append(f"destination {fmt_loc(dloc)} ends as `{got}`, expected `{exp}`")
    for c in idxs:
        l = ("m", c)
        if l != dloc and mach.state[l] != Poly.var(f"m{c}"):
            errs.append(f"tape cell [m{c}] is not an output of the instruction but ends as `{mach.state[l]}`")
    for c in tmps:
        l = tloc(c)
        if l == dloc:
            continue
        if mach.state[l] != Poly.var(f"t{c}"):
            if l[0] == "t" and not inp["live"][c]:
                continue   # dead register temporary: may be used as scratch
            errs.append(f"temporary %t{c} ({'live register' if l[0] == 't' else 'stack slot'}) must be preserved "
                        f"but ends as `{mach.state[l]}`")
    out["final"] = {fmt_loc(k): repr(v) for k, v in mach.state.items() if k in mach.written}
    out["expected"] = repr(exp)
    if errs:
        out.update(status="wrong", msg="; ".join(errs))
    return out


def fmt_loc(l):
    return {"t": "reg(t%s)", "s": "stack(t%s)", "m": "[m%s]", "r": "%s"}[l[0]] % (l[1],)


def fmt_seq(seq):
    return [f"{n}({', '.join(map(repr, a))})" for n, a, _ in seq]


def arm_name(ast, model, idx):
    if idx is None:
        return "?"
    a = model.match["arms"][idx]
    s = ast.src1(CODEGEN, a["pat"], 120)
    if a["guard"] is not None:
        s += " if " + ast.src1(CODEGEN, a["guard"], 60)
    return s


def run_sel(res, ast, rules=("SEL-EFFECT", "SEL-COVER")):
    res.files.add(CODEGEN)
    if "SEL-EFFECT" in rules:
        res.rule("SEL-EFFECT", "every selector arm, under every abstract input (aliasing x residency x liveness x "
                 "immediate size), emits a sequence whose net effect on registers, stack slots and tape is "
                 "exactly dst := src0 op src1", floor=300, what="(form, abstract input) pairs")
    if "SEL-COVER" in rules:
        res.rule("SEL-COVER", "every canonical bytecode form the generator hands the JIT is matched by a "
                 "non-wildcard arm under every abstract input (no unimplemented!/unwrap on None reachable)",
                 floor=300, what="(form, abstract input) pairs")
    try:
        model = SelModel(ast)
    except Missing as m:
        for r in rules:
            res.missing(r, m)
        return None
    # the forms the JIT can be handed are computed from bc.rs itself (parameter_reordering evaluated over every form
    # allocate_temps can leave behind); the hand-derived table is kept as a cross-check and reported in a note
    res.rule("CANON-FORMS", "bc::CodeGen::parameter_reordering can be evaluated for every (operation, operand kinds, aliasing, order of "
             "temporary indices); its image is the set of forms SEL-EFFECT / SEL-COVER quantify over", floor=1, what="canonicaliser evaluations")
    try:
        computed, npre = computed_canonical(ast)
        res.ok("CANON-FORMS", f"{BC}|parameter_reordering", f"{BC} (parameter_reordering)", f"{npre} pre-forms -> {len(computed)} canonical (form, aliasing) classes")
        res.files.add(BC)
    except (Missing, Unanalysable, Reached, KeyError) as u:
        res.bad("CANON-FORMS", f"{BC}|parameter_reordering", f"{BC} (parameter_reordering)",
                f"the canonicaliser cannot be analysed (fail closed): {u}; the forms the selector must cover are unknown")
        return None
    shapes = sorted({(o, k) for o, k, _, _ in computed})
    hand = set(canonical_forms())
    if set(shapes) != hand:
        res.notes.append(f"canonical forms computed from bc.rs differ from the hand-derived table: new {sorted(set(shapes) - hand)}, gone {sorted(hand - set(shapes))}; the computed set is used")
    else:
        res.notes.append("canonical forms computed from bc.rs equal the hand-derived table (40 shapes)")
    allowed = {}
    for o, k, tp, ip in computed:
        allowed.setdefault((o, k), set()).add((tp, ip))
    stats = {"forms": 0, "inputs": 0, "sequences": set(), "arms_hit": set(), "noncanonical_inputs": 0,
             "noncanonical_wrong": 0}
    arm_arith = [i for i, a in enumerate(model.match["arms"])
                 if a["pat"]["t"] == "PTupleStruct" and a["pat"]["path"]["name"] in
                 ("Instr::Copy", "Instr::Add", "Instr::Sub", "Instr::Mul")]
    for op, kinds in shapes:
        stats["forms"] += 1
        form = f"{op}({','.join(kinds)})"
        for inp in abstract_inputs(model, op, kinds, allowed[(op, kinds)]):
            r = evaluate(model, op, kinds, inp)
            res.evaluations += 1
            key_in = input_key(kinds, inp, model)
            an = arm_name(ast, model, r["arm"])
            w = f"{CODEGEN}:{model.match['arms'][r['arm']]['sp'][0] if r['arm'] is not None else model.match['sp'][0]} (emit_program)"
            if not inp["canon"]:
                stats["noncanonical_inputs"] += 1
                if r["status"] != "ok":
                    stats["noncanonical_wrong"] += 1
                continue
            stats["inputs"] += 1
            if r["arm"] is not None:
                stats["arms_hit"].add(r["arm"])
            stats["sequences"].add((r["arm"], tuple(fmt_seq(r["seq"]))))
            key = f"{CODEGEN}|emit_program|{form}|{key_in}"
            detail = [f"form {form}, abstract input: {describe_input(kinds, inp, model)}", f"arm: {an}",
                      "emitted: " + "; ".join(fmt_seq(r["seq"]))]
            if "expected" in r:
                detail.append(f"expected dst = {r['expected']}; final state of written locations: {r.get('final')}")
            if "SEL-COVER" in rules:
                if r["status"] == "reached" or r["wild"]:
                    res.bad("SEL-COVER", key, w, f"{form} with {describe_input(kinds, inp, model)}: {r['msg'] or 'falls through to the wildcard arm'}", detail)
                else:
                    res.ok("SEL-COVER", key, w)
            if "SEL-EFFECT" in rules:
                if r["status"] == "ok":
                    res.ok("SEL-EFFECT", key, w)
                    if len(res.samples) < 12 and len(r["seq"]) >= 2:
                        res.sample({"rule": "SEL-EFFECT", "form": form, "input": describe_input(kinds, inp, model),
                                    "arm": an, "emitted": fmt_seq(r["seq"]), "expected_dst": r["expected"],
                                    "final": r["final"], "verdict": "ok"})
                elif r["status"] == "reached":
                    if "SEL-COVER" not in rules:
                        res.bad("SEL-EFFECT", key, w, r["msg"], detail)
                    else:
                        res.ok("SEL-EFFECT", key, w, "not evaluated: reported by SEL-COVER", nontrivial=False)
                elif r["status"] == "unanalysable":
                    res.bad("SEL-EFFECT", key, w, f"{form}: arm cannot be analysed (fail closed): {r['msg']}", detail)
                else:
                    res.bad("SEL-EFFECT", key, w, f"{form} with {describe_input(kinds, inp, model)}: {r['msg']}", detail)
    # every arithmetic arm must be exercised by some canonical input; an arm that is never selected is
    # dead code that the rule did not check - report it as a note, not a violation
    dead = [i for i in arm_arith if i not in stats["arms_hit"]]
    for i in dead:
        res.notes.append(f"selector arm never selected by a canonical form (not checked): {arm_name(ast, model, i)}")
    res.notes.append(f"SEL: {stats['forms']} canonical forms, {stats['inputs']} canonical abstract inputs, "
                     f"{len(stats['sequences'])} distinct emitted sequences, {len(stats['arms_hit'])}/{len(arm_arith)} arithmetic arms selected; "
                     f"{stats['noncanonical_inputs']} abstract inputs outside the canonicaliser's guarantees evaluated "
                     f"for information only ({stats['noncanonical_wrong']} of them not handled by the selector)")
    return {"forms": stats["forms"], "abstract_inputs": stats["inputs"], "distinct_sequences": len(stats["sequences"]),
            "arms_selected": len(stats["arms_hit"]), "arithmetic_arms": len(arm_arith),
            "tmp_regs": model.tmp_regs, "thresholds": model.thresholds}


# ----------------------------------------------------------------------------- canonical forms computed from bc.rs

BC = "src/bc.rs"


class Slot:
    """The element `self.insts[i]` being rewritten."""

    def __init__(self, instr):
        self.instr = instr


class LocRef:
    """A `&mut Loc` bound by `match &mut self.insts[i]`: position `idx` of the instruction in `slot`."""

    def __init__(self, slot, idx):
        self.slot, self.idx = slot, idx

    def get(self):
        return self.slot.instr.locs[self.idx]

    def __repr__(self):
        return f"&mut {self.get()!r}"


class CanonInterp(Interp):
    """Evaluates the body of bc::CodeGen::parameter_reordering for one abstract instruction."""

    def __init__(self, slot, rank):
        super().__init__()
        self.slot, self.rank = slot, rank

    def eval(self, e, env):
        e0 = strip_paren(e)
        if e0["t"] == "Reference" and self._is_slot(e0["expr"]):
            return ("slotref", self.slot)
        if self._is_slot(e0):
            return self.slot.instr
        if e0["t"] == "PathExpr" and e0["path"]["name"] == "self":
            return "self"
        return super().eval(e, env)

    def _is_slot(self, e):
        e = strip_paren(e)
        return e["t"] == "Index" and strip_paren(e["expr"])["t"] == "Field" and strip_paren(e["expr"])["member"] == "insts" and path_name(strip_paren(e["index"])) == self.loop_var

    def assign_place(self, place, value, env, node):
        pl = strip_paren(place)
        if pl["t"] == "Unary" and pl["op"] == "*" and strip_paren(pl["expr"])["t"] == "PathExpr":
            nm = strip_paren(pl["expr"])["path"]["name"]
            if env.has(nm) and isinstance(env.get(nm), tuple) and env.get(nm)[:1] == ("slotref",):
                # `*inst = ..` through the loop's mutable reference to the instruction
                if not isinstance(value, InstrV):
                    raise Unanalysable("assignment of a non-instruction through the instruction reference")
                env.get(nm)[1].instr = value
                return
        if self._is_slot(place):
            if not isinstance(value, InstrV):
                raise Unanalysable("assignment of a non-instruction to self.insts[i]")
            self.slot.instr = value
            return
        return super().assign_place(place, value, env, node)

    def call(self, name, targs, args, node):
        if name.startswith("Instr::"):
            locs = [a.get() if isinstance(a, LocRef) else a for a in args]
            return InstrV(name[7:], locs)
        if name.startswith("Loc::"):
            return LocV(name[5:], args[0])
        if name in ("mem::swap", "std::mem::swap"):
            a, b = args
            if not (isinstance(a, LocRef) and isinstance(b, LocRef) and a.slot is b.slot):
                raise Unanalysable("mem::swap of something other than two operands of the instruction")
            ls = a.slot.instr.locs
            ls[a.idx], ls[b.idx] = ls[b.idx], ls[a.idx]
            return UNIT
        raise Unanalysable(f"call of {name}")

    def method(self, recv, name, targs, args, node):
        if isinstance(recv, ImmV) and name in ("wrapping_add", "wrapping_mul", "wrapping_neg"):
            return ImmV("C", "imm")       # a folded immediate is again some immediate
        raise Unanalysable(f".{name}() on {recv!r}")

    def match(self, pat, val, env):
        if isinstance(val, LocRef) and pat["t"] != "PIdent":
            return self.match(pat, val.get(), env)
        if isinstance(val, tuple) and val and val[0] == "slotref":
            # `match &mut self.insts[i] { Instr::X(a, b, c) => .. }`: bind references to the operands
            slot = val[1]
            if pat["t"] == "POr":
                for c in pat["cases"]:
                    e2 = env.child()
                    if self.match(c, val, e2):
                        env.vars.update(e2.vars)
                        return True
                return False
            if pat["t"] == "PWild":
                return True
            if pat["t"] == "PTupleStruct" and pat["path"]["name"].startswith("Instr::"):
                ins = slot.instr
                if pat["path"]["name"][7:] != ins.op or len(pat["elems"]) != len(ins.locs):
                    return False
                for i, p in enumerate(pat["elems"]):
                    if p["t"] == "PIdent":
                        env.bind(p["name"], LocRef(slot, i))
                    elif not self.match(p, ins.locs[i], env):
                        return False
                return True
            if pat["t"] == "PPath":
                return slot.instr.op == pat["path"]["name"].split("::")[-1] and not slot.instr.locs
            raise Unanalysable("pattern on &mut self.insts[i]")
        return super().match(pat, val, env)

    def match_ctor(self, name, elems, val, env, node):
        if name.startswith("Instr::"):
            if not isinstance(val, InstrV):
                raise Unanalysable("Instr pattern")
            if name[7:] != val.op or len(elems) != len(val.locs):
                return False
            return all(self.match(p, v, env) for p, v in zip(elems, val.locs))
        if name.startswith("Loc::"):
            if not isinstance(val, LocV):
                raise Unanalysable(f"Loc pattern against {val!r}")
            return name[5:] == val.kind and self.match(elems[0], val.v, env)
        raise Unanalysable(f"pattern {name}")

    def match_path(self, name, val, node):
        if name.startswith("Instr::"):
            return isinstance(val, InstrV) and val.op == name[7:]
        raise Unanalysable(name)

    def macro(self, name, mac, env, node):
        if name == "matches" and "matches" in mac:
            v = self.eval(mac["matches"]["expr"], env)
            scope = env.child()
            ok = self.match(mac["matches"]["pat"], v, scope)
            if ok and mac["matches"]["guard"] is not None:
                ok = self.cond(mac["matches"]["guard"], scope)
            return ok
        return super().macro(name, mac, env, node)

    def equal(self, a, b, node):
        a = a.get() if isinstance(a, LocRef) else a
        b = b.get() if isinstance(b, LocRef) else b
        if isinstance(a, LocV) and isinstance(b, LocV):
            if a.kind != b.kind:
                return False
            if a.kind == "Imm":
                raise Unanalysable("comparison of two immediates")
            return a.v.cls == b.v.cls
        return super().equal(a, b, node)

    def binary(self, op, l, r, node):
        l = l.get() if isinstance(l, LocRef) else l
        r = r.get() if isinstance(r, LocRef) else r
        if isinstance(l, TmpV) and isinstance(r, TmpV) and op in ("<", "<=", ">", ">="):
            a, b = self.rank[l.cls], self.rank[r.cls]
            return {"<": a < b, "<=": a <= b, ">": a > b, ">=": a >= b}[op]
        return super().binary(op, l, r, node)

    def unary(self, op, v, node):
        if op == "*":
            if isinstance(v, tuple) and v[:1] == ("slotref",):
                return v[1].instr
            return v.get() if isinstance(v, LocRef) else v
        return super().unary(op, v, node)


def computed_canonical(ast):
    """Forms (op, kinds, aliasing) that leave bc::CodeGen::parameter_reordering, computed by evaluating its loop
    body for every form allocate_temps can leave behind: dst in {Mem, Tmp}, sources in {Mem, Tmp, Imm}, every
    aliasing and every relative order of temporary indices.  Returns (set of (op, kinds, tpart, ipart), notes)."""
    f = ast.fn(BC, "parameter_reordering")["node"]
    loops = [l for l in walk_t(f["body"], "ForLoop")]
    if len(loops) != 1:
        raise Missing("parameter_reordering: expected one loop over the instructions")
    body = loops[0]["body"]
    out = set()
    n = 0
    for op in ("Copy", "Add", "Sub", "Mul"):
        nsrc = 1 if op == "Copy" else 2
        for kinds in itertools.product(("Mem", "Tmp"), *([("Mem", "Tmp", "Imm")] * nsrc)):
            tpos = [i for i, k in enumerate(kinds) if k == "Tmp"]
            ipos = [i for i, k in enumerate(kinds) if k == "Mem"]
            for tp in set_partitions(len(tpos)):
                ncls = len(set(tp))
                for perm in itertools.permutations(range(ncls)):
                    for ip in set_partitions(len(ipos)):
                        tc = dict(zip(tpos, tp))
                        ic = dict(zip(ipos, ip))
                        tmps, idxs = {}, {}
                        locs = []
                        for i, k in enumerate(kinds):
                            if k == "Tmp":
                                c = tc[i]
                                tmps.setdefault(c, TmpV(c, (0, None), f"t{c}"))
                                locs.append(LocV("Tmp", tmps[c]))
                            elif k == "Mem":
                                c = ic[i]
                                idxs.setdefault(c, IdxV(c, f"m{c}"))
                                locs.append(LocV("Mem", idxs[c]))
                            else:
                                locs.append(LocV("Imm", ImmV("C")))
                        slot = Slot(InstrV(op, locs))
                        it = CanonInterp(slot, {c: perm[c] for c in range(ncls)})
                        it.loop_var = loops[0]["pat"]["name"] if loops[0]["pat"]["t"] == "PIdent" else "i"
                        env = Env()
                        env.bind("self", "self")
                        by_ref = any(m_["method"] == "iter_mut" for m_ in walk_t(loops[0]["expr"], "MethodCall"))
                        if by_ref:
                            # `for inst in self.insts.iter_mut()..`: the loop variable is a mutable reference to the instruction
                            env.bind(it.loop_var, ("slotref", slot))
                            it.loop_var = "\0none"
                        else:
                            env.bind(it.loop_var, Opaque("i"))
                        it.exec_block(body, env)
                        n += 1
                        ins = slot.instr
                        k2 = tuple(l.kind for l in ins.locs)
                        # canonical renaming of classes in order of appearance
                        tm, im = {}, {}
                        tpart, ipart = [], []
                        for l in ins.locs:
                            if l.kind == "Tmp":
                                tpart.append(tm.setdefault(l.v.cls, len(tm)))
                            elif l.kind == "Mem":
                                ipart.append(im.setdefault(l.v.cls, len(im)))
                        out.add((ins.op, k2, tuple(tpart), tuple(ipart)))
    return out, n
