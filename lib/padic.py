"""C14: the algebraic contracts of CellType::wrapping_pow / wrapping_inv / wrapping_div, decided by abstract
interpretation in two small algebraic domains.  Nothing is executed on numbers: operands stay symbolic, the
only quantities enumerated are the cell width W in {8,16,32,64} and the divisor's trailing-zero count s in 0..W
(which the code itself turns into shift amounts).

POW-INVARIANT (exponent domain).  A cell is B^x with x a polynomial over symbols, the exponent operand is an
integer polynomial.  The loop is summarised by a conserved quantity found among the candidates r + s*e
(r, s cell variables changed by the loop, e the exponent variable) and checked inductively over every path of one
iteration, the parity test splitting e into 2q / 2q+1.  At exit (e = 0) r = B^(entry value of the quantity); the
function must return B^E.

DIV-CONTRACT / INV-CONTRACT (2-adic domain).  A cell is a polynomial over atoms modulo relations
   a*a = 1 + 8u            (a odd),
   a*x = 1 + 2^k u         (x an inverse of a to k bits),
`a.wrapping_pow(e)` for odd a and a known exponent e is an inverse to k bits for the largest k with lambda(2^k) | e+1
(Carmichael: lambda(2)=1, lambda(4)=2, lambda(2^k)=2^(k-2)); a value v stored in a variable with a*v - 1 divisible
by 2^p is re-abstracted as an inverse to p bits (this is how a Newton step doubles the precision).  A mask
`& (2^j - 1)` gives v - 2^j q with 0 <= result < 2^j.  The contract is an oracle stated from the property, per case:
   n = 0                      -> Some(0)
   n != 0, tz(n) < tz(d)      -> None
   n != 0, tz(n) >= tz(d)=s   -> Some(x) with x*d - n divisible by 2^W and x < 2^(W-s)    (the smallest solution)
   inverse: a odd -> Some(x) with a*x - 1 divisible by 2^W;  a even -> None.
"""
from rusteval import Interp, Env, Unanalysable, Reached, ReturnEx, BreakEx, ContinueEx, Opt, Res, Tup, UNIT, NONE, Some, Poly
from common import strip_paren, walk, walk_t, path_name

LIB = "src/lib.rs"
WIDTHS = (8, 16, 32, 64)


# ------------------------------------------------------------------------------------------------ forking driver
class Forks:
    """Depth-first enumeration of the undecided branches by re-execution with a decision script."""

    def __init__(self):
        self.script = []
        self.arity = []
        self.pos = 0

    def start(self):
        self.pos = 0

    def choose(self, n=2):
        if self.pos < len(self.script):
            c = self.script[self.pos]
        else:
            c = 0
            self.script.append(0)
            self.arity.append(n)
        self.pos += 1
        return c

    def advance(self):
        """-> False when every script has been run"""
        self.script = self.script[:self.pos]
        self.arity = self.arity[:self.pos]
        while self.script and self.script[-1] + 1 >= self.arity[-1]:
            self.script.pop()
            self.arity.pop()
        if not self.script:
            return False
        self.script[-1] += 1
        return True


def all_runs(fn, cap=400):
    fk = Forks()
    n = 0
    while True:
        fk.start()
        yield fn(fk)
        n += 1
        if n > cap:
            raise Unanalysable(f"more than {cap} paths")
        if not fk.advance():
            return


def psubst(p, var, repl):
    """polynomial p with the symbol var replaced by polynomial repl"""
    out = Poly()
    for mono, c in p.t.items():
        term = Poly.const(c)
        for x in mono:
            term = term * (repl if x == var else Poly.var(x))
        out = out + term
    return out


# ------------------------------------------------------------------------------------------------ exponent domain
class Pw:
    """B^x"""
    def __init__(self, x):
        self.x = x

    def __repr__(self):
        return f"B^({self.x})"


class Ex:
    """the exponent operand: an integer polynomial"""
    def __init__(self, e):
        self.e = e

    def __repr__(self):
        return f"exp({self.e})"


class K:
    """a cell constant modulo 2^W"""
    def __init__(self, c, w):
        self.c = c % (1 << w)
        self.w = w

    def __repr__(self):
        return f"K({self.c})"


class Par:
    def __init__(self, of):
        self.of = of        # Ex or anything else (unknown parity)


class Test:
    """an undecided boolean: kind in ('nonzero', 'odd', 'isone', 'opaque')"""
    def __init__(self, kind, of=None, neg=False):
        self.kind, self.of, self.neg = kind, of, neg


class Ordering:
    def __init__(self, which):
        self.which = which

    def __repr__(self):
        return "Ordering::" + self.which


class IntRange:
    """an integer known only to lie in [lo, hi]"""
    def __init__(self, lo, hi):
        self.lo, self.hi = lo, hi

    def __repr__(self):
        return f"{self.lo}..={self.hi}"


class IntV:
    """the integer image of a cell (into_u64 / into_i64): parity known, sign known to be non-negative or unknown"""
    def __init__(self, parity, nonneg):
        self.parity, self.nonneg = parity, nonneg

    def __repr__(self):
        return f"int(parity {self.parity}{'' if self.nonneg else ', sign unknown'})"


class Top:
    def __init__(self, why=""):
        self.why = why

    def __repr__(self):
        return f"?({self.why})"


class CellBase(Interp):
    """what both domains share: Self::CONSTANTS, u32 arithmetic on BITS, following the trait's own default methods"""

    def __init__(self, ast, w, fk):
        super().__init__()
        self.ast, self.w, self.fk = ast, w, fk
        self.fns = trait_fns(ast, w)
        self.depth = 0
        self.summarise = {}

    def path_value(self, name, node):
        n = name.split("::")[-1]
        if name.startswith("Self::") or name.startswith("C::"):
            if n == "BITS":
                return self.w
            if n == "ZERO":
                return K(0, self.w)
            if n == "ONE":
                return K(1, self.w)
            if n == "NEG_ONE":
                return K(-1, self.w)
        raise Unanalysable(f"path {name}")

    def follow(self, name, recv, args):
        fn = self.fns[name]
        if self.depth > 4:
            raise Unanalysable("recursion")
        env = Env()
        ins = fn["sig"]["inputs"]
        env.bind("self", recv)
        ps = [p for p in ins if p["t"] != "Receiver"]
        if len(ps) != len(args):
            raise Unanalysable(f"arity of {name}")
        for p, a in zip(ps, args):
            if p["pat"]["t"] != "PIdent":
                raise Unanalysable("parameter pattern")
            env.bind(p["pat"]["name"], a)
        self.depth += 1
        try:
            return self.exec_block(fn["body"], env)
        except ReturnEx as r:
            return r.value
        finally:
            self.depth -= 1

    def free_call(self, name, args):
        """a free helper function of the file (generic over the cell type)"""
        fns = [f["node"] for f in self.ast.find_fns(LIB) if f["container"] == "" and f["name"] == name and f["node"].get("body") is not None]
        if len(fns) != 1:
            return None
        fn = fns[0]
        ps = [p for p in fn["sig"]["inputs"] if p["t"] == "Arg"]
        if len(ps) != len(args) or any(p["pat"]["t"] != "PIdent" for p in ps) or self.depth > 4:
            raise Unanalysable(f"call of {name}")
        env = Env()
        for p, a in zip(ps, args):
            env.bind(p["pat"]["name"], a)
        self.depth += 1
        try:
            return (self.exec_block(fn["body"], env),)
        except ReturnEx as r:
            return (r.value,)
        finally:
            self.depth -= 1

    def apply_closure(self, f, args):
        env = f.env.child()
        ins = f.node["inputs"]
        if len(ins) != len(args):
            raise Unanalysable("closure arity")
        for p_, a_ in zip(ins, args):
            if not self.match(p_, a_, env):
                raise Unanalysable("closure parameter pattern")
        try:
            return self.eval(f.node["body"], env)
        except ReturnEx as r:
            return r.value

    def option_method(self, recv, name, args):
        """bool::then / then_some, Option::map / filter / and_then / unwrap_or: -> (value,) or None"""
        from itereval import ClosureV
        if isinstance(recv, Test):
            recv = self.decide(recv)
        if isinstance(recv, bool) and name == "then" and len(args) == 1 and isinstance(args[0], ClosureV):
            return (Some(self.apply_closure(args[0], [])) if recv else NONE,)
        if isinstance(recv, bool) and name == "then_some" and len(args) == 1:
            return (Some(args[0]) if recv else NONE,)
        if isinstance(recv, Opt):
            if name == "map" and len(args) == 1 and isinstance(args[0], ClosureV):
                return (Some(self.apply_closure(args[0], [recv.v])) if recv.some else NONE,)
            if name == "and_then" and len(args) == 1 and isinstance(args[0], ClosureV):
                return (self.apply_closure(args[0], [recv.v]) if recv.some else NONE,)
            if name == "filter" and len(args) == 1 and isinstance(args[0], ClosureV):
                return ((recv if self.decide(self.apply_closure(args[0], [recv.v])) else NONE) if recv.some else NONE,)
        return None

    def call_value(self, f, args, node):
        from itereval import ClosureV
        if isinstance(f, ClosureV):
            return self.apply_closure(f, args)
        raise Unanalysable("call of a local value")

    def match_path(self, name, val, node):
        if isinstance(val, Ordering):
            return name.split("::")[-1] == val.which
        raise Unanalysable(f"pattern {name} against {val!r}")

    def ordering(self, a, b):
        """a.cmp(&b) for values whose order is decided"""
        lt = self.binary("<", a, b, None)
        lt = self.decide(lt) if not isinstance(lt, bool) else lt
        if lt:
            return Ordering("Less")
        eq = self.binary("==", a, b, None)
        eq = self.decide(eq) if not isinstance(eq, bool) else eq
        return Ordering("Equal" if eq else "Greater")

    def cond(self, c, env):
        c = strip_paren(c)
        if c["t"] == "Binary" and c["op"] == "&&":
            return self.cond(c["left"], env) and self.cond(c["right"], env)
        if c["t"] == "Binary" and c["op"] == "||":
            return self.cond(c["left"], env) or self.cond(c["right"], env)
        if c["t"] == "Let":
            return super().cond(c, env)
        v = self.eval(c, env)
        return self.decide(v)

    def decide(self, v):
        if isinstance(v, bool):
            return v
        if isinstance(v, Test):
            return self.decide_test(v)
        raise Unanalysable(f"condition {v!r}")

    def unary(self, op, v, node):
        if op == "!" and isinstance(v, Test):
            return Test(v.kind, v.of, not v.neg)
        if op == "!" and isinstance(v, bool):
            return not v
        if op == "*":
            return v
        return super().unary(op, v, node)

    def eval(self, e, env):
        t = e["t"]
        if t == "Reference":
            return self.eval(e["expr"], env)
        if t == "Closure":
            from itereval import ClosureV
            return ClosureV(e, env)
        if t == "MethodCall" and e["method"] in ("rev", "into_iter", "iter") and not e["args"]:
            v = self.eval(e["receiver"], env)
            if isinstance(v, list):
                return list(reversed(v)) if e["method"] == "rev" else v
            raise Unanalysable(f".{e['method']}() on {v!r}")
        if t == "MethodCall" and e["method"] == "cmp" and len(e["args"]) == 1:
            return self.ordering(self.eval(e["receiver"], env), self.eval(e["args"][0], env))
        if t == "Tuple":
            return Tup([self.eval(x, env) for x in e["elems"]])
        if t == "MethodCall" and e["method"] in ("then", "then_some", "map", "and_then", "filter"):
            recv = self.eval(e["receiver"], env)
            args = [self.eval(a, env) for a in e["args"]]
            r = self.option_method(recv, e["method"], args)
            if r is None:
                raise Unanalysable(f".{e['method']}() on {recv!r}")
            return r[0]
        if t == "Range":
            lo = self.eval(e["start"], env) if e.get("start") else 0
            hi = self.eval(e["end"], env)
            if isinstance(lo, int) and isinstance(hi, int) and hi - lo <= 200:
                return list(range(lo, hi + (1 if e.get("inclusive") or e.get("limits") == "..=" else 0)))
            raise Unanalysable("range")
        if t == "If" and strip_paren(e["cond"])["t"] != "Let":
            # conditions may be undecided Tests
            if self.cond(e["cond"], env):
                return self.exec_block(e["then"], env)
            if e.get("else") is not None:
                el = e["else"]
                return self.exec_block(el["block"], env) if el["t"] == "BlockExpr" else self.eval(el, env)
            return UNIT
        return super().eval(e, env)


class PowInterp(CellBase):
    """exponent domain; the while loop is summarised by a conserved quantity"""

    def __init__(self, ast, w, fk):
        super().__init__(ast, w, fk)
        self.sub = {}          # refinements of exponent symbols decided on this path: symbol -> polynomial
        self.bits = False      # the exponent operand is a sum of bit atoms b_j * 2^j (used when a counted loop walks the bits)
        self.fresh = 0
        self.facts = []        # ('one', x): B^x = 1 on this path
        self.loop_notes = []

    def new(self, stem):
        self.fresh += 1
        return f"{stem}{self.fresh}"

    def norm(self, p):
        for var, repl in self.sub.items():
            if var in p.vars():
                p = psubst(p, var, repl)
        return p

    def shr_bits(self, ex, by):
        """floor(e / 2^by) for e = c + sum of c_j * b_j over bit atoms: exact when the low part (coefficients not divisible by 2^by) cannot reach 2^by"""
        e = self.norm(ex.e)
        low = sum(v for k, v in e.t.items() if v % (1 << by))
        if any(v < 0 for v in e.t.values()) or any(k != () and not (len(k) == 1 and k[0].startswith("b_")) for k in e.t) or low >= (1 << by):
            return None
        return Poly({k: v >> by for k, v in e.t.items() if v % (1 << by) == 0})

    def parity(self, ex):
        """refine the exponent polynomial to a known parity: -> (q polynomial, r in {0,1})"""
        e = self.norm(ex.e)
        if self.bits:
            odd = [(k, v) for k, v in e.t.items() if v % 2]
            if len(odd) == 1 and len(odd[0][0]) == 1 and odd[0][0][0].startswith("b_") and odd[0][1] == 1:
                r = self.fk.choose(2)
                self.sub[odd[0][0][0]] = Poly.const(r)
                e = self.norm(e)
        consts = e.t.get((), 0)
        rest = Poly({k: v for k, v in e.t.items() if k != ()})
        if all(v % 2 == 0 for v in rest.t.values()):
            r = consts % 2
            return Poly({k: v // 2 for k, v in (e - Poly.const(r)).t.items()}), r
        if len(rest.t) == 1 and list(rest.t.values()) == [1] and len(list(rest.t)[0]) == 1 and consts == 0:
            var = list(rest.t)[0][0]
            r = self.fk.choose(2)
            q = Poly.var(self.new("q"))
            self.sub[var] = q * Poly.const(2) + Poly.const(r)
            return q, r
        raise Unanalysable(f"parity of {e}")

    def decide_test(self, t):
        if t.kind == "odd":
            if isinstance(t.of, Ex):
                _, r = self.parity(t.of)
                return (r == 1) != t.neg
            return bool(self.fk.choose(2))
        if t.kind == "isone" and isinstance(t.of, Pw):
            c = bool(self.fk.choose(2))
            if c != t.neg:
                self.facts.append(("one", self.norm(t.of.x)))
            return c
        if t.kind == "nonzero" and isinstance(t.of, Ex):
            e = self.norm(t.of.e)
            if not e.t:
                return t.neg
            if e.t.get((), 0) > 0 and all(v >= 0 for v in e.t.values()):
                return not t.neg       # 2q+1 with q >= 0
            c = bool(self.fk.choose(2))
            if c == t.neg:
                # the exponent is zero on this path
                ks = [k for k in e.t if k != ()]
                if len(ks) == 1 and len(ks[0]) == 1 and e.t.get((), 0) == 0:
                    self.sub[ks[0][0]] = Poly()
                else:
                    raise Unanalysable(f"zero test of {e}")
            return c
        return bool(self.fk.choose(2))

    def method(self, recv, name, targs, args, node):
        if name in self.fns and name not in ("wrapping_pow",):
            return self.follow(name, recv, args)
        w = self.w
        if name == "wrapping_mul":
            a, b = recv, args[0]
            if isinstance(a, K) and a.c == 1:
                return b
            if isinstance(b, K) and b.c == 1:
                return a
            if isinstance(a, Pw) and isinstance(b, Pw):
                return Pw(a.x + b.x)
            if isinstance(a, K) and isinstance(b, K):
                return K(a.c * b.c, w)
            return Top(f"product of {a!r} and {b!r}")
        if name == "wrapping_add":
            a, b = recv, args[0]
            if isinstance(a, K) and isinstance(b, K):
                return K(a.c + b.c, w)
            return Top(f"sum of {a!r} and {b!r}")
        if name == "wrapping_neg":
            return K(-recv.c, w) if isinstance(recv, K) else Top("negation")
        if name == "wrapping_shl" and isinstance(recv, K) and isinstance(args[0], int):
            if args[0] < 0:
                raise Reached("u32 underflow in a shift amount", node)
            return K(0 if args[0] >= w else recv.c << args[0], w)
        if name == "wrapping_shr" and isinstance(args[0], int):
            by = args[0]
            if isinstance(recv, K):
                return K(0 if by >= w else recv.c >> by, w)
            if isinstance(recv, Ex):
                ex = recv
                if by >= w:
                    return Ex(Poly())
                if self.bits:
                    q = self.shr_bits(ex, by)
                    if q is not None:
                        return Ex(q)
                for _ in range(by):
                    q, _r = self.parity(ex)
                    ex = Ex(q)
                return ex
            return Top("shift of a power")
        if name == "bitand":
            a, b = recv, args[0]
            if isinstance(b, Ex) or (isinstance(a, K) and not isinstance(b, K)):
                a, b = b, a
            if isinstance(b, K) and b.c == 1:
                return Par(a)
            if isinstance(a, Ex) and isinstance(b, K) and (b.c + 1) & b.c == 0:
                j = (b.c + 1).bit_length() - 1
                if j >= w:
                    return a
                return Ex(a.e - Poly.var(self.new("h")) * Poly.const(1 << j))
            if isinstance(a, K) and isinstance(b, K):
                return K(a.c & b.c, w)
            return Top("bit mask")
        if name == "trailing_zeros":
            return TzOf(recv) if isinstance(recv, Ex) else Top("trailing zeros")
        raise Unanalysable(f"method .{name}()")

    def call(self, name, targs, args, node):
        n = name.split("::")[-1]
        if "::" not in name.split("::<")[0]:
            r = self.free_call(name.split("::<")[0], args)
            if r is not None:
                return r[0]
        if name.split("::<")[0] in ("Self::" + n, "C::" + n) and args:
            return self.method(args[0], n, targs, args[1:], node)
        raise Unanalysable(f"call {name}")

    def binary(self, op, l, r, node):
        if op in ("==", "!=", ">", "<") and (isinstance(l, TzOf) or isinstance(r, TzOf)):
            t, o, left = (l, r, True) if isinstance(l, TzOf) else (r, l, False)
            if o == 0 and op in ("==", "!="):
                return Test("odd", t.of, op == "!=")          # no trailing zero <=> odd
            if o == 0 and ((op == ">" and left) or (op == "<" and not left)):
                return Test("odd", t.of, True)
            raise Unanalysable("trailing zeros of the exponent compared with something else than 0")
        if op in ("==", "!="):
            neg = op == "!="
            for a, b in ((l, r), (r, l)):
                if isinstance(a, Par) and isinstance(b, K) and b.c in (0, 1):
                    return Test("odd", a.of, neg != (b.c == 0))
                if isinstance(a, Ex) and isinstance(b, K) and b.c == 0:
                    return Test("nonzero", a, not neg)
                if isinstance(a, Pw) and isinstance(b, K) and b.c == 1:
                    return Test("isone", a, neg)
            if isinstance(l, K) and isinstance(r, K):
                return (l.c == r.c) != neg
            return Test("opaque", None, neg)
        if op in (">", "<") and isinstance(l if op == ">" else r, Ex) and isinstance(r if op == ">" else l, K) and (r if op == ">" else l).c == 0:
            return Test("nonzero", l if op == ">" else r, False)
        if all(isinstance(x, int) and not isinstance(x, bool) for x in (l, r)):
            v = super().binary(op, l, r, node)
            if op == "-" and isinstance(v, int) and v < 0:
                raise Reached("u32 underflow", node)
            return v
        return Test("opaque") if op in ("<", "<=", ">", ">=") else Top(f"{op}")

    # -------------------------------------------------------------- the loop
    def eval(self, e, env):
        if e["t"] == "While" and strip_paren(e["cond"])["t"] != "Let":
            return self.summarise_loop(e, env)
        if e["t"] == "Loop":
            return self.summarise_loop(e, env)
        if e["t"] == "ForLoop":
            if not self.bits:
                raise NeedBits()
            return self.unrolled_for(e, env)
        if e["t"] == "If" and strip_paren(e["cond"])["t"] != "Let" and self.bits:
            r = self.if_converted(e, env)
            if r is not None:
                return r[0]
        return super().eval(e, env)

    # -------------------------------------------------------------- counted loops over the exponent's bits
    def unrolled_for(self, e, env):
        """a `for` over a range of known integers (the bit positions) is unrolled; the exponent is a sum of bit atoms, and a branch on
        one bit is folded into the exponent polynomial instead of being forked (if_converted)"""
        it_ = self.eval(e["expr"], env)
        if not isinstance(it_, list) or len(it_) > 130:
            raise Unanalysable("for loop over something else than a known range")
        for v in it_:
            scope = env.child()
            if not self.match(e["pat"], v, scope):
                raise Unanalysable("for pattern")
            try:
                self.exec_block(e["body"], scope)
            except BreakEx:
                break
            except ContinueEx:
                continue
        return UNIT

    def bit_of(self, t):
        """the bit atom a parity test depends on, or None"""
        if not (isinstance(t, Test) and t.kind == "odd" and isinstance(t.of, Ex)):
            return None
        e = self.norm(t.of.e)
        odd = [(k, v) for k, v in e.t.items() if v % 2]
        if len(odd) == 1 and len(odd[0][0]) == 1 and odd[0][0][0].startswith("b_"):
            return odd[0][0][0], t.neg
        return None

    def if_converted(self, e, env):
        """`if <bit b of exp> { A } else { B }` with A and B changing only cell variables: both branches are evaluated and every variable becomes
        B^(b*x_A + (1-b)*x_B).  -> (UNIT,) or None when the condition is not a test of one bit"""
        c = strip_paren(e["cond"])
        probe = PowInterp(self.ast, self.w, self.fk)
        probe.bits, probe.sub, probe.fresh = True, dict(self.sub), self.fresh
        try:
            t = probe.eval(c, snapshot(env))
        except (Unanalysable, Reached):
            return None
        hit = self.bit_of(t)
        if hit is None:
            return None
        b, neg = hit
        envs = []
        for take in (True, False):
            e2 = snapshot(env)
            if take != neg:
                self.exec_block(e["then"], e2)
            elif e.get("else") is not None:
                el = e["else"]
                if el["t"] == "BlockExpr":
                    self.exec_block(el["block"], e2)
                else:
                    self.eval(el, e2)
            envs.append(e2)
        bp = Poly.var(b)
        for name in env_names(env):
            v1, v0 = envs[0].get(name), envs[1].get(name)
            if v1 is v0:
                continue
            x1 = v1.x if isinstance(v1, Pw) else Poly() if isinstance(v1, K) and v1.c == 1 else None
            x0 = v0.x if isinstance(v0, Pw) else Poly() if isinstance(v0, K) and v0.c == 1 else None
            if x1 is None or x0 is None:
                if repr(v1) == repr(v0):
                    continue
                raise Unanalysable(f"a branch on one exponent bit changes {name} into {v1!r} / {v0!r}")
            env.assign(name, Pw(bp * x1 + (Poly.const(1) - bp) * x0))
        return (UNIT,)

    def summarise_loop(self, e, env):
        changed = []
        for n in walk(e["body"]):
            if n.get("t") == "Assign" or (n.get("t") == "Binary" and n["op"].endswith("=") and n["op"] not in ("==", "!=", "<=", ">=")):
                nm = path_name(strip_paren(n["left"]))
                if nm and "::" not in nm and env.has(nm) and nm not in changed:
                    changed.append(nm)
        entry = {v: env.get(v) for v in changed}
        cells = [v for v in changed if isinstance(entry[v], (Pw, K))]
        exps = [v for v in changed if isinstance(entry[v], Ex)]
        if len(exps) != 1 or any(not isinstance(entry[v], (Pw, K, Ex)) for v in changed):
            raise Unanalysable(f"loop state {entry!r}")
        ev = exps[0]
        as_x = lambda v: v.x if isinstance(v, Pw) else Poly() if (isinstance(v, K) and v.c == 1) else None
        if any(as_x(entry[v]) is None for v in cells):
            raise Unanalysable(f"loop state {entry!r}")
        # one generic iteration from a havocked state, along every path
        outcomes = []

        def one(fk):
            it = PowInterp(self.ast, self.w, fk)
            it.bits = self.bits
            scope = Env()
            for name_ in env_names(env):
                if name_ not in changed:
                    scope.bind(name_, env.get(name_))
            for v in cells:
                scope.bind(v, Pw(Poly.var("x_" + v)))
            scope.bind(ev, Ex(Poly.var("e")))
            exit_ = None
            try:
                if e["t"] == "While" and not it.cond(e["cond"], scope):
                    return ("exit", it, scope)
                it.exec_block(e["body"], scope)
            except BreakEx:
                exit_ = "break"
            except ContinueEx:
                pass
            return (exit_ or "next", it, scope)
        for kind, it, scope in all_runs(one):
            outcomes.append((kind, it, scope))
        # candidates r + s*e
        found = None
        reports = []
        for r in cells:
            for s in cells:
                if r == s:
                    continue
                ok = True
                report = []
                reports.append(report)
                for kind, it, scope in outcomes:
                    before = it.norm(Poly.var("x_" + r) + Poly.var("x_" + s) * Poly.var("e"))
                    if kind == "exit":
                        # the condition is false: the exponent must be zero here (so that r = quantity)
                        if it.norm(Poly.var("e")).t:
                            ok = False
                            report.append(f"the loop is left while the exponent may still be non-zero")
                        continue
                    vals = {v: scope.get(v) for v in cells + [ev]}
                    if not all(isinstance(vals[v], Pw) for v in cells) or not isinstance(vals[ev], Ex):
                        ok = False
                        report.append(f"after one iteration {', '.join(f'{v} = {vals[v]!r}' for v in vals)}")
                        continue
                    after = it.norm(vals[r].x + vals[s].x * vals[ev].e)
                    if kind == "break" and after != before:
                        # B^F = 1 is known on this path (the branch `x == ONE` was taken): exponents that differ by F * g, g of one sign, are equal
                        for f_ in it.facts:
                            if f_[0] == "one" and len(f_[1].t) == 1:
                                (mono, c), = f_[1].t.items()
                                d_ = before - after
                                if c > 0 and mono and all(all(x in m for x in mono) and v % c == 0 for m, v in d_.t.items()) and \
                                        (all(v > 0 for v in d_.t.values()) or all(v < 0 for v in d_.t.values())):
                                    after = before
                                    break
                    if after != before:
                        ok = False
                        report.append(f"one iteration does not preserve {r} * {s}^{ev}: B^({before}) becomes B^({after})" if kind != "break" else
                                      f"leaving the loop early loses a factor: {r} * {s}^{ev} = B^({before}) before the iteration, B^({after}) at the exit")
                        continue
                    if kind != "break":
                        # progress: the exponent shrinks (e = 2q + r >= 1 becomes q): the difference has no negative coefficient and is not zero
                        dlt = it.norm(Poly.var("e")) - it.norm(vals[ev].e)
                        if not dlt.t or any(c < 0 for c in dlt.t.values()):
                            ok = False
                            report.append(f"the exponent does not shrink in an iteration ({it.norm(Poly.var('e'))} becomes {it.norm(vals[ev].e)})")
                            continue
                    if kind == "break":
                        # leaving early is sound when nothing remains to be multiplied in: the exponent is zero, or the
                        # remaining factor is known to be 1 (B^(x_s) = 1 on this path)
                        one_s = any(f_[0] == "one" and len(f_[1].t) == 1 and len(it.norm(vals[s].x).t) == 1 and
                                    list(f_[1].t)[0] == list(it.norm(vals[s].x).t)[0] and list(it.norm(vals[s].x).t.values())[0] % list(f_[1].t.values())[0] == 0
                                    for f_ in it.facts)
                        if it.norm(vals[ev].e).t and not one_s:
                            ok = False
                            report.append("the loop is left early (break) while exponent bits remain and the remaining factor is not known to be 1")
                    # progress: the exponent must shrink
                if ok:
                    found = (r, s)
                    break
            if found:
                break
        if not found:
            best = min(reports, key=lambda r_: len(set(r_))) if reports else []
            raise LoopFail("; ".join(sorted(set(best))[:3]) or "no conserved quantity of the form result * base^exp")
        r, s = found
        q = as_x(entry[r]) + as_x(entry[s]) * self.norm(entry[ev].e)
        self.loop_notes.append(f"conserved: {r} * {s}^{ev}; paths of one iteration: {len(outcomes)}")
        env.assign(r, Pw(q))
        env.assign(s, Pw(Poly.var(self.new("junk"))))
        env.assign(ev, Ex(Poly()))
        return UNIT


class LoopFail(Exception):
    pass


class NeedBits(Exception):
    """a counted loop walks the exponent: re-run with the exponent as a sum of bit atoms"""


class TzOf:
    def __init__(self, of):
        self.of = of


def snapshot(env):
    """a flat copy of the visible bindings (values are immutable)"""
    e2 = Env()
    for n in env_names(env):
        e2.bind(n, env.get(n))
    return e2


def env_names(env):
    out = []
    e = env
    while e is not None:
        out.extend(e.vars.keys() if hasattr(e, "vars") else [])
        e = getattr(e, "parent", None)
    return list(dict.fromkeys(out))


def check_pow(ast, w):
    """-> (problems, notes) for wrapping_pow at width w"""
    fn = _fn(ast, "wrapping_pow", w)
    if fn is None:
        return ["CellType::wrapping_pow not found"], []
    ps = [p for p in fn["sig"]["inputs"] if p["t"] != "Receiver"]
    if len(ps) != 1 or ps[0]["pat"]["t"] != "PIdent":
        return ["wrapping_pow(self, exp): unexpected parameters"], []
    probs, notes = [], []

    mode = {"bits": False}

    def run(fk):
        it = PowInterp(ast, w, fk)
        it.bits = mode["bits"]
        env = Env()
        env.bind("self", Pw(Poly.const(1)))
        E = Poly.var("E")
        if mode["bits"]:
            E = Poly()
            for j in range(w):
                E = E + Poly.var(f"b_{j:02d}") * Poly.const(1 << j)
        env.bind(ps[0]["pat"]["name"], Ex(E))
        it.want = E
        try:
            try:
                v = it.exec_block(fn["body"], env)
            except ReturnEx as r:
                v = r.value
        except LoopFail as ex:
            return str(ex), it
        except Unanalysable as ex:
            return f"cannot be analysed (fail closed): {ex}", it
        except Reached as ex:
            return f"may panic: {ex.what}", it
        if isinstance(v, K) and v.c == 1:
            v = Pw(Poly())
        if not isinstance(v, Pw):
            return f"returns {v!r}, not a power of the base", it
        x = it.norm(v.x)
        # on a path where E was refined (e.g. tested zero before the loop) compare under the refinement
        want = it.norm(it.want)
        if x != want:
            return f"returns B^({x}), the contract requires B^({want}) (E = the exponent operand)", it
        return None, it
    try:
        for p, it in all_runs(run):
            if p:
                probs.append(p)
            notes.extend(it.loop_notes)
    except NeedBits:
        mode["bits"] = True
        probs, notes = [], ["exponent as a sum of bit atoms; counted loop unrolled, one-bit branches folded into the exponent"]
        for p, it in all_runs(run):
            if p:
                probs.append(p)
            notes.extend(it.loop_notes)
    return sorted(set(probs)), sorted(set(notes))


# ------------------------------------------------------------------------------------------------ 2-adic domain
class Cell:
    """a cell value: polynomial over atoms (an integer whose residue modulo 2^W is the cell); lt: the value is known to be in [0, lt)"""
    def __init__(self, p, lt=None):
        self.p, self.lt = p, lt

    def __repr__(self):
        return f"[{self.p}]" + (f"<{self.lt}" if self.lt else "")


class TzN:
    """trailing_zeros of the dividend, known only relative to the divisor's: 'lt', 'eq' or 'gt'"""
    def __init__(self, rel, s):
        self.rel, self.s = rel, s


def lam_precision(e1, w):
    """largest k <= w with lambda(2^k) | e1"""
    k = 0
    for kk in range(1, w + 1):
        lam = 1 if kk == 1 else 2 if kk == 2 else 1 << (kk - 2)
        if e1 % lam == 0:
            k = kk
    return k


class AdicInterp(CellBase):
    def __init__(self, ast, w, fk, odd_atoms=()):
        super().__init__(ast, w, fk)
        self.odd = set(odd_atoms)
        self.inv = {}            # inverse atom -> (of atom, bits)
        self.fresh = 0
        self.params = {}         # id(Cell) is fragile: parameter cells are recognised by their polynomial
        self.tz = {}             # repr(poly) -> trailing zeros (int or TzN)
        self.shr_ok = {}         # (repr(poly), by) -> atom polynomial
        self.pow_ok = True
        self.notes = []

    def new(self, stem):
        self.fresh += 1
        return f"{stem}{self.fresh}"

    # relations ---------------------------------------------------------------------------------------------
    def reduce(self, p):
        changed = True
        n = 0
        while changed:
            changed = False
            n += 1
            if n > 200:
                raise Unanalysable("reduction does not terminate")
            out = Poly()
            for mono, c in p.t.items():
                m = list(mono)
                rep = None
                for x, (a, k) in self.inv.items():
                    if x in m and a in m:
                        m.remove(x)
                        m.remove(a)
                        rep = Poly.const(1) + Poly.var("u_" + x) * Poly.const(1 << k)
                        break
                if rep is None:
                    for a in self.odd:
                        if m.count(a) >= 2:
                            m.remove(a)
                            m.remove(a)
                            rep = Poly.const(1) + Poly.var("u_" + a) * Poly.const(8)
                            break
                if rep is None:
                    out = out + Poly({mono: c})
                else:
                    changed = True
                    out = out + Poly({tuple(sorted(m)): c}) * rep
            p = out
        return p

    def content(self, p):
        """largest t <= W with every coefficient divisible by 2^t (W when the polynomial is zero modulo 2^W)"""
        p = self.reduce(p)
        t = self.w
        for c in p.t.values():
            c = c % (1 << self.w)
            if c:
                t = min(t, (c & -c).bit_length() - 1)
        return t

    def abstract_inverse(self, v):
        """a stored value that is an inverse of an odd atom to p bits becomes an inverse atom (the abstraction step)"""
        if not isinstance(v, Cell) or len(v.p.t) <= 1 and all(len(m) <= 1 for m in v.p.t):
            return v
        for a in self.odd:
            if a in v.p.vars():
                pbits = self.content(Poly.var(a) * v.p - Poly.const(1))
                if pbits >= 1:
                    x = self.new("x")
                    self.inv[x] = (a, pbits)
                    self.notes.append(f"inverse of {a} to {pbits} bits")
                    return Cell(Poly.var(x))
        return v

    # values ------------------------------------------------------------------------------------------------
    def cell(self, v):
        if isinstance(v, K):
            return Cell(Poly.const(v.c))
        if not isinstance(v, Cell):
            raise Unanalysable(f"{v!r} used as a cell")
        return v

    def const_of(self, v):
        if isinstance(v, K):
            return v.c
        if isinstance(v, Cell) and all(m == () for m in v.p.t):
            return v.p.t.get((), 0) % (1 << self.w)
        return None

    def exec_block(self, block, env):
        return super().exec_block(block, env)

    def bind_value(self, v):
        return self.abstract_inverse(v) if isinstance(v, Cell) else v

    def match(self, pat, val, env):
        if pat["t"] == "PIdent" and isinstance(val, Cell):
            val = self.bind_value(val)
        return super().match(pat, val, env)

    def assign_place(self, place, value, env, node):
        if isinstance(value, Cell):
            value = self.bind_value(value)
        return super().assign_place(place, value, env, node)

    def call(self, name, targs, args, node):
        n = name.split("::")[-1]
        if n == "Some" and len(args) == 1:
            return Some(args[0])
        if "::" not in name.split("::<")[0]:
            r = self.free_call(name.split("::<")[0], args)
            if r is not None:
                return r[0]
        if name.split("::<")[0] in ("Self::" + n, "C::" + n) and n in self.fns and args:
            return self.method(args[0], n, targs, args[1:], node)       # Self::wrapping_mul(a, b)
        raise Unanalysable(f"call {name}")

    def path_value(self, name, node):
        if name == "None":
            return NONE
        return super().path_value(name, node)

    def method(self, recv, name, targs, args, node):
        w = self.w
        if name == "wrapping_pow":
            base, e = recv, args[0]
            ec = self.const_of(e)
            if isinstance(base, Cell) and len(base.p.t) == 1 and list(base.p.t.items())[0][1] == 1 and len(list(base.p.t)[0]) == 1 \
                    and list(base.p.t)[0][0] in self.odd and ec is not None:
                a = list(base.p.t)[0][0]
                k = lam_precision(ec + 1, w)
                if k >= 1:
                    x = self.new("x")
                    self.inv[x] = (a, k)
                    self.notes.append(f"{a}^{ec}: inverse of {a} to {k} bits (lambda(2^{k}) divides {ec + 1})")
                    return Cell(Poly.var(x))
            bc = self.const_of(base)
            if bc is not None and ec is not None:
                return K(pow(bc, ec, 1 << w), w)
            return Cell(Poly.var(self.new("pw")))        # some power the domain has no fact about
        if name in self.fns:
            return self.follow(name, recv, args)
        if name in ("wrapping_mul", "wrapping_add"):
            a, b = self.cell(recv), self.cell(args[0])
            if not isinstance(a, Cell) or not isinstance(b, Cell):
                raise Unanalysable(f".{name}() of {recv!r}, {args[0]!r}")
            return Cell(self.reduce(a.p * b.p if name == "wrapping_mul" else a.p + b.p))
        if name == "wrapping_neg":
            a = self.cell(recv)
            return Cell(-a.p)
        if name == "wrapping_shl":
            a, by = self.cell(recv), args[0]
            if not isinstance(by, int):
                raise Unanalysable("shift amount")
            if by < 0:
                raise Reached("u32 underflow in a shift amount", node)
            return Cell(Poly() if by >= w else a.p * Poly.const(1 << by))
        if name == "wrapping_shr":
            a, by = self.cell(recv), args[0]
            if not isinstance(by, int):
                raise Unanalysable("shift amount")
            if by < 0:
                raise Reached("u32 underflow in a shift amount", node)
            if by >= w:
                return Cell(Poly())
            if by == 0:
                return a
            c = self.const_of(a)
            if c is not None:
                return Cell(Poly.const(c >> by))
            key = (repr(a.p), by)
            if key in self.shr_ok:
                return Cell(self.shr_ok[key])
            raise Unanalysable(f"{a!r} >> {by}")
        if name == "bitand":
            a, b = self.cell(recv), self.cell(args[0])
            ca, cb = self.const_of(a), self.const_of(b)
            if ca is not None and cb is None:
                a, b, ca, cb = b, a, cb, ca
            if ca is not None and cb is not None:
                return Cell(Poly.const(ca & cb))
            if cb is not None and (cb + 1) & cb == 0:
                j = (cb + 1).bit_length() - 1
                if j >= w:
                    return a
                if j == 0:
                    return Cell(Poly())
                if j == 1:
                    par = self.parity_of(a)
                    if par is not None:
                        return Cell(Poly.const(par))
                q = self.new("m")
                return Cell(a.p - Poly.var(q) * Poly.const(1 << j), lt=1 << j)
            raise Unanalysable(f"mask {b!r}")
        if name == "trailing_zeros":
            a = self.cell(recv)
            if repr(a.p) in self.tz:
                return self.tz[repr(a.p)]
            c = self.const_of(a)
            if c is not None:
                return w if c == 0 else (c & -c).bit_length() - 1
            raise Unanalysable(f"trailing_zeros of {a!r}")
        if name in ("into_u64", "into_i64"):
            par = self.parity_of(self.cell(recv))
            if par is None:
                raise Unanalysable(f".{name}() of a value of unknown parity")
            c = self.const_of(recv)
            if c is not None:
                return c if name == "into_u64" or c < (1 << (w - 1)) else c - (1 << w)
            return IntV(par, name == "into_u64")
        if name == "is_odd":
            par = self.parity_of(self.cell(recv))
            if par is None:
                raise Unanalysable("parity")
            return bool(par)
        raise Unanalysable(f"method .{name}()")

    def parity_of(self, a):
        """0/1 when decided by the facts, else None"""
        p = self.reduce(a.p)
        tot = 0
        for mono, c in p.t.items():
            if c % 2 == 0:
                continue
            if all(x in self.odd for x in mono):
                tot += 1
            elif any(x in self.even for x in mono):
                continue
            else:
                return None
        return tot % 2

    even = frozenset()

    def binary(self, op, l, r, node):
        if isinstance(l, (Cell, K)) and isinstance(r, (Cell, K)) and op in ("==", "!="):
            a, b = self.cell(l), self.cell(r)
            d = self.reduce(a.p - b.p)
            if not d.t or all(c % (1 << self.w) == 0 for c in d.t.values()):
                return op == "=="
            key = repr(d)
            nz = self.nonzero.get(key)
            if nz is None:
                nz = self.nonzero.get(repr(-d))
            if nz is not None:
                return (not nz) == (op == "==")
            par = self.parity_of(Cell(d))
            if par == 1:
                return op == "!="
            raise Unanalysable(f"equality of {a!r} and {b!r}")
        if isinstance(l, IntV) or isinstance(r, IntV):
            v, o, left = (l, r, True) if isinstance(l, IntV) else (r, l, False)
            if op in ("%", "&") and left and isinstance(o, int) and o in ((2,) if op == "%" else (1,)):
                if v.parity == 0 or v.nonneg or op == "&":
                    return v.parity
                return -1 if self.fk.choose(2) else 1         # the remainder of a negative odd number is -1
            raise Unanalysable(f"operator {op} on {l!r}, {r!r}")
        if isinstance(l, IntRange) or isinstance(r, IntRange):
            a = (l.lo, l.hi) if isinstance(l, IntRange) else (l, l)
            b = (r.lo, r.hi) if isinstance(r, IntRange) else (r, r)
            if not all(isinstance(x, int) and not isinstance(x, bool) for x in a + b) or op not in ("<", "<=", ">", ">=", "==", "!="):
                raise Unanalysable(f"operator {op} on {l!r}, {r!r}")
            cases = {"<": (a[1] < b[0], a[0] >= b[1]), "<=": (a[1] <= b[0], a[0] > b[1]), ">": (a[0] > b[1], a[1] <= b[0]), ">=": (a[0] >= b[1], a[1] < b[0]),
                     "==": (a[0] == a[1] == b[0] == b[1], a[1] < b[0] or b[1] < a[0]), "!=": (a[1] < b[0] or b[1] < a[0], a[0] == a[1] == b[0] == b[1])}[op]
            if cases[0]:
                return True
            if cases[1]:
                return False
            raise Unanalysable(f"{l!r} {op} {r!r} is not decided")
        if isinstance(l, TzN) or isinstance(r, TzN):
            t, o, flip = (l, r, False) if isinstance(l, TzN) else (r, l, True)
            if not (isinstance(o, int) and o == t.s):
                raise Unanalysable("trailing zeros compared with something else than the divisor's")
            # t ? s, t known as less / equal / greater
            op2 = op if not flip else {"<": ">", ">": "<", "<=": ">=", ">=": "<=", "==": "==", "!=": "!="}[op]
            sign = {"lt": -1, "eq": 0, "gt": 1}[t.rel]
            return {"<": sign < 0, "<=": sign <= 0, ">": sign > 0, ">=": sign >= 0, "==": sign == 0, "!=": sign != 0}[op2]
        if all(isinstance(x, int) and not isinstance(x, bool) for x in (l, r)):
            v = super().binary(op, l, r, node)
            if op == "-" and isinstance(v, int) and v < 0:
                raise Reached("u32 underflow", node)
            return v
        if op in ("&",) and isinstance(l, (Cell, K)) and isinstance(r, (Cell, K)):
            return self.method(l, "bitand", None, [r], node)
        raise Unanalysable(f"operator {op} on {l!r}, {r!r}")

    nonzero = {}

    def decide_test(self, t):
        raise Unanalysable("undecided test")


def trait_fns(ast, w):
    """the provided methods of CellType as they apply at width w: the trait's default bodies, replaced by the override of `impl CellType for u<w>`
    where one exists (only provided methods are followed; the required ones are the primitives whose meaning CELL-DELEGATE establishes)"""
    fns = {f["name"]: f["node"] for f in ast.find_fns(LIB) if f["container"] == "trait CellType" and f["node"].get("body") is not None}
    for f in ast.find_fns(LIB):
        if f["container"].replace(" ", "") == f"implCellTypeforu{w}" and f["name"] in fns and f["node"].get("body") is not None:
            fns[f["name"]] = f["node"]
    return fns


def _fn(ast, name, w=None):
    if w is not None:
        return trait_fns(ast, w).get(name)
    fn = [f for f in ast.find_fns(LIB) if f["container"] == "trait CellType" and f["name"] == name]
    return fn[0]["node"] if len(fn) == 1 else None


def run_case(ast, w, fnname, setup):
    """evaluate fnname under one case along every undecided branch; -> (value or problem string, it) of the first run that
    ends in a problem string, else of the last run (callers judge the value; see run_case_all for all runs)"""
    runs = run_case_all(ast, w, fnname, setup)
    for v, it in runs:
        if isinstance(v, str):
            return v, it
    return runs[-1]


def run_case_all(ast, w, fnname, setup):
    out = []
    for r in all_runs(lambda fk: run_case_one(ast, w, fnname, setup, fk), cap=64):
        out.append(r)
    return out


def run_case_one(ast, w, fnname, setup, fk):
    fn = _fn(ast, fnname, w)
    if fn is None:
        return f"CellType::{fnname} not found", None
    it = AdicInterp(ast, w, fk)
    vals = setup(it)
    env = Env()
    env.bind("self", vals[0])
    ps = [p for p in fn["sig"]["inputs"] if p["t"] != "Receiver"]
    if len(ps) != len(vals) - 1 or any(p["pat"]["t"] != "PIdent" for p in ps):
        return f"{fnname}: unexpected parameters", it
    for p, v in zip(ps, vals[1:]):
        env.bind(p["pat"]["name"], v)
    try:
        try:
            v = it.exec_block(fn["body"], env)
        except ReturnEx as r:
            v = r.value
    except Unanalysable as ex:
        return f"cannot be analysed (fail closed): {ex}", it
    except Reached as ex:
        return f"may panic: {ex.what}", it
    return v, it


def check_inv_case(ast, w, tag):
    """-> problem text or None"""
    if tag == "odd":
        def odd(it):
            it.odd.add("a")
            it.tz[repr(Poly.var("a"))] = 0
            it.shr_ok[(repr(Poly.var("a")), 0)] = Poly.var("a")
            it.nonzero = {repr(Poly.var("a")): True}
            return [Cell(Poly.var("a"))]
        for v, it in run_case_all(ast, w, "wrapping_inv", odd):
            if isinstance(v, str):
                return f"odd operand: {v}"
            if not (isinstance(v, Opt) and v.some and isinstance(v.v, (Cell, K))):
                return f"odd operand: returns {v!r}, an inverse exists"
            t = it.content(Poly.var("a") * it.cell(v.v).p - Poly.const(1))
            if t < w:
                return f"odd operand: self * result - 1 is only known to be divisible by 2^{t}, the contract requires 2^{w}"
        return None

    def even(it):
        if tag == "zero":
            it.tz[repr(Poly())] = w
            return [Cell(Poly())]
        it.even = frozenset({"a"})
        it.nonzero = {repr(Poly.var("a")): True}
        it.tz[repr(Poly.var("a"))] = IntRange(1, w - 1)
        return [Cell(Poly.var("a"))]
    what = "operand 0" if tag == "zero" else "even non-zero operand"
    for v, it in run_case_all(ast, w, "wrapping_inv", even):
        if isinstance(v, str):
            return f"{what}: {v}"
        if not (isinstance(v, Opt) and not v.some):
            return f"{what}: returns {v!r}, no inverse exists"
    return None


def check_div_cases(ast, w):
    """yields (case tag, problem text or None)"""
    for s in range(0, w + 1):
        m = w - s
        cases = ["zero"] + (["lt"] if s > 0 else []) + (["eq"] if s < w else []) + (["gt"] if s < w - 1 else [])
        for case in cases:
            def setup(it, s=s, case=case):
                dpoly = Poly() if s == w else Poly.var("d") * Poly.const(1 << s)
                if s < w:
                    it.odd.add("d")
                    it.shr_ok[(repr(dpoly), s)] = Poly.var("d")
                it.tz[repr(dpoly)] = s
                it.nonzero = {}
                if s < w:
                    it.nonzero[repr(dpoly)] = True
                if case == "zero":
                    npoly = Poly()
                    it.tz[repr(npoly)] = w
                elif case == "lt":
                    npoly = Poly.var("n")
                    it.tz[repr(npoly)] = TzN("lt", s)
                    it.nonzero[repr(npoly)] = True
                else:
                    npoly = Poly.var("n") * Poly.const(1 << s) if s else Poly.var("n")
                    it.tz[repr(npoly)] = TzN(case, s)
                    it.nonzero[repr(npoly)] = True
                    it.shr_ok[(repr(npoly), s)] = Poly.var("n")
                    if case == "eq":
                        it.odd.add("n")
                it._n, it._d = npoly, dpoly
                return [Cell(npoly), Cell(dpoly)]
            tag = f"tz(d) = {s}, " + {"zero": "n = 0", "lt": "n != 0, tz(n) < tz(d)", "eq": "n != 0, tz(n) = tz(d)", "gt": "n != 0, tz(n) > tz(d)"}[case]
            prob = None
            for v, it in run_case_all(ast, w, "wrapping_div", setup):
                prob = judge_div(v, it, case, w, m)
                if prob:
                    break
            yield tag, prob


def judge_div(v, it, case, w, m):
            prob = None
            if isinstance(v, str):
                prob = v
            elif case == "zero":
                if not (isinstance(v, Opt) and v.some and isinstance(v.v, (Cell, K)) and it.const_of(it.cell(v.v)) == 0):
                    prob = f"returns {v!r}, the smallest solution is Some(0)"
            elif case == "lt":
                if not (isinstance(v, Opt) and not v.some):
                    prob = f"returns {v!r}, no solution exists"
            elif not (isinstance(v, Opt) and v.some and isinstance(v.v, (Cell, K))):
                prob = f"returns {v!r}, a solution exists"
            else:
                x = it.cell(v.v)
                t = it.content(x.p * it._d - it._n)
                if t < w:
                    prob = f"result * d - n is only known to be divisible by 2^{t}, the contract requires 2^{w}"
                elif m < w and not (x.lt is not None and x.lt <= (1 << m)):
                    prob = f"the result is not reduced below 2^{m}: it need not be the smallest solution"
            return prob


def run_cell_algebra(res, ast):
    """POW-INVARIANT, INV-CONTRACT, DIV-CONTRACT (see the module text)"""
    from common import where
    res.files.add(LIB)
    res.rule("POW-INVARIANT", "CellType::wrapping_pow returns base^exp: its loop conserves result * base^exp on every path of an iteration "
             "(parity test splits exp into 2q / 2q+1) and is left only when no factor remains; decided in the exponent domain per width",
             floor=4, what="widths")
    res.rule("INV-CONTRACT", "CellType::wrapping_inv: Some(x) with self * x = 1 (mod 2^W) for odd self, None for even self; decided in the 2-adic "
             "polynomial domain (a.pow(e) inverts a to k bits when lambda(2^k) | e+1; stored values re-abstracted by precision) per width",
             floor=12, what="width x {odd, even, zero} cases")
    res.rule("DIV-CONTRACT", "CellType::wrapping_div(n, d): Some(0) for n = 0; None when tz(n) < tz(d); otherwise Some(x) with x*d - n divisible by "
             "2^W and x < 2^(W - tz(d)) (the smallest solution); decided per width, per tz(d) in 0..W and per relation of tz(n) to tz(d), "
             "operands symbolic", floor=480, what="width x tz(d) x tz(n)-relation cases")
    fnode = {n: _fn(ast, n) for n in ("wrapping_pow", "wrapping_inv", "wrapping_div")}
    for n, f in fnode.items():
        if f is None:
            from common import Missing
            res.missing({"wrapping_pow": "POW-INVARIANT", "wrapping_inv": "INV-CONTRACT", "wrapping_div": "DIV-CONTRACT"}[n], Missing(f"CellType::{n}"))
    notes = {}
    for w in WIDTHS:
        if fnode["wrapping_pow"] is not None:
            probs, nt = check_pow(ast, w)
            res.check(not probs, "POW-INVARIANT", f"{LIB}|CellType::wrapping_pow|u{w}", where(LIB, _fn(ast, "wrapping_pow", w), "CellType::wrapping_pow"),
                      f"u{w}: wrapping_pow does not compute base^exp: " + "; ".join(probs[:2]), detail={"loop": nt})
        if fnode["wrapping_inv"] is not None:
            fn = _fn(ast, "wrapping_inv", w)
            for tag in ("odd", "even", "zero"):
                p = check_inv_case(ast, w, tag)
                res.check(not p, "INV-CONTRACT", f"{LIB}|CellType::wrapping_inv|u{w}|{tag}", where(LIB, fn, "CellType::wrapping_inv"), f"u{w}, {p}")
        if fnode["wrapping_div"] is not None:
            fn = _fn(ast, "wrapping_div", w)
            for tag, p in check_div_cases(ast, w):
                res.check(not p, "DIV-CONTRACT", f"{LIB}|CellType::wrapping_div|u{w}|{tag}", where(LIB, fn, "CellType::wrapping_div"), f"u{w}, {tag}: {p}")
