"""Shared machinery of the static checkers: AST loading (engine E1), rule results,
known-findings matching, evidence and replay records.

Nothing here executes hpbf. `load_ast` shells out to /verif/target/astdump (a syn-based
parser, built by MANIFEST.setup_cmd) on the *current* files of /repo on every run.
"""
import json, os, subprocess, sys, time, glob, hashlib

VERIF = os.path.dirname(os.path.dirname(os.path.abspath(__file__)))
REPO = os.environ.get("HPBF_REPO", "/repo")
ASTDUMP = os.path.join(VERIF, "target", "astdump", "release", "astdump")


class CheckerError(Exception):
    """The checker itself cannot run (tool missing, file unparsable). Fail closed."""


# ----------------------------------------------------------------------------- AST

class Ast:
    def __init__(self, doc, root):
        self.root = root
        self.files = {f["path"]: f for f in doc["files"]}
        self._src = {}
        self._fns = None

    def has(self, path):
        return path in self.files

    def file(self, path):
        if path not in self.files:
            raise Missing(f"file {path} not found in the analysed tree")
        return self.files[path]

    def lines(self, path):
        if path not in self._src:
            f = self.files[path]
            with open(f["abs"], encoding="utf-8") as fh:
                self._src[path] = fh.read().split("\n")
        return self._src[path]

    def src(self, path, node):
        """Exact source text of a node (character columns, as proc-macro2 reports them)."""
        l0, c0, l1, c1 = node["sp"]
        ls = self.lines(path)
        if l0 == l1:
            return ls[l0 - 1][c0:c1]
        out = [ls[l0 - 1][c0:]] + ls[l0:l1 - 1] + [ls[l1 - 1][:c1]]
        return "\n".join(out)

    def src1(self, path, node, limit=160):
        s = " ".join(self.src(path, node).split())
        return s if len(s) <= limit else s[:limit - 3] + "..."

    # -- function index -----------------------------------------------------------
    def functions(self):
        """All functions: list of dicts {path, container, name, node, cfg}."""
        if self._fns is None:
            out = []
            for path, f in self.files.items():
                self._collect(path, f["items"], "", out, [])
            self._fns = out
        return self._fns

    def _collect(self, path, items, container, out, cfgs):
        for it in items:
            t = it["t"]
            own = cfgs + cfg_of(it)
            if t == "Fn":
                out.append({"path": path, "container": container, "name": it["name"], "node": it, "cfg": own})
                # nested fns
                if it.get("body"):
                    self._nested(path, it["body"], container + "::" + it["name"] if container else it["name"], out, own)
            elif t == "Impl":
                tr = it["trait"]["s"] if it["trait"] else None
                c = ("impl " + (tr + " for " if tr else "") + it["self_ty"]["s"])
                self._collect(path, it["items"], c, out, own)
            elif t == "Trait":
                self._collect(path, it["items"], "trait " + it["name"], out, own)
            elif t == "Mod" and it["items"] is not None:
                self._collect(path, it["items"], (container + "::" if container else "") + "mod " + it["name"], out, own)

    def _nested(self, path, block, container, out, cfgs):
        for st in block["stmts"]:
            if st["t"] == "Fn":
                out.append({"path": path, "container": container, "name": st["name"], "node": st, "cfg": cfgs + cfg_of(st)})

    def find_fns(self, path=None, name=None, container=None, contains=None):
        res = []
        for f in self.functions():
            if path is not None and f["path"] != path:
                continue
            if name is not None and f["name"] != name:
                continue
            if container is not None and f["container"] != container:
                continue
            if contains is not None and contains not in f["container"]:
                continue
            res.append(f)
        return res

    def fn(self, path, name, container=None, contains=None, cfg=None):
        """Exactly one function, else Missing (anchor lost -> fail closed)."""
        fs = self.find_fns(path, name, container, contains)
        if cfg is not None:
            fs = [f for f in fs if cfg in [c for c in f["cfg"]]]
        if len(fs) != 1:
            raise Missing(f"anchor function {path}::{container or contains or ''}::{name}"
                          f"{' [' + cfg + ']' if cfg else ''}: found {len(fs)}, need exactly 1")
        return fs[0]

    def items(self, path, kind=None, name=None):
        res = []

        def rec(items):
            for it in items:
                if (kind is None or it["t"] == kind) and (name is None or it.get("name") == name):
                    res.append(it)
                if it["t"] == "Mod" and it["items"] is not None:
                    rec(it["items"])
        rec(self.file(path)["items"])
        return res

    def item(self, path, kind, name):
        r = self.items(path, kind, name)
        if len(r) != 1:
            raise Missing(f"anchor item {kind} {name} in {path}: found {len(r)}, need exactly 1")
        return r[0]


class Missing(Exception):
    """An anchor the rule is built on is not present: reported as a violation (fail closed)."""


def cfg_of(item):
    out = []
    for a in item.get("attrs", []) or []:
        if a["path"] == "cfg":
            out.append(a["s"])
    return out


def is_test_item(fnrec):
    return any("test" in c for c in fnrec["cfg"]) or "mod tests" in fnrec["container"]


def repo_rs_files(root=None):
    root = root or REPO
    fs = sorted(glob.glob(os.path.join(root, "src", "**", "*.rs"), recursive=True))
    return fs


_ast_cache = {}


def load_ast(root=None, extra_files=()):
    root = root or REPO
    key = (root, tuple(extra_files))
    if key in _ast_cache:
        return _ast_cache[key]
    if not os.path.exists(ASTDUMP):
        raise CheckerError(f"{ASTDUMP} not built; run the MANIFEST setup_cmd")
    files = repo_rs_files(root) + list(extra_files)
    if not files:
        raise CheckerError(f"no source files under {root}/src")
    p = subprocess.run([ASTDUMP, "--root", root] + files, capture_output=True, text=True)
    if p.returncode != 0:
        raise CheckerError("astdump failed: " + p.stderr.strip())
    a = Ast(json.loads(p.stdout), root)
    look_through(a)
    _ast_cache[key] = a
    return a


VOCAB = os.path.join(os.path.dirname(os.path.abspath(__file__)), "vocab.json")


def fn_signature(node):
    """parameter and result types of a function, names removed (used to recognise a renamed function)"""
    ins = []
    for p_ in node["sig"]["inputs"]:
        if p_["t"] == "Receiver":
            ins.append(("&" if p_.get("ref") else "") + ("mut " if p_.get("mut") else "") + "self")
        else:
            ins.append(p_["ty"]["s"].replace(" ", ""))
    out = node["sig"]["output"]["s"].replace(" ", "") if node["sig"].get("output") else ""
    return "(" + ",".join(ins) + ")->" + out


def look_through(a, prefix=""):
    """Helper functions that are not in the vocabulary the rules were confirmed against (lib/vocab.json) are inlined at
    their call sites (lib/pm.py inline_helpers), so that extracting lines into a new private helper leaves what the rules
    analyse unchanged.  A new helper whose every call could be inlined is dropped from the function index; one that could
    not be inlined everywhere stays visible and is analysed like any other function."""
    if os.environ.get("HPBF_NO_LOOKTHROUGH"):
        return
    # a behaviour-preserving normal form applied to every function: a value chosen by `let x = if ..` and used once in the next statement is
    # sunk into the branches (so `let next = if c {a} else {b}; f(next)` reads like `if c { f(a) } else { f(b) }`)
    import pm as _pm
    a.normalised = 0
    # functions that are one pure expression of their parameters (no memory read): calls of them are pure
    for f_ in a.functions():
        b_ = f_["node"].get("body")
        if b_ is not None and not is_test_item(f_) and len(b_["stmts"]) == 1 and b_["stmts"][0]["t"] == "ExprStmt" and not b_["stmts"][0]["semi"]:
            e_ = b_["stmts"][0]["expr"]
            if e_.get("t") == "Unsafe" and len(e_["block"]["stmts"]) == 1 and e_["block"]["stmts"][0]["t"] == "ExprStmt":
                e_ = e_["block"]["stmts"][0]["expr"]
            uniq = sum(1 for g_ in a.functions() if g_["name"] == f_["name"]) == 1
            if _pm._const_pure(e_) and not f_["container"] and uniq and f_["node"]["sig"]["inputs"] and all(p_["t"] == "Arg" for p_ in f_["node"]["sig"]["inputs"]):
                _pm.PURE_FNS.add(f_["name"])
    for f_ in a.functions():
        if f_["node"].get("body") is not None and not is_test_item(f_):
            before = _pm.SINK_COUNT[0] + _pm.UNGUARD_COUNT[0]
            nb = _pm.unguard_fn(f_["node"]) if not os.environ.get("HPBF_NO_UNGUARD") else f_["node"]["body"]
            nb = _pm.sink_let_if(nb)
            # locals that only name a value computed without reading memory (`let next = ip.add(2)`, `let t = temps_ptr(cxt)`) or a place
            # (`let m = &mut (*cxt).context.memory`) are replaced by what they name
            try:
                nc_ = _pm.NORM_COUNT[0]
                nst = _pm.normalize_stmts(nb["stmts"], light=True)
                if _pm.NORM_COUNT[0] != nc_:
                    nb = {**nb, "stmts": nst}
                    _pm.SINK_COUNT[0] += 1
            except (KeyError, TypeError, AttributeError):
                pass
            if _pm.SINK_COUNT[0] + _pm.UNGUARD_COUNT[0] != before:
                a.normalised += 1
                f_["node"]["body"] = nb
    try:
        return _look_through_helpers(a, prefix)
    finally:
        number_nodes(a)


def number_nodes(a):
    """gives every node of every function body its position in evaluation (pre-)order: `ord` and the last position of its subtree `ord_end`.
    Rules compare these instead of line numbers, because inlined helper bodies keep the spans of the helper."""
    for f_ in a.functions():
        b_ = f_["node"].get("body")
        if b_ is None:
            continue
        counter = [0]

        def rec(n):
            if isinstance(n, dict):
                counter[0] += 1
                n["ord"] = counter[0]
                for k, v in n.items():
                    if k in ("sp", "attrs"):
                        continue
                    if isinstance(v, (dict, list)):
                        rec(v)
                n["ord_end"] = counter[0]
            elif isinstance(n, list):
                for x in n:
                    rec(x)
        rec(b_)


def before(x, y):
    """does node x come (entirely) before node y in the function? (position order; falls back to line numbers)"""
    if "ord_end" in x and "ord" in y:
        return x["ord_end"] < y["ord"]
    return x["sp"][0] < y["sp"][0]


def inside(x, y):
    if "ord" in x and "ord" in y and "ord_end" in y:
        return y["ord"] <= x["ord"] <= y["ord_end"]
    return y["sp"][0] <= x["sp"][0] <= y["sp"][2]


def _look_through_helpers(a, prefix=""):
    if not os.path.exists(VOCAB):
        raise CheckerError("lib/vocab.json missing (tools/gen_vocab.py)")
    with open(VOCAB) as fh:
        vocab = json.load(fh)
    import pm
    a.looked_through = {}
    allf = a.functions()
    for path in list(a.files):
        known = vocab.get(prefix + path)
        if known is None:
            continue
        known = set(known)
        fns = [f for f in allf if f["path"] == path]
        new = [f for f in fns if (f["container"] + "::" + f["name"]) not in known and not is_test_item(f) and f["node"].get("body")]
        # a function of the vocabulary that has vanished while a new one with the same container and signature appeared
        # has been renamed: it stays visible (the rules find private helpers by role)
        sigs = vocab.get("sig:" + prefix + path, {})
        present = {f["container"] + "::" + f["name"] for f in fns}
        vanished = {k: v for k, v in sigs.items() if k not in present}
        renamed = [f for f in new if any(k.rsplit("::", 1)[0] == f["container"] and v == fn_signature(f["node"]) for k, v in vanished.items())]
        new = [f for f in new if not any(f is r for r in renamed)]
        if not new:
            continue
        new_names = {f["name"] for f in new}
        keep = tuple({f["name"] for f in fns} - new_names)
        for f in fns:
            if f["node"].get("body") is None or is_test_item(f):
                continue
            try:
                f["node"]["body"] = pm.inline_helpers(a, path, f["node"], depth=3, exprs=True, keep=keep)["body"]
            except (KeyError, TypeError, AttributeError, IndexError):
                pass    # leave the function as written; the helper stays visible
        # which new helpers are still referenced?
        still = set()
        for f in fns:
            if is_test_item(f) or f["node"].get("body") is None:
                continue
            for n in walk(f["node"]["body"]):
                nm = pm._callee_name(n) if n.get("t") in ("Call", "MethodCall") else None
                if nm in new_names:
                    still.add(nm)
                if n.get("t") == "Call":
                    pn = path_name(strip_paren(n["func"]))
                    if pn and pn.split("::")[-1] in new_names:
                        still.add(pn.split("::")[-1])
                if n.get("t") == "PathExpr" and n["path"]["name"].split("::")[-1] in new_names:
                    still.add(n["path"]["name"].split("::")[-1])
        gone = [f for f in new if f["name"] not in still]
        a.looked_through[path] = {"inlined": sorted(f["name"] for f in gone), "kept_visible": sorted(still)}
        a._fns = [f for f in a._fns if not any(f is g for g in gone)]


def parse_text(text, name="snippet.rs"):
    """Parse an in-memory Rust source (used for expanded source and fixtures)."""
    import tempfile
    d = tempfile.mkdtemp(prefix="hpbf-verif-")
    try:
        fn = os.path.join(d, name)
        with open(fn, "w") as fh:
            fh.write(text)
        p = subprocess.run([ASTDUMP, "--root", d, fn], capture_output=True, text=True)
        if p.returncode != 0:
            raise CheckerError("astdump failed on snippet: " + p.stderr.strip())
        a = Ast(json.loads(p.stdout), d)
        a.lines(name)  # read now; the temp dir is removed below
        return a
    finally:
        import shutil
        shutil.rmtree(d, ignore_errors=True)


# --------------------------------------------------------------------------- walking

def walk(node):
    """Pre-order walk over all dict nodes reachable from node."""
    stack = [node]
    while stack:
        n = stack.pop()
        if isinstance(n, dict):
            yield n
            for v in reversed(list(n.values())):
                if isinstance(v, (dict, list)):
                    stack.append(v)
        elif isinstance(n, list):
            for v in reversed(n):
                if isinstance(v, (dict, list)):
                    stack.append(v)


def walk_t(node, *kinds):
    for n in walk(node):
        if n.get("t") in kinds:
            yield n


def strip_paren(e):
    while isinstance(e, dict) and e.get("t") == "Paren":
        e = e["expr"]
    return e


def path_name(e):
    """'A::B' for a PathExpr / PPath / TyPath node, else None."""
    if not isinstance(e, dict):
        return None
    if e.get("t") in ("PathExpr", "PPath", "TyPath"):
        return e["path"]["name"]
    if e.get("t") == "Path":
        return e["name"]
    return None


def line(node):
    return node["sp"][0]


def int_lit(e):
    """Integer value of a literal expression (handles unary minus), else None."""
    e = strip_paren(e)
    if isinstance(e, dict) and e.get("t") == "Lit" and e.get("kind") == "int":
        return int(e["digits"])
    if isinstance(e, dict) and e.get("t") == "Unary" and e["op"] == "-":
        v = int_lit(e["expr"])
        return -v if v is not None else None
    return None


def method_chain(e):
    """Flatten a.b(x).c(y) into (base_expr, [(method, args, node), ...])."""
    chain = []
    while isinstance(e, dict) and e.get("t") == "MethodCall":
        chain.append((e["method"], e["args"], e))
        e = e["receiver"]
    chain.reverse()
    return e, chain


# --------------------------------------------------------------------------- results

class Ob:
    """One obligation (rule instance): a site or path the rule was evaluated on."""
    __slots__ = ("rule", "key", "ok", "where", "msg", "detail", "nontrivial")

    def __init__(self, rule, key, ok, where, msg="", detail=None, nontrivial=True):
        self.rule, self.key, self.ok, self.where, self.msg = rule, key, ok, where, msg
        self.detail, self.nontrivial = detail, nontrivial

    def full_key(self):
        return f"{self.rule}|{self.key}"


class Result:
    def __init__(self, prop):
        self.prop = prop
        self.obs = []
        self.rules = {}       # rule id -> description
        self.floors = {}      # rule id -> (floor, what)
        self.samples = []
        self.notes = []
        self.not_decided = []
        self.evaluations = 0
        self.trusted = []
        self.files = set()

    def rule(self, rid, desc, floor=None, what=None):
        self.rules[rid] = desc
        if floor is not None:
            self.floors[rid] = (floor, what or "instances")

    def ok(self, rule, key, where, msg="", detail=None, nontrivial=True):
        self.obs.append(Ob(rule, key, True, where, msg, detail, nontrivial))

    def bad(self, rule, key, where, msg, detail=None):
        self.obs.append(Ob(rule, key, False, where, msg, detail))

    def check(self, cond, rule, key, where, msg_bad, msg_ok="", detail=None):
        if cond:
            self.ok(rule, key, where, msg_ok, detail)
        else:
            self.bad(rule, key, where, msg_bad, detail)
        return cond

    def missing(self, rule, exc):
        self.bad(rule, "anchor-missing|" + hashlib.sha1(str(exc).encode()).hexdigest()[:8], "-",
                 f"anchor missing (fail closed): {exc}")

    def sample(self, s):
        if len(self.samples) < 40:
            self.samples.append(s)

    def guard(self, rule):
        """Context manager: a Missing anchor inside becomes a fail-closed violation."""
        res = self

        class G:
            def __enter__(self_):
                return self_

            def __exit__(self_, et, ev, tb):
                if et is not None and issubclass(et, Missing):
                    res.missing(rule, ev)
                    return True
                return False
        return G()


def where(path, node=None, fn=None):
    s = path
    if node is not None:
        s += f":{line(node)}"
    if fn:
        s += f" ({fn})"
    return s


def tempfile_dir():
    import tempfile
    return tempfile.mkdtemp(prefix="hpbf-ev-")


def load_known():
    p = os.path.join(VERIF, "known_findings.json")
    with open(p) as fh:
        doc = json.load(fh)
    return {f["key"]: f for f in doc["findings"] if f.get("status") == "known"}


def finish(res, tier, t0, level="other", explanation="", checker_cmd="", extra_cov=None, seed=0):
    """Apply floors and known findings, print the report, write evidence, return exit code."""
    prop = res.prop
    # floors: fail closed when a rule matched fewer instances than confirmed by hand
    for rid, (floor, what) in res.floors.items():
        n = sum(1 for o in res.obs if o.rule == rid)
        if n < floor:
            res.bad(rid, f"floor|{rid}", "-", f"rule {rid} matched {n} {what}, below the floor {floor} confirmed by hand "
                    f"(vacuous pass prevented; the anchors of this rule have moved)")
    for rid in res.rules:
        if not any(o.rule == rid for o in res.obs):
            res.bad(rid, f"floor|{rid}", "-", f"rule {rid} produced no obligation at all (fail closed)")
    known = load_known()
    viol, knownhits = [], []
    for o in res.obs:
        if o.ok:
            continue
        k = o.full_key()
        if k in known and known[k]["property"] == prop:
            knownhits.append((o, known[k]))
        else:
            viol.append(o)
    scratch_run = bool(os.environ.get("HPBF_NO_EVIDENCE"))   # a run against a mutated scratch copy
    evdir = os.path.join(VERIF, "evidence") if not scratch_run else tempfile_dir()
    os.makedirs(os.path.join(evdir, "replay"), exist_ok=True)
    # stale replay records of this property
    for f in glob.glob(os.path.join(evdir, "replay", f"{prop}-*.json")):
        try:
            os.remove(f)
        except OSError:
            pass
    per_rule = {}
    for o in res.obs:
        d = per_rule.setdefault(o.rule, {"obligations": 0, "discharged": 0})
        d["obligations"] += 1
        d["discharged"] += 1 if o.ok else 0
    print(f"== {prop} [{tier}] static check on {REPO}")
    for rid, desc in res.rules.items():
        d = per_rule.get(rid, {"obligations": 0, "discharged": 0})
        fl = res.floors.get(rid)
        print(f"  rule {rid}: {d['discharged']}/{d['obligations']} obligations discharged"
              + (f" (floor {fl[0]} {fl[1]})" if fl else "") + f" - {desc}")
    for n in res.notes:
        print(f"  note: {n}")
    seen = set()
    for o, kf in knownhits:
        if o.full_key() in seen:
            continue
        seen.add(o.full_key())
        print(f"KNOWN-FINDING: property={prop} {o.full_key()} at {o.where}: {kf.get('what', o.msg)}")
    nrep = 0
    for i, o in enumerate(viol):
        rp = os.path.join(evdir, "replay", f"{prop}-{i}.json")
        with open(rp, "w") as fh:
            json.dump({"property": prop, "rule": o.rule, "key": o.full_key(), "where": o.where,
                       "message": o.msg, "detail": o.detail}, fh, indent=1, default=str)
        print(f"  violation [{o.rule}] {o.where}: {o.msg}")
        if o.detail:
            for ln in (o.detail if isinstance(o.detail, list) else [o.detail]):
                print(f"      {ln}")
        print(f"VIOLATION property={prop} replay={rp}")
        nrep += 1
    nontriv = len({o.full_key() for o in res.obs if o.nontrivial})
    cov = {
        "explanation": explanation,
        "obligations": len(res.obs),
        "discharged": sum(1 for o in res.obs if o.ok),
        "evaluations": max(res.evaluations, len(res.obs)),
        "distinct_nontrivial": nontriv,
        "rule": "one obligation per enumerated rule instance (site, arm, path or abstract input) of the rules "
                "listed under 'rules'; an instance is non-trivial when it has at least one operand, branch or "
                "callee to decide; distinct = distinct instance keys (rule|file|function|instance)",
        "samples": res.samples[:40] or [o.full_key() + " @ " + o.where for o in res.obs[:10]],
        "checker_cmd": checker_cmd or f"./check {prop} --tier {tier}",
        "trusted_base": res.trusted or ["syn 2 parser (astdump)", "the rule tables in /verif/lib"],
        "exhaustive": True,
        "rules": {rid: {"description": desc, **per_rule.get(rid, {"obligations": 0, "discharged": 0}),
                        **({"floor": res.floors[rid][0]} if rid in res.floors else {})}
                  for rid, desc in res.rules.items()},
        "files_analysed": sorted(res.files),
        "not_decided": res.not_decided,
        "known_findings_reported": sorted(seen),
        "notes": res.notes,
    }
    if extra_cov:
        cov.update(extra_cov)
    ev = {
        "property_id": prop, "tier": tier, "seed": seed, "level": level, "coverage": cov,
        "assumptions": res.trusted,
        "wall_s": round(time.time() - t0, 3),
        "violations": len(viol),
    }
    with open(os.path.join(evdir, f"{prop}.json"), "w") as fh:
        json.dump(ev, fh, indent=1, default=str)
    if scratch_run:
        import shutil
        shutil.rmtree(evdir, ignore_errors=True)
    print(f"== {prop}: {len(res.obs)} obligations, {sum(1 for o in res.obs if o.ok)} discharged, "
          f"{len(viol)} violation(s), {len(seen)} known finding(s), {ev['wall_s']} s")
    return 1 if viol else 0


# --------------------------------------------------------------------------- E3: expanded source

_expanded_cache = {}


def load_expanded(root=None, rename=("idx", "idx2", "off", "off2", "val")):
    """Macro-expanded library source (cargo +nightly rustc -- -Zunpretty=expanded,hygiene) parsed by astdump.
    Identifiers in `rename` that were introduced by a macro expansion get their hygiene context appended
    (`idx__h96`), so that two operands bound to the 'same' name by different expansion steps stay distinct.
    Nothing is executed: the compiler stops after expansion."""
    import re, tempfile, shutil
    root = root or REPO
    if root in _expanded_cache:
        return _expanded_cache[root]
    tdir = tempfile.mkdtemp(prefix="hpbf-exp-")
    try:
        env = dict(os.environ, CARGO_TARGET_DIR=os.path.join(tdir, "target"), CARGO_NET_OFFLINE="true")
        p = subprocess.run(["cargo", "+nightly", "rustc", "--offline", "--lib", "--quiet", "--", "-Zunpretty=expanded,hygiene", "-Awarnings"],
                           cwd=root, env=env, capture_output=True, text=True)
        if p.returncode != 0 or "fn " not in p.stdout:
            raise CheckerError("macro expansion failed: " + p.stderr.strip()[-400:])
        text = p.stdout
        names = "|".join(re.escape(n) for n in rename)

        def sub(m):
            name, ctx = m.group(1), m.group(2)
            if ctx != "0" and re.fullmatch(names, name):
                return f"{name}__h{ctx}"
            return name
        text = re.sub(r"\b([A-Za-z_][A-Za-z0-9_]*)\s*/\*\s*\d+#(\d+)\s*\*/", sub, text)
        fn = os.path.join(tdir, "expanded.rs")
        with open(fn, "w") as fh:
            fh.write(text)
        q = subprocess.run([ASTDUMP, "--root", tdir, fn], capture_output=True, text=True)
        if q.returncode != 0:
            raise CheckerError("astdump failed on the expanded source: " + q.stderr.strip()[-400:])
        a = Ast(json.loads(q.stdout), tdir)
        a.lines("expanded.rs")
        look_through(a, prefix="expanded:")
        _expanded_cache[root] = a
        return a
    finally:
        shutil.rmtree(tdir, ignore_errors=True)
