"""Registry: property id -> rules, explanation, not-decided clauses."""
import common
from common import load_ast


def run_c03(res, tier):
    import sel
    ast = load_ast()
    extra = {}
    extra["sel"] = sel.run_sel(res, ast)
    import asmtab
    extra["asm"] = asmtab.run_asm_table(res, ast)
    asmtab.run_sel_width(res, ast)
    import asmcore
    asmcore.run_asm_core(res, ast, thorough=(tier == "thorough"))
    import jit
    jit.run_jit_rules(res, ast, ["CALL-SAVE", "CALL-PROTO", "JIT-TERM", "PROBE-SEQ", "PROBE-DIR-JIT", "ABI-OFFSETS",
                                 "LIM-JIT", "FRAME", "BR-JIT"])
    return extra


REGISTRY = {
    "C03": {
        "run": run_c03,
        "level": "other",
        "explanation": "Static template-effect analysis of the x86-64 instruction selector.",
        "not_decided": [],
    },
}
