"""Registry: property id -> rules, explanation, not-decided clauses."""
import common
from common import load_ast


def run_c03(res, tier):
    import sel
    ast = load_ast()
    extra = {}
    extra["sel"] = sel.run_sel(res, ast)
    import asmtab
    extra["asm"] = asmtab.run_asm_table(res, ast)
    asmtab.run_sel_width(res, ast)
    import asmcore
    asmcore.run_asm_core(res, ast, thorough=(tier == "thorough"))
    import jit
    jit.run_jit_rules(res, ast, ["CALL-SAVE", "CALL-PROTO", "JIT-TERM", "PROBE-SEQ", "PROBE-DIR-JIT", "ABI-OFFSETS",
                                 "LIM-JIT", "FRAME", "BR-JIT"])
    return extra


def run_c18(res, tier):
    import sv
    ast = load_ast()
    sv.run_sv(res, ast)
    return {}


def run_c08(res, tier):
    import iolim, jit
    ast = load_ast()
    iolim.run_io_map(res, ast)
    iolim.run_io_discipline(res, ast)
    jit.run_jit_rules(res, ast, ["JIT-TERM"])
    return {}


def run_c07(res, tier):
    import iolim, jit
    ast = load_ast()
    iolim.run_lim(res, ast)
    jit.run_jit_rules(res, ast, ["LIM-JIT", "FRAME"])
    return {}


def run_c16(res, tier):
    import cli
    ast = load_ast()
    cli.run_cli(res, ast)
    return {}


def run_c12(res, tier):
    import front
    ast = load_ast()
    front.run_parse_rules(res, ast)
    return {}


def run_c04(res, tier):
    import front, iolim
    ast = load_ast()
    front.run_cmd_table(res, ast)
    front.run_cell_rules(res, ast, rules=("WRAP-BY-TYPE", "CELL-CASTS", "CELL-CONSTS", "CELL-DELEGATE"))
    iolim.run_io_map(res, ast)
    return {}


def run_c14(res, tier):
    import front
    ast = load_ast()
    front.run_cell_rules(res, ast)
    return {}


def run_c02(res, tier):
    import bcops
    from common import load_expanded
    ast = load_ast()
    east = load_expanded()
    st = bcops.run_bc_effect(res, ast, east)
    bcops.run_bc_fixed(res, ast)
    bcops.run_bc_thread(res, ast)
    bcops.run_bc_simul(res, ast)
    import moves, passes
    moves.run_moves(res, ast)
    passes.run_pass_kill(res, ast)
    return {"bc_effect": {k: (len(v) if isinstance(v, set) else v) for k, v in (st or {}).items()}}


def run_c06(res, tier):
    import moves, jit, iolim, passes, asmtab
    ast = load_ast()
    moves.run_moves(res, ast, rules=("PROBE-DIR", "UNSAFE-TWIN", "WIN-ENTRY"))
    jit.run_jit_rules(res, ast, ["PROBE-SEQ", "PROBE-DIR-JIT", "ABI-OFFSETS"])
    res.rule("SAFE-MAP", "execute / execute_limited / execute_unsafe select (limited, safe) = (false,true) / (true,true) / (false,false); "
             "interpreters without unchecked code do not override execute_unsafe", floor=8, what="entry points")
    iolim.run_mode_map(res, ast, "SAFE-MAP")
    passes.run_c11(res, ast, rules=("WINDOW-BY-CONSTRUCTION",))
    asmtab.run_asm_table(res, ast)
    asmtab.run_sel_width(res, ast)
    return {}


def run_c10(res, tier):
    import moves, jit, iolim
    ast = load_ast()
    moves.run_moves(res, ast, rules=("UNSAFE-TWIN",))
    jit.run_jit_rules(res, ast, ["PROBE-SEQ"])
    res.rule("SAFE-MAP", "execute / execute_limited / execute_unsafe select (limited, safe) = (false,true) / (true,true) / (false,false); "
             "interpreters without unchecked code do not override execute_unsafe", floor=8, what="entry points")
    iolim.run_mode_map(res, ast, "SAFE-MAP")
    moves.run_prealloc(res, ast)
    return {}


def run_c11(res, tier):
    import passes, bcops
    ast = load_ast()
    passes.run_c11(res, ast)
    passes.run_pass_kill(res, ast)
    return {}


REGISTRY = {
    "C06": {"run": run_c06, "level": "other", "technique": "t", "claim": "c", "note": "n", "explanation": "e", "not_decided": []},
    "C10": {"run": run_c10, "level": "other", "technique": "t", "claim": "c", "note": "n", "explanation": "e", "not_decided": []},
    "C11": {"run": run_c11, "level": "other", "technique": "t", "claim": "c", "note": "n", "explanation": "e", "not_decided": []},
    "C02": {"run": run_c02, "level": "other", "technique": "t", "claim": "c", "note": "n", "explanation": "e", "not_decided": []},
    "C12": {"run": run_c12, "level": "other", "technique": "t", "claim": "c", "note": "n", "explanation": "e", "not_decided": []},
    "C04": {"run": run_c04, "level": "other", "technique": "t", "claim": "c", "note": "n", "explanation": "e", "not_decided": []},
    "C14": {"run": run_c14, "level": "other", "technique": "t", "claim": "c", "note": "n", "explanation": "e", "not_decided": []},
    "C16": {"run": run_c16, "level": "other", "technique": "t", "claim": "c", "note": "n", "explanation": "e", "not_decided": []},
    "C08": {"run": run_c08, "level": "other", "technique": "t", "claim": "c", "note": "n", "explanation": "e", "not_decided": []},
    "C07": {"run": run_c07, "level": "other", "technique": "t", "claim": "c", "note": "n", "explanation": "e", "not_decided": []},
    "C18": {
        "run": run_c18,
        "level": "other",
        "technique": "path-sensitive typestate and discriminant-dominance analysis over the syntax tree of smallvec.rs",
        "claim": "Decides the drop/ownership discipline of the MaybeUninit representation (every slot kept or consumed "
                 "exactly once on every syntactic path of every per-slot loop; iterator cursor; ownership transfer) and "
                 "the union-discriminant discipline (payload and tag only touched in the branch a size<=N test selects). "
                 "These are necessary conditions of 'every element dropped exactly once' and of memory-safe access; "
                 "content equivalence with Vec under all histories is not decided.",
        "note": "Trusted: the syn parser; std's Vec for the heap representation; the loop invariant j <= i of the compaction "
                "loops is derived from the checked prologue (size reset to the loop's first index) and at-most-one increment per path.",
        "explanation": "Static typestate / representation-discipline analysis of src/smallvec.rs: SV-DISPOSE enumerates every "
                       "syntactic path through the per-slot loops of retain/retain_mut/dedup/clear/Drop and classifies the slot as "
                       "kept, moved or consumed; SV-REPR-GUARD places every access of data.arr/data.vec/size in the region of a "
                       "discriminant test; SV-ITER/SV-NODOUBLE check the by-value iterator and the two ownership transfers.",
        "not_decided": ["content equivalence with Vec for all operation sequences (functional equivalence)",
                        "panic-safety of retain/dedup when the predicate or PartialEq panics (the code documents that it leaks then)"],
    },
    "C03": {
        "run": run_c03,
        "level": "other",
        "technique": "template effect analysis: abstract interpretation of the selector and encoder templates over finite operand domains with polynomial values, compared with the bytecode meaning and an Intel SDM reference table",
        "claim": "Decides that the baseline JIT's translation layer is right for every operand-kind combination it "
                 "distinguishes: each arithmetic/copy arm of the selector has exactly the effect dst := src0 op src1 under every "
                 "aliasing/residency/liveness/immediate-size input (SEL-EFFECT, SEL-COVER); every encoder emits the reference "
                 "x86-64 encoding (ASM-TABLE, ASM-CORE, SEL-WIDTH); runtime calls, the bounds probe, the budget check, branches and "
                 "the frame follow their protocols (CALL-SAVE, CALL-PROTO, JIT-TERM, PROBE-SEQ, LIM-JIT, BR-JIT, FRAME, ABI-OFFSETS). "
                 "Necessary conditions of C03; the bytecode generator and the optimiser upstream are not decided.",
        "note": "Trusted: the syn parser; the hand-written reference tables in lib/asmtab.py, lib/asmcore.py (Intel SDM) and the "
                "canonical-form table in lib/sel.py (derived from bc.rs parameter_reordering, reasons inline); polynomial identity "
                "over Z is used as the equality of cell values (sound for all four widths because zero-extending loads, 64-bit "
                "arithmetic and truncating stores commute with + - * modulo 2^w).",
        "explanation": "Static template-effect analysis of src/exec/basejit: the `match instr` of emit_program is evaluated "
                       "syntactically per canonical bytecode form and abstract input to the emitted instruction sequence, which is "
                       "interpreted over an abstract machine with polynomial values; encoders are evaluated per immediate class "
                       "against a reference table; emit_rex/emit_modrm over the finite operand domain against a reference encoder.",
        "not_decided": ["bc::CodeGen::translate produces bytecode equivalent to the IR (value numbering, temp allocation, live bitmaps)",
                        "relocation arithmetic in fix_relocations",
                        "the optimiser upstream (C01)"],
    },
}
