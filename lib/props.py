"""Registry: property id -> rules, explanation, not-decided clauses."""
import common
from common import load_ast


def run_c03(res, tier):
    import sel
    ast = load_ast()
    extra = {}
    extra["sel"] = sel.run_sel(res, ast)
    return extra


REGISTRY = {
    "C03": {
        "run": run_c03,
        "level": "other",
        "explanation": "Static template-effect analysis of the x86-64 instruction selector.",
        "not_decided": [],
    },
}
