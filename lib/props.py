"""Registry: property id -> rules, explanation, not-decided clauses."""
import common
from common import load_ast


def run_c03(res, tier):
    import sel
    ast = load_ast()
    extra = {}
    extra["sel"] = sel.run_sel(res, ast)
    import asmtab
    extra["asm"] = asmtab.run_asm_table(res, ast)
    asmtab.run_sel_width(res, ast)
    import asmcore
    asmcore.run_asm_core(res, ast, thorough=(tier == "thorough"))
    import jit
    jit.run_jit_rules(res, ast, ["SHIM-EFFECT", "CALL-SAVE", "CALL-PROTO", "JIT-TERM", "PROBE-SEQ", "PROBE-DIR-JIT", "ABI-OFFSETS",
                                 "LIM-JIT", "FRAME", "BR-JIT", "REG-COUNT"])
    import mirrules
    from mir import load_facts
    mirrules.run_layout_rules(res, load_facts(), ast)
    import iolim
    iolim.run_io_map(res, ast)       # ',' stores the next byte or 0 at end of input: part of C03's statement
    return extra


def run_c18(res, tier):
    import sv
    ast = load_ast()
    sv.run_sv(res, ast)
    return {}


def run_c08(res, tier):
    import iolim, jit
    ast = load_ast()
    iolim.run_io_map(res, ast)
    iolim.run_io_discipline(res, ast)
    iolim.run_io_nested(res, ast)
    jit.run_jit_rules(res, ast, ["JIT-TERM"])
    import mirrules
    from mir import load_facts
    mirrules.run_site_completeness(res, load_facts(), ast, which=("io",))
    mirrules.run_io_discipline_mir(res, load_facts())
    return {}


def run_c07(res, tier):
    import iolim, jit
    ast = load_ast()
    iolim.run_lim(res, ast)
    jit.run_jit_rules(res, ast, ["LIM-JIT", "FRAME"])
    return {}


def run_c16(res, tier):
    import cli
    ast = load_ast()
    cli.run_cli(res, ast)
    # "exits 1 ... when a parsing back end is given unbalanced brackets" and "reading stdin ... as the canonical run does"
    # rest on the parser's acceptance rule and on the I/O layer's end-of-input mapping:
    import front, iolim
    front.run_parse_rules(res, ast)
    iolim.run_io_map(res, ast)
    return {}


def run_c12(res, tier):
    import front
    ast = load_ast()
    front.run_parse_rules(res, ast)
    import mirrules
    from mir import load_facts
    fx = load_facts()
    mirrules.run_errpos_types(res, fx)
    mirrules.run_counter_width(res, fx)
    res.rule("NONREC/CG", "parse and the in-place interpreter are not on a call-graph cycle", floor=2, what="functions")
    import common
    r2 = common.Result(res.prop)
    mirrules.run_callgraph_rules(r2, fx)
    res.obs += [o for o in r2.obs if o.rule == "NONREC/CG"]
    return {}


def run_c04(res, tier):
    import front, iolim
    ast = load_ast()
    front.run_cmd_table(res, ast)
    front.run_cell_rules(res, ast, rules=("WRAP-BY-TYPE", "CELL-CASTS", "CELL-CONSTS", "CELL-DELEGATE"))
    iolim.run_io_map(res, ast)
    # "the tape is unbounded in both directions and starts all-zero": the in-place interpreter reaches the tape only through the checked
    # Memory::read / write / mov, whose guards and growth arithmetic are anchored by C04 itself (src/runtime.rs:66, :131)
    import rt, grow
    rt.run_tape_rules(res, ast, rules=("BOUNDS-GUARD", "TAPE-PAIR"))
    grow.run_grow(res, ast)
    import mirrules
    from mir import load_facts
    fx = load_facts()
    mirrules.run_cell_consts(res, fx)
    mirrules.run_cell_delegate(res, fx)
    mirrules.run_counter_width(res, fx)
    return {}


def run_c14(res, tier):
    import front
    ast = load_ast()
    front.run_cell_rules(res, ast)
    import padic
    padic.run_cell_algebra(res, ast)
    import mirrules
    from mir import load_facts
    fx = load_facts()
    mirrules.run_cell_consts(res, fx)
    mirrules.run_cell_delegate(res, fx)
    return {}


def run_c02(res, tier):
    import bcops
    from common import load_expanded
    ast = load_ast()
    east = load_expanded()
    st = bcops.run_bc_effect(res, ast, east)
    bcops.run_bc_fixed(res, ast)
    bcops.run_bc_thread(res, ast)
    bcops.run_bc_simul(res, ast)
    import moves, passes
    moves.run_moves(res, ast)
    passes.run_pass_kill(res, ast)
    passes.run_live_outer(res, ast)
    passes.run_gvn_invalidate(res, ast)
    passes.run_use_registers(res, ast)
    passes.run_analysis_eval(res, ast)
    import iolim
    iolim.run_io_map(res, ast)       # ',' stores the next byte or 0 at end of input: part of C02's statement
    iolim.run_thread_seq(res, ast)
    if tier == "thorough":
        import mirrules
        from mir import load_facts
        mirrules.run_release_noop(res, load_facts(release=True))
    return {"bc_effect": {k: (len(v) if isinstance(v, set) else v) for k, v in (st or {}).items()}}


def run_c06(res, tier):
    import moves, jit, iolim, passes, asmtab
    ast = load_ast()
    moves.run_moves(res, ast, rules=("PROBE-DIR", "UNSAFE-TWIN", "WIN-ENTRY"))
    import bcops
    bcops.run_bc_fixed(res, ast)      # which mover op (direction, checked/unchecked) the threaded code gets for each Scan/Mov
    jit.run_jit_rules(res, ast, ["PROBE-SEQ", "PROBE-DIR-JIT", "ABI-OFFSETS"])
    res.rule("SAFE-MAP", "execute / execute_limited / execute_unsafe select (limited, safe) = (false,true) / (true,true) / (false,false); "
             "interpreters without unchecked code do not override execute_unsafe", floor=8, what="entry points")
    iolim.run_mode_map(res, ast, "SAFE-MAP")
    passes.run_c11(res, ast, rules=("WINDOW-BY-CONSTRUCTION", "TEMPS-BY-CONSTRUCTION"))   # the temporaries array is sized from Program.temps
    import bcops
    res.rule("LAYOUT-PAIR", "build_context and free_context use the same layout, with room for max(temps, 2) temporaries", floor=1, what="layout pairs")
    bcops.run_layout_pair(res, ast, "LAYOUT-PAIR")
    import rt
    rt.run_tape_rules(res, ast, rules=("BOUNDS-GUARD", "TAPE-PAIR"))
    import grow
    grow.run_grow(res, ast)
    import mirrules as _mr
    from mir import load_facts as _lf
    _mr.run_tape_pair_mir(res, _lf())
    asmtab.run_asm_table(res, ast)
    asmtab.run_sel_width(res, ast)
    import mirrules
    from mir import load_facts
    mirrules.run_layout_rules(res, load_facts(), ast)
    return {}


def run_c10(res, tier):
    import moves, jit, iolim
    ast = load_ast()
    moves.run_moves(res, ast, rules=("UNSAFE-TWIN",))
    import bcops
    bcops.run_bc_fixed(res, ast)      # emit(.., safe) picks the unchecked op variants exactly when safe is false
    iolim.run_thread_seq(res, ast)    # ... and the stream of ops is the same in both modes
    jit.run_jit_rules(res, ast, ["PROBE-SEQ"])
    res.rule("SAFE-MAP", "execute / execute_limited / execute_unsafe select (limited, safe) = (false,true) / (true,true) / (false,false); "
             "interpreters without unchecked code do not override execute_unsafe", floor=8, what="entry points")
    iolim.run_mode_map(res, ast, "SAFE-MAP")
    moves.run_prealloc(res, ast)
    import mirrules
    from mir import load_facts
    mirrules.run_site_completeness(res, load_facts(), ast, which=("unsafe",))
    return {}


def run_c11(res, tier):
    import passes, bcops
    ast = load_ast()
    passes.run_c11(res, ast)
    passes.run_pass_kill(res, ast)
    passes.run_live_outer(res, ast)
    passes.run_gvn_invalidate(res, ast)
    passes.run_use_registers(res, ast)
    passes.run_analysis_eval(res, ast)
    res.rule("LAYOUT-PAIR", "the interpreter context is allocated and freed with the identical layout expression, sized for "
             "max(temps, 2) cells (the two register spill slots are always present)", floor=1, what="layout pairs")
    bcops.run_layout_pair(res, ast, "LAYOUT-PAIR")
    return {}


TRUST = "Trusted: the syn parser behind astdump; the hand-written rule tables in /verif/lib (each row carries its reason); rustc's macro expansion where E3 is used."

META = {
    "C02": dict(
        technique="template effect analysis of the threaded-code layer on macro-expanded source: writer (emit / op_match!) and reader (op functions) evaluated abstractly per operand class; pairing/ordering rules for moves, branches and the two backward passes",
        claim="Decides that the threaded-code layer implements each bytecode instruction as bc.rs defines it, in both build profiles: for every "
              "arithmetic/copy form and operand class the words `emit` pushes drive the selected op to dst := src0 op src1 with matching union "
              "fields and a correct continuation (BC-EFFECT); fixed-layout ops agree with their emit arms (BC-FIXED, BC-BRANCH); state threading "
              "of both noop variants, limit and enter_ops (BC-THREAD); probe direction and checked/unchecked twins (PROBE-DIR, UNSAFE-TWIN, "
              "WIN-ENTRY); multi-assignments evaluate before storing (BC-SIMUL); the two backward bytecode passes kill pending entries on every "
              "invalidating instruction (PASS-KILL). Necessary conditions of C02; equivalence of the generated bytecode with the IR is not decided.",
        note=TRUST + " Cell values are compared as polynomials over Z (sound modulo 2^w for + - *).",
        explanation="E1+E3: `cargo +nightly rustc -- -Zunpretty=expanded,hygiene` output of the library is parsed; the ~1100 generated `if let` "
                    "blocks of bcint::ops::emit are evaluated for each abstract instruction, then the op function body is evaluated over the "
                    "pushed words with symbolic registers, temporaries and cells.",
        not_decided=["bc::CodeGen::translate produces bytecode equivalent to the IR (value numbering, live ranges, temp allocation, dead-store and zeroing passes beyond their kill sets)",
                     "the optimiser upstream (C01)", "termination behaviour of scans (C05)"]),
    "C04": dict(
        technique="abstract evaluation of the in-place interpreter's command arms against the canonical command table; sibling agreement with the parser; cast-chain and constant checks of CellType; outcome-class evaluation of Context::input/output",
        claim="Decides the effect of the six non-bracket commands (moves by +-1, wrapping +-1, low-byte output, from_u8 input), the polarity of "
              "both bracket tests, comment handling, wrap-around by type, the end-of-input mapping (0, not failure), and the checked tape access the "
              "interpreter relies on for an unbounded zero tape (BOUNDS-GUARD, TAPE-PAIR, GROW-BOUNDS on Memory::read/write/make_accessible). Necessary conditions of "
              "C04; the forward bracket scan with its nesting counter and the loop stack are loop invariants and are not decided.",
        note=TRUST,
        explanation="E1: each byte arm of InplaceInterpreter::execute_in is evaluated over an abstract tape (current cell symbolic) and compared with "
                    "the canonical effect; the parser's arms must use the same signs/operands; CellType conversions and constants are checked structurally.",
        not_decided=["correctness of the forward bracket scan (nesting counter arithmetic and its integer width) and of the loop stack", "content preservation of Memory growth under all histories (C09)"]),
    "C06": dict(
        technique="protocol rules (window entry, probe direction, checked/unchecked twins, mode map) on the syntax tree; abstract evaluation of the JIT's probe/extend template; visitor-completeness of the access-window computation; encoder width tables; polyhedral forward analysis of the growth arithmetic",
        claim="Decides the protocol that lets straight-line code touch [p+min, p+max] unchecked: every entry and re-establishment calls "
              "make_accessible(min, max+1) (WIN-ENTRY); moves probe the right edge with the moved pointer (PROBE-DIR, PROBE-DIR-JIT, PROBE-SEQ); the "
              "window covers every cell operand by construction (WINDOW-BY-CONSTRUCTION); the temporaries array is sized from a count that exceeds every temporary "
              "index (TEMPS-BY-CONSTRUCTION, LAYOUT-PAIR); safe entry points never select unchecked code (SAFE-MAP); "
              "memory operands have the cell's width (ASM-TABLE, SEL-WIDTH); JIT displacements are the repr(C) offsets (ABI-OFFSETS); the placement "
              "arithmetic of make_accessible puts the requested range and the whole old block inside the new block and moves the pointer with the contents "
              "(GROW-BOUNDS, assuming additions do not overflow isize/usize). Necessary conditions of C06.",
        note=TRUST + " Layout of Memory/Context is derived from their #[repr(C)] declarations (pointer-sized fields only).",
        explanation="E1 rules over bcint/ops.rs, basejit/codegen.rs, bc.rs, ir.rs and runtime.rs declarations.",
        not_decided=["overflow of the size computations of make_accessible near usize::MAX (GROW-BOUNDS assumes additions do not wrap)",
                     "that bytecode operands produced by the optimiser stay inside the window for value-dependent reasons beyond the visitor (C11's undecided clauses)"]),
    "C07": dict(
        technique="budget-gate pairing on every back edge (path rules over the interpreters, template rule over the JIT's limit check), guard rule for budget uses, charge-guard rule",
        claim="Decides the budget protocol of all four back ends: every cycle of interpreted control flow passes `if budget == 0 { return not-finished } "
              "budget -= 1` (or the limit op / JIT template), branch targets include the target's check, the trampoline stops on an exhausted budget "
              "(LIM-BACKEDGE, LIM-JIT); the budget is consulted only under LIMITED/limited and entry points select the right mode (LIM-GUARD); a large "
              "charge is guarded by the loop condition (LIM-CHARGE); the JIT's two exits return finished/terminated (FRAME). Necessary conditions of C07; "
              "equality of the produced events with the canonical prefix is C01-C03 territory.",
        note=TRUST,
        explanation="E1 structural/path rules over inplace.rs, irint.rs, bcint/mod.rs, bcint/ops.rs and the emit_limit_check template of codegen.rs.",
        not_decided=["that the events produced before the budget ends equal the canonical prefix", "the exact charge per instruction (back ends charge per branch, not per command)"]),
    "C08": dict(
        technique="error-discipline rule per call site on the syntax tree (accepted terminating idioms, failure-branch effects, propagation through recursive callers) and on MIR (def-use closure of each resolved call's result reaches a switch), outcome-class evaluation of the I/O layer, template rule for the JIT's failure branch",
        claim="Decides, per call site of Context::input/output in every back end, that None stops the run through an accepted idiom with no further I/O or "
              "tape write, and that intermediate callers propagate it (IO-DISCIPLINE; cross-checked on the type-checked program: the result of every resolved call "
              "decides a branch or is returned, and is never fed to a defaulting combinator: IO-DISCIPLINE/MIR); that the I/O layer maps absent/err/zero/eof/byte outcomes as the "
              "property states (IO-MAP); that the JIT tests the failure flag after restoring the stack and leaves through the termination label "
              "(JIT-TERM). The property is an error-discipline statement; this is the whole of its shape.",
        note=TRUST + " llvmjit.rs cannot be built here: it is analysed on the syntax tree only and its known defect is listed in known_findings.json.",
        explanation="E1 rules over inplace.rs, irint.rs, bcint/ops.rs, basejit/mod.rs, llvmjit.rs, runtime.rs and the Inp/Out arms of codegen.rs.",
        not_decided=["absence of panics inside std's Read/Write implementations supplied by the caller"]),
    "C09": dict(
        technique="flow analysis of bounds facts at raw tape accesses, who-may-call rule for allocation, pairing/ordering rule for reallocation on MIR, who-may-write rule for the tape fields, polyhedral forward analysis (linear forms, state splitting, Fourier-Motzkin entailment) of the growth arithmetic",
        claim="Decides that reads and queries never allocate (READ-NOALLOC, exact), that every raw access is guarded by the strict unsigned bounds test "
              "or follows make_accessible of that cell (BOUNDS-GUARD), that growth copies before freeing, frees with the old size and updates all "
              "fields consistently (TAPE-PAIR), that allocation failure is handled (ALLOC-NULL), and the placement arithmetic of make_accessible "
              "(GROW-BOUNDS: no unsigned subtraction underflows; an early return only when the range is already inside; after growth offset'+start >= 0 and "
              "offset'+end <= size'; the old block is copied whole to [d, d+size) inside the new block and the pointer moves by d), assuming additions do not "
              "overflow. Together these are the clauses 'a requested range is accessible afterwards' and 'growth preserves contents and the logical pointer'; "
              "that read returns the value last written additionally needs the allocator's and ptr::copy's contracts (trusted).",
        note=TRUST,
        explanation="E1 rules over src/runtime.rs.",
        not_decided=["overflow of the size computations near usize::MAX (GROW-BOUNDS assumes additions do not wrap)"]),
    "C10": dict(
        technique="sibling agreement of checked/unchecked op variants, symbolic evaluation of the JIT Mov template in both modes, mode map, pre-allocation pairing",
        claim="Decides that unchecked mode is the checked code minus the probe (UNSAFE-TWIN, PROBE-SEQ's unchecked half), that only execute_unsafe "
              "selects it (SAFE-MAP), and that execute_unsafe is only called on a pre-grown tape (PREALLOC-PAIR). Necessary conditions of C10; whether "
              "the region suffices for a given program is value-dependent.",
        note=TRUST,
        explanation="E1 rules over bcint/ops.rs, basejit/codegen.rs, the Executable impls and src/bin/hpbf.rs.",
        not_decided=["that the pre-allocated region suffices for a given program's pointer excursion"]),
    "C11": dict(
        technique="by-construction rules: visitor completeness against the enum definitions, offset provenance, pass ordering, index alignment of parallel vectors; evaluation of count_temps / record_branch_targets on representative programs, of range_extend over order classes and of emit_block's value-number table around a scripted nested block; must-pass-through and value-provenance rules in the code generator",
        claim="Decides two of the five clauses by construction: every temporary index is below Program.temps (TEMPS-BY-CONSTRUCTION) and every tape "
              "operand lies in the declared window, which contains 0 (WINDOW-BY-CONSTRUCTION); plus the index alignment of `live` with `insts` (LIVE-ZIP) "
              "and the kill sets of the two backward passes including the reset at branch targets in every iteration (PASS-KILL), and one necessary condition of the "
              "live bitmaps: the loop-end live-range extension uses the saved start of the enclosing loop, and range_extend registers every value first met inside "
              "a loop (LIVE-OUTER, evaluated over order classes); and one necessary condition of 'no temporary is read before it is written': the value-number "
              "table forgets, around loops and maybe-skipped blocks, what the block may have changed or may not have defined (GVN-INVALIDATE, emit_block evaluated "
              "around a scripted nested block). Branch targets after no-op stripping, load forwarding / register allocation and full adequacy of the live bitmaps "
              "are value-dependent and not decided.",
        note=TRUST,
        explanation="E1 rules over src/bc.rs and src/ir.rs.",
        not_decided=["branch offsets after strip_noops land on instruction boundaries", "no temporary is read before it is written on any path, beyond the invalidation discipline of the value-number table (load forwarding and replacement in allocate_temps)",
                     "live bitmaps cover every register temporary still needed (live-range computation; only the enclosing-loop threshold of the extension is decided: LIVE-OUTER)"]),
    "C12": dict(
        technique="pairing rule for the two parser stacks, position-provenance rule, dispatch-table exhaustiveness, who-parses-what rule, index-guard dominance rule for the in-place scan",
        claim="Decides acceptance (stack pairing => accepts iff balanced), error kind and position (character index of the first unmatched `]`, else of "
              "the innermost unclosed `[`), comment inertness in the parser and the in-place interpreter, and that every parsing executor parses its "
              "unmodified source (STACK-PAIR, ERR-POS, COMMENT-INERT, PARSE-CALLERS), and that the in-place interpreter cannot panic on any source text through an index, unwrap or "
              "panicking macro (NO-PANIC: every `bytes[i]` is dominated by a still-valid `i < bytes.len()`). Absence of panics at moderate depth in the recursive consumers is not decided.",
        note=TRUST,
        explanation="E1 rules over src/ir.rs (Program::parse), src/exec/inplace.rs and the Executor::create impls.",
        not_decided=["absence of stack overflow / panics in the recursive IR consumers at moderate nesting depth", "the in-place interpreter's own bracket matching (C04)",
                     "panics of the parser itself other than through indexing (none are syntactically present; arithmetic overflow of positions is not analysed)"]),
    "C13": dict(
        technique="type/import rule for hash containers, commutative-sink classification of every iteration over unordered containers, interior-mutability and global-state rule, selector coverage, evaluation of the emitter arms for embedded function addresses",
        claim="Decides determinism (constant-seeded hasher everywhere except listed files, where every unordered iteration feeds commutative sinks: "
              "HASH-SEED, ITER-ORDER), reusability (no interior mutability, caches or mutable statics; code regenerated per call with this call's "
              "flags: EXEC-FREEZE), selector totality over the canonical forms (SEL-COVER), and that no process-dependent value reaches the emitted machine code (MC-ADDR: "
              "the three runtime-shim addresses embedded as immediates are reported as KNOWN-FINDINGs - printed machine code differs between processes under ASLR). "
              "Absence of value-dependent panics and the complexity bound are not decided.",
        note=TRUST,
        explanation="E1 rules over src/hasher.rs, imports of every library file, src/bc.rs iteration sites, executor struct definitions and codegen.rs.",
        not_decided=["absence of value-dependent panics (assert!(replacements.is_empty()), unwrap on live ranges, counter underflow)", "the polynomial bound on optimisation cost"]),
    "C14": dict(
        technique="abstract interpretation in two algebraic domains over symbolic operands (exponent domain with an inductively checked conserved quantity for wrapping_pow; "
                  "2-adic polynomial domain with inverse-precision atoms for wrapping_inv / wrapping_div, compared case by case with an oracle stated from the contract); "
                  "cast-chain, constant and delegation checks on the four CellType impls; sibling agreement",
        claim="Decides, for all operands at each of the four widths: wrapping_pow returns base^exp (POW-INVARIANT: the loop conserves result * base^exp on every path of an "
              "iteration, the exponent shrinks, the loop is left only when nothing remains to multiply in); wrapping_inv returns Some(x) with self*x = 1 (mod 2^W) for odd "
              "self and None otherwise (INV-CONTRACT); wrapping_div returns Some(0) for n = 0, None when tz(n) < tz(d), and otherwise a solution x with x*d = n (mod 2^W) "
              "and x < 2^(W - tz(d)), i.e. the smallest (DIV-CONTRACT; 480 cases of width x tz(d) x relation of tz(n) to tz(d), operands symbolic). Also the conversion "
              "clause and the constants of all four widths (CELL-CASTS, CELL-CONSTS, CELL-DELEGATE, CELL-SIBLINGS, WRAP-BY-TYPE).",
        note=TRUST + " Number theory used as rules (not derived): for odd a, a*a = 1 (mod 8) and a^e = 1 (mod 2^k) for all odd a iff lambda(2^k) | e, with "
             "lambda(2) = 1, lambda(4) = 2, lambda(2^k) = 2^(k-2); the solutions of x*d = n (mod 2^W) with s = tz(d) <= tz(n) form one residue class modulo 2^(W-s). The primitive "
             "operations have the meaning CELL-DELEGATE establishes (wrapping_shl/shr give 0 when the amount reaches the width).",
        explanation="E1 rules over src/lib.rs; lib/padic.py evaluates the three default methods of the trait in the algebraic domains.",
        not_decided=["the optimiser's use of these helpers (trip counts, geometric-series closed form in src/opt.rs): that is C05",
                     "termination of wrapping_pow beyond 'the exponent shrinks in every iteration'"]),
    "C16": dict(
        technique="table checks of the CLI plumbing: flag literal -> assignment, defaults, width and back-end dispatch, mode chain, exit code",
        claim="Decides the plumbing of the binary, which has no test at all: flag table, defaults, concatenation order, width/back-end dispatch, mode "
              "selection, exit code and diagnostics (CLI-*). The behaviour of the selected back end is C01-C08.",
        note=TRUST + " The flag -> meaning table is the README/help text.",
        explanation="E1 rules over src/bin/hpbf.rs.",
        not_decided=["behaviour of the selected back end"]),
    "C17": dict(
        technique="dominance rule on raw allocation results (lexical next-statement null test with a diverging null branch; def-use and dominators on MIR) for every allocation call in the tree; provenance rule for the layout operand (overflow-checked Layout::array of the count that becomes self.size)",
        claim="Proves, for every call of alloc/alloc_zeroed/realloc in the library, that the result is bound, null-tested by the immediately following "
              "statement, that the null branch is a single diverging call, and that nothing else happens in between (ALLOC-NULL, 4 obligations per site); "
              "no other raw allocation API is used. Since the test is the lexically next statement after the binding `let`, it dominates every use: the "
              "rule is sufficient for 'a null tape is never used'. For 'nor a stale/undersized one': the layout of every tape allocation is "
              "Layout::array::<C>(n).unwrap() with n the value stored into self.size (ALLOC-LAYOUT, +/MIR), so a request whose byte size overflows panics "
              "instead of allocating a wrapped, too small block; copy/free ordering and field updates are TAPE-PAIR/MIR and GROW-BOUNDS under C09.",
        note="Trusted: the syn parser; Rust's lexical scoping (a `let`-bound pointer has no use before its binding statement ends); handle_alloc_error/abort/panic! diverge; "
             "Layout::array(..).unwrap() panics on overflow (an allowed outcome); Vec growth aborts through std. The interpreter context of bcint (build_context) "
             "sizes its layout with plain arithmetic on size_of constants and the bytecode's temp count, which is bounded by the program length: not checked for overflow.",
        explanation="E1: every allocation call is located, its binding `let` and the next statement are matched against the accepted shape; anything else fails closed.",
        not_decided=[]),
}


def run_c17(res, tier):
    import rt
    ast = load_ast()
    n = rt.run_alloc_null(res, ast)
    rt.run_alloc_layout(res, ast)
    import mirrules
    from mir import load_facts
    fx = load_facts()
    n2 = mirrules.run_alloc_null_mir(res, fx)
    mirrules.run_alloc_layout_mir(res, fx)
    if tier == "thorough":
        fxr = load_facts(release=True)
        res.notes.append("thorough: MIR rule re-evaluated on the release profile (debug assertions off)")
        import common
        r2 = common.Result(res.prop)
        n3 = mirrules.run_alloc_null_mir(r2, fxr)
        for o in r2.obs:
            o.key = "release|" + o.key
            res.obs.append(o)
    return {"allocation_sites_syntax": n, "allocation_sites_mir": n2}


def run_c09(res, tier):
    import rt
    ast = load_ast()
    rt.run_tape_rules(res, ast)
    rt.run_alloc_null(res, ast)
    rt.run_alloc_layout(res, ast)
    import grow
    grow.run_grow(res, ast)
    import mirrules
    from mir import load_facts
    fx = load_facts()
    mirrules.run_alloc_null_mir(res, fx)
    mirrules.run_callgraph_rules(res, fx)
    mirrules.run_tape_pair_mir(res, fx)
    return {}


def run_c13(res, tier):
    import det, sel, bcops
    from common import load_expanded
    ast = load_ast()
    det.run_hash_seed(res, ast)
    det.run_iter_order(res, ast)
    det.run_exec_freeze(res, ast)
    sel.run_sel(res, ast, rules=("SEL-COVER",))
    import jit
    jit.run_jit_rules(res, ast, ["MC-ADDR", "REG-COUNT"])
    import mirrules
    from mir import load_facts
    fx = load_facts()
    mirrules.run_hash_types(res, fx)
    mirrules.run_freeze_rules(res, fx)
    mirrules.run_site_completeness(res, fx, ast, which=("iter",))
    return {}


REGISTRY = {
    "C17": dict(run=run_c17, level="proof", **META["C17"]),
    "C09": dict(run=run_c09, level="other", **META["C09"]),
    "C13": dict(run=run_c13, level="other", **META["C13"]),
    "C06": dict(run=run_c06, level="other", **META["C06"]),
    "C10": dict(run=run_c10, level="other", **META["C10"]),
    "C11": dict(run=run_c11, level="other", **META["C11"]),
    "C02": dict(run=run_c02, level="other", **META["C02"]),
    "C12": dict(run=run_c12, level="other", **META["C12"]),
    "C04": dict(run=run_c04, level="other", **META["C04"]),
    "C14": dict(run=run_c14, level="other", **META["C14"]),
    "C16": dict(run=run_c16, level="other", **META["C16"]),
    "C08": dict(run=run_c08, level="other", **META["C08"]),
    "C07": dict(run=run_c07, level="other", **META["C07"]),
    "C18": {
        "run": run_c18,
        "level": "other",
        "technique": "path-sensitive typestate and discriminant-dominance analysis over the syntax tree of smallvec.rs",
        "claim": "Decides the drop/ownership discipline of the MaybeUninit representation (every slot kept or consumed "
                 "exactly once on every syntactic path of every per-slot loop; iterator cursor; ownership transfer) and "
                 "the union-discriminant discipline (payload and tag only touched in the branch a size<=N test selects). "
                 "These are necessary conditions of 'every element dropped exactly once' and of memory-safe access; of the content clause only "
                 "the slots compared by the inline dedup test are decided (SV-DEDUP); content equivalence with Vec under all histories is not.",
        "note": "Trusted: the syn parser; std's Vec for the heap representation; the loop invariant j <= i of the compaction "
                "loops is derived from the checked prologue (size reset to the loop's first index) and at-most-one increment per path.",
        "explanation": "Static typestate / representation-discipline analysis of src/smallvec.rs: SV-DISPOSE enumerates every "
                       "syntactic path through the per-slot loops of retain/retain_mut/dedup/clear/Drop and classifies the slot as "
                       "kept, moved or consumed; SV-REPR-GUARD places every access of data.arr/data.vec/size in the region of a "
                       "discriminant test; SV-ITER/SV-NODOUBLE check the by-value iterator and the two ownership transfers.",
        "not_decided": ["content equivalence with Vec for all operation sequences (functional equivalence)",
                        "panic-safety of retain/dedup when the predicate or PartialEq panics (the code documents that it leaks then)"],
    },
    "C03": {
        "run": run_c03,
        "level": "other",
        "technique": "template effect analysis: abstract interpretation of the selector and encoder templates over finite operand domains with polynomial values, compared with the bytecode meaning and an Intel SDM reference table",
        "claim": "Decides that the baseline JIT's translation layer is right for every operand-kind combination it "
                 "distinguishes: each arithmetic/copy arm of the selector has exactly the effect dst := src0 op src1 under every "
                 "aliasing/residency/liveness/immediate-size input (SEL-EFFECT, SEL-COVER); every encoder emits the reference "
                 "x86-64 encoding (ASM-TABLE, ASM-CORE, SEL-WIDTH); runtime calls, the bounds probe, the budget check, branches and "
                 "the frame follow their protocols (CALL-SAVE, CALL-PROTO, JIT-TERM, PROBE-SEQ, LIM-JIT, BR-JIT, FRAME, ABI-OFFSETS); the three runtime "
                 "functions the code calls store / forward / report what their contract says on every outcome of the wrapped context call (SHIM-EFFECT). "
                 "Necessary conditions of C03; the bytecode generator and the optimiser upstream are not decided.",
        "note": "Trusted: the syn parser; the hand-written reference tables in lib/asmtab.py, lib/asmcore.py (Intel SDM) and the "
                "canonical-form table in lib/sel.py (derived from bc.rs parameter_reordering, reasons inline); polynomial identity "
                "over Z is used as the equality of cell values (sound for all four widths because zero-extending loads, 64-bit "
                "arithmetic and truncating stores commute with + - * modulo 2^w).",
        "explanation": "Static template-effect analysis of src/exec/basejit: the `match instr` of emit_program is evaluated "
                       "syntactically per canonical bytecode form and abstract input to the emitted instruction sequence, which is "
                       "interpreted over an abstract machine with polynomial values; encoders are evaluated per immediate class "
                       "against a reference table; emit_rex/emit_modrm over the finite operand domain against a reference encoder.",
        "not_decided": ["bc::CodeGen::translate produces bytecode equivalent to the IR (value numbering, temp allocation, live bitmaps)",
                        "relocation arithmetic in fix_relocations",
                        "the optimiser upstream (C01)"],
    },
}
