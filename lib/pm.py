"""Structural pattern matching on the syntax tree with metavariables, so that rules do not depend on
the names of local variables/parameters or on formatting.

A pattern is Rust source (an expression, or a sequence of statements) in which
  __v_<name>   matches one identifier path (a local/parameter), consistently within one match;
  __e_<name>   matches any expression, consistently (structural equality);
  __rest       as a statement: matches any (possibly empty) run of statements;
everything else must match structurally (literals by value, paths by name, operators, method names,
call arguments in order).  Parentheses, references `&`/`&mut` and trailing semicolons are significant
unless noted.  Patterns are parsed once per process with the same astdump the rules use.
"""
import json
from common import parse_text, strip_paren

_cache = {}


def _parse(kind, src):
    key = (kind, src)
    if key in _cache:
        return _cache[key]
    if kind == "expr":
        a = parse_text("fn __p() { let _ = " + src + "; }\n", "pattern.rs")
        node = a.files["pattern.rs"]["items"][0]["body"]["stmts"][0]["init"]
    else:
        a = parse_text("fn __p() {\n" + src + "\n}\n", "pattern.rs")
        node = a.files["pattern.rs"]["items"][0]["body"]["stmts"]
    _cache[key] = node
    return node


SKIP = ("sp", "attrs", "s", "global", "tokens")


def _ident(n):
    if isinstance(n, dict) and n.get("t") == "PathExpr" and len(n["path"]["segs"]) == 1 and n["path"]["segs"][0]["args"] is None:
        return n["path"]["name"]
    return None


def _eq(a, b):
    """Structural equality ignoring spans."""
    if isinstance(a, dict) and isinstance(b, dict):
        ka = [k for k in a if k not in SKIP]
        kb = [k for k in b if k not in SKIP]
        if sorted(ka) != sorted(kb):
            return False
        return all(_eq(a[k], b[k]) for k in ka)
    if isinstance(a, list) and isinstance(b, list):
        return len(a) == len(b) and all(_eq(x, y) for x, y in zip(a, b))
    return a == b


def _m(p, n, env):
    if isinstance(p, dict):
        pid = _ident(p)
        if pid and pid.startswith("__v_"):
            nid = _ident(strip_paren(n)) if isinstance(n, dict) else None
            if nid is None:
                return False
            if pid in env:
                return env[pid] == nid
            env[pid] = nid
            return True
        if pid and pid.startswith("__e_"):
            if not isinstance(n, dict):
                return False
            if pid in env:
                return _eq(env[pid], n)
            env[pid] = n
            return True
        # pattern identifiers in binding positions (let __v_x = ..; closures, patterns)
        if p.get("t") == "PIdent" and p["name"].startswith("__v_"):
            if not (isinstance(n, dict) and n.get("t") == "PIdent"):
                return False
            nm = p["name"]
            if nm in env:
                return env[nm] == n["name"]
            env[nm] = n["name"]
            return True
        if not isinstance(n, dict):
            return False
        # transparent parentheses on the node side
        if n.get("t") == "Paren" and p.get("t") != "Paren":
            return _m(p, n["expr"], env)
        if p.get("t") != n.get("t"):
            return False
        for k, v in p.items():
            if k in SKIP:
                continue
            if k == "member" and isinstance(v, str) and v.startswith("__v_"):
                if v in env and env[v] != n.get(k):
                    return False
                env[v] = n.get(k)
                continue
            if k not in n:
                return False
            if not _m(v, n[k], env):
                return False
        return True
    if isinstance(p, list):
        if not isinstance(n, list):
            return False
        return _mlist(p, n, env)
    return p == n


def _is_rest(st):
    if isinstance(st, dict) and st.get("t") == "ExprStmt":
        return _ident(st["expr"]) == "__rest"
    return False


def _mlist(ps, ns, env):
    if not ps:
        return not ns
    if _is_rest(ps[0]):
        for k in range(len(ns) + 1):
            e2 = dict(env)
            if _mlist(ps[1:], ns[k:], e2):
                env.clear()
                env.update(e2)
                return True
        return False
    if not ns:
        return False
    e2 = dict(env)
    if _m(ps[0], ns[0], e2) and _mlist(ps[1:], ns[1:], e2):
        env.clear()
        env.update(e2)
        return True
    return False


def match_expr(node, pattern, env=None):
    """Match an expression node against a pattern; returns the bindings dict or None."""
    e = dict(env or {})
    return e if _m(_parse("expr", pattern), node, e) else None


def match_stmts(stmts, pattern, env=None):
    """Match a statement list (e.g. block['stmts']) against a pattern with optional `__rest;`."""
    e = dict(env or {})
    return e if _mlist(_parse("stmts", pattern), stmts, e) else None


def find_expr(root, pattern, env=None):
    """All sub-expressions of root matching pattern: list of (node, bindings)."""
    from common import walk
    out = []
    pat = _parse("expr", pattern)
    for n in walk(root):
        if "t" in n:
            e = dict(env or {})
            if _m(pat, n, e):
                out.append((n, e))
    return out
