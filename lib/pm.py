"""Structural pattern matching on the syntax tree with metavariables, so that rules do not depend on
the names of local variables/parameters or on formatting.

A pattern is Rust source (an expression, or a sequence of statements) in which
  __v_<name>   matches one identifier path (a local/parameter), consistently within one match;
  __e_<name>   matches any expression, consistently (structural equality);
  __rest       as a statement: matches any (possibly empty) run of statements;
everything else must match structurally (literals by value, paths by name, operators, method names,
call arguments in order).  Parentheses, references `&`/`&mut` and trailing semicolons are significant
unless noted.  Patterns are parsed once per process with the same astdump the rules use.
"""
import json
from common import parse_text, strip_paren

_cache = {}


def _parse(kind, src):
    key = (kind, src)
    if key in _cache:
        return _cache[key]
    if kind == "expr":
        a = parse_text("fn __p() { let _ = " + src + "; }\n", "pattern.rs")
        node = a.files["pattern.rs"]["items"][0]["body"]["stmts"][0]["init"]
    else:
        a = parse_text("fn __p() {\n" + src + "\n}\n", "pattern.rs")
        node = a.files["pattern.rs"]["items"][0]["body"]["stmts"]
    _cache[key] = node
    return node


SKIP = ("sp", "attrs", "s", "global", "tokens")


def _ident(n):
    if isinstance(n, dict) and n.get("t") == "PathExpr" and len(n["path"]["segs"]) == 1 and n["path"]["segs"][0]["args"] is None:
        return n["path"]["name"]
    return None


def _eq(a, b):
    """Structural equality ignoring spans."""
    if isinstance(a, dict) and isinstance(b, dict):
        ka = [k for k in a if k not in SKIP]
        kb = [k for k in b if k not in SKIP]
        if sorted(ka) != sorted(kb):
            return False
        return all(_eq(a[k], b[k]) for k in ka)
    if isinstance(a, list) and isinstance(b, list):
        return len(a) == len(b) and all(_eq(x, y) for x, y in zip(a, b))
    return a == b


NEG = {">=": "<", ">": "<=", "!=": "=="}


def canon(n):
    """Behaviour-preserving normal form of control-flow idioms, applied to pattern and subject alike:
    `if !c {a} else {b}` -> `if c {b} else {a}`; `if x >= y {a} else {b}` -> `if x < y {b} else {a}` (same for > and !=);
    a two-arm `match e { Some(p) => a, None => b }` (Ok/Err likewise, `_` as the second arm) -> `if let Some(p) = e {a} else {b}`."""
    if not isinstance(n, dict):
        return n
    t = n.get("t")
    if t == "If" and n.get("else") is not None:
        c = n["cond"]
        while isinstance(c, dict) and c.get("t") == "Paren":
            c = c["expr"]
        els = n["else"]
        els_block = els["block"] if isinstance(els, dict) and els.get("t") == "BlockExpr" else None
        if els_block is not None:
            if c.get("t") == "Unary" and c.get("op") == "!":
                return canon({**n, "cond": c["expr"], "then": els_block, "else": {"t": "BlockExpr", "block": n["then"], "label": None, "sp": n["then"]["sp"]}})
            if c.get("t") == "Binary" and c.get("op") in NEG:
                c2 = {**c, "op": NEG[c["op"]]}
                return canon({**n, "cond": c2, "then": els_block, "else": {"t": "BlockExpr", "block": n["then"], "label": None, "sp": n["then"]["sp"]}})
    if t == "Match" and len(n.get("arms", [])) == 2 and all(a.get("guard") is None for a in n["arms"]):
        a0, a1 = n["arms"]

        def kind(a):
            p = a["pat"]
            if p["t"] == "PTupleStruct" and p["path"]["name"] in ("Some", "Ok", "Option::Some", "Result::Ok") and len(p["elems"]) == 1:
                return "pos"
            if p["t"] == "PIdent" and p["name"] == "None" or p["t"] == "PPath" and p["path"]["name"] in ("None", "Option::None") or p["t"] == "PWild":
                return "neg"
            if p["t"] == "PTupleStruct" and p["path"]["name"] in ("Err", "Result::Err") and len(p["elems"]) == 1 and p["elems"][0]["t"] == "PWild":
                return "neg"
            return None
        k0, k1 = kind(a0), kind(a1)
        if {k0, k1} == {"pos", "neg"}:
            pos, neg = (a0, a1) if k0 == "pos" else (a1, a0)

            def blk(e):
                if isinstance(e, dict) and e.get("t") == "BlockExpr":
                    return e["block"]
                return {"t": "Block", "sp": e["sp"], "stmts": [{"t": "ExprStmt", "sp": e["sp"], "expr": e, "semi": False}]}
            return {"t": "If", "sp": n["sp"], "cond": {"t": "Let", "sp": n["sp"], "pat": pos["pat"], "expr": n["expr"]},
                    "then": blk(pos["body"]), "else": {"t": "BlockExpr", "block": blk(neg["body"]), "label": None, "sp": neg["body"]["sp"]}}
    return n


def _m(p, n, env):
    if isinstance(p, dict) and p.get("t") in ("If", "Match"):
        p = canon(p)
    if isinstance(n, dict) and n.get("t") in ("If", "Match"):
        n = canon(n)
    if isinstance(p, dict):
        pid = _ident(p)
        if pid and pid.startswith("__v_"):
            nid = _ident(strip_paren(n)) if isinstance(n, dict) else None
            if nid is None:
                return False
            if pid in env:
                return env[pid] == nid
            env[pid] = nid
            return True
        if pid and pid.startswith("__e_"):
            if not isinstance(n, dict):
                return False
            if pid in env:
                return _eq(env[pid], n)
            env[pid] = n
            return True
        # pattern identifiers in binding positions (let __v_x = ..; closures, patterns)
        if p.get("t") == "PIdent" and p["name"].startswith("__v_"):
            if not (isinstance(n, dict) and n.get("t") == "PIdent"):
                return False
            nm = p["name"]
            if nm in env:
                return env[nm] == n["name"]
            env[nm] = n["name"]
            return True
        if not isinstance(n, dict):
            return False
        # transparent parentheses on the node side
        if n.get("t") == "Paren" and p.get("t") != "Paren":
            return _m(p, n["expr"], env)
        if p.get("t") != n.get("t"):
            return False
        for k, v in p.items():
            if k in SKIP:
                continue
            if k == "semi" and p.get("t") == "ExprStmt" and _unit_expr(p.get("expr")):
                continue    # `x = y` and `x = y;` as the last statement of a block are the same
            if k == "member" and isinstance(v, str) and v.startswith("__v_"):
                if v in env and env[v] != n.get(k):
                    return False
                env[v] = n.get(k)
                continue
            if k not in n:
                return False
            if not _m(v, n[k], env):
                return False
        return True
    if isinstance(p, list):
        if not isinstance(n, list):
            return False
        return _mlist(p, n, env)
    return p == n


def _unit_expr(e):
    if not isinstance(e, dict):
        return False
    if e.get("t") == "Assign":
        return True
    if e.get("t") == "Binary" and e["op"].endswith("=") and e["op"] not in ("==", "!=", "<=", ">="):
        return True
    if e.get("t") in ("While", "ForLoop"):
        return True
    return False


def _is_rest(st):
    if isinstance(st, dict) and st.get("t") == "ExprStmt":
        return _ident(st["expr"]) == "__rest"
    return False


def _mlist(ps, ns, env):
    if not ps:
        return not ns
    if _is_rest(ps[0]):
        for k in range(len(ns) + 1):
            e2 = dict(env)
            if _mlist(ps[1:], ns[k:], e2):
                env.clear()
                env.update(e2)
                return True
        return False
    if not ns:
        return False
    e2 = dict(env)
    if _m(ps[0], ns[0], e2) and _mlist(ps[1:], ns[1:], e2):
        env.clear()
        env.update(e2)
        return True
    return False


def match_expr(node, pattern, env=None):
    """Match an expression node against a pattern; returns the bindings dict or None."""
    e = dict(env or {})
    return e if _m(_parse("expr", pattern), node, e) else None


def match_stmts(stmts, pattern, env=None):
    """Match a statement list (e.g. block['stmts']) against a pattern with optional `__rest;`."""
    e = dict(env or {})
    return e if _mlist(_parse("stmts", pattern), stmts, e) else None


def find_expr(root, pattern, env=None):
    """All sub-expressions of root matching pattern: list of (node, bindings)."""
    from common import walk
    out = []
    pat = _parse("expr", pattern)
    for n in walk(root):
        if "t" in n:
            e = dict(env or {})
            if _m(pat, n, e):
                out.append((n, e))
    return out


# --------------------------------------------------------------------------- behaviour-preserving normalisations

import copy as _copy


def _subst(node, mapping):
    """Copy of node with single-segment path expressions renamed/replaced per mapping {name: expr node}."""
    if isinstance(node, dict):
        nid = _ident(node)
        if nid is not None and nid in mapping:
            return mapping[nid]
        return {k: (_subst(v, mapping) if isinstance(v, (dict, list)) else v) for k, v in node.items()}
    if isinstance(node, list):
        return [_subst(x, mapping) for x in node]
    return node


def _simple_arg(a):
    a0 = a
    while isinstance(a0, dict) and a0.get("t") in ("Paren", "Reference"):
        a0 = a0["expr"]
    return isinstance(a0, dict) and (a0.get("t") in ("Lit",) or _ident(a0) is not None)


def _has(node, kinds):
    from common import walk
    return any(n.get("t") in kinds for n in walk(node))


def local_fns(ast, path):
    """name -> fn node for the free functions and inherent/associated fns of a file (candidates for inlining)."""
    out = {}
    for f in ast.find_fns(path):
        if f["node"].get("body") is not None and "mod tests" not in f["container"]:
            out.setdefault(f["name"], []).append(f["node"])
    return {k: v[0] for k, v in out.items() if len(v) == 1}


def _callee_name(e):
    """Name of a locally-resolvable callee: `f(..)`, `f::<T>(..)`, `Self::f(..)`."""
    if not isinstance(e, dict) or e.get("t") != "Call":
        return None
    f = e["func"]
    while isinstance(f, dict) and f.get("t") == "Paren":
        f = f["expr"]
    if f.get("t") != "PathExpr":
        return None
    segs = f["path"]["segs"]
    if len(segs) == 1:
        return segs[0]["id"]
    if len(segs) == 2 and segs[0]["id"] == "Self":
        return segs[1]["id"]
    return None


def inline_helpers(ast, path, node, depth=2, exprs=False, keep=()):
    """Copy of `node` in which calls to small local helper functions are replaced by their bodies:
    statement-position calls of helpers without tail value (statements spliced), and calls of helpers whose body is one
    expression (substituted).  Helpers containing `return`, `?`, loops over their own recursion or non-trivial argument
    expressions are left alone.  Spans of the inlined statements are the helper's own."""
    fns = local_fns(ast, path)

    def params(fn):
        ps = []
        for p in fn["sig"]["inputs"]:
            if p["t"] != "Arg" or p["pat"]["t"] != "PIdent":
                return None
            ps.append(p["pat"]["name"])
        return ps

    def try_expr(e):
        name = _callee_name(e)
        if name is None or name not in fns:
            return None
        fn = fns[name]
        ps = params(fn)
        st = fn["body"]["stmts"]
        if ps is None or len(ps) != len(e["args"]) or not all(_simple_arg(a) for a in e["args"]):
            return None
        if len(st) == 1 and st[0]["t"] == "ExprStmt" and not st[0]["semi"] and not _has(st[0], ("Return", "Try")):
            return _subst(st[0]["expr"], dict(zip(ps, e["args"])))
        return None

    def try_stmts(e):
        name = _callee_name(e)
        if name is None or name not in fns:
            return None
        fn = fns[name]
        ps = params(fn)
        st = fn["body"]["stmts"]
        if ps is None or len(ps) != len(e["args"]) or not all(_simple_arg(a) for a in e["args"]):
            return None
        if fn["sig"]["output"] is not None or _has(fn["body"], ("Return", "Try")):
            return None
        if st and st[-1]["t"] == "ExprStmt" and not st[-1]["semi"] and st[-1]["expr"].get("t") not in ("If", "Match", "While", "ForLoop", "Loop", "Unsafe", "BlockExpr"):
            return None
        return _subst(st, dict(zip(ps, e["args"])))

    def rec(n, d):
        if isinstance(n, list):
            return [rec(x, d) for x in n]
        if not isinstance(n, dict):
            return n
        if n.get("t") == "Block":
            out = []
            for s_ in n["stmts"]:
                if d > 0 and s_["t"] == "ExprStmt":
                    e = s_["expr"]
                    while isinstance(e, dict) and e.get("t") in ("Paren", "Unsafe") and False:
                        e = e
                    sp = try_stmts(e) if _callee_name(e) not in keep else None
                    if sp is not None:
                        out.extend(rec(sp, d - 1))
                        continue
                out.append(rec(s_, d))
            return {**n, "stmts": out}
        if exprs and n.get("t") == "Call" and d > 0 and _callee_name(n) not in keep:
            r = try_expr(n)
            if r is not None:
                return rec(r, d - 1)
        return {k: (rec(v, d) if isinstance(v, (dict, list)) else v) for k, v in n.items()}
    return rec(node, depth)


PURE_METHODS = ("len", "wrapping_add_signed", "wrapping_add", "wrapping_sub", "as_ptr", "is_empty", "min", "max")


def _pure(e):
    if not isinstance(e, dict):
        return False
    t = e.get("t")
    if t in ("Lit", "PathExpr"):
        return True
    if t in ("Paren", "Cast", "Unary", "Reference"):
        return _pure(e["expr"]) and not (t == "Unary" and e["op"] == "*")
    if t == "Field":
        return _pure(e["base"])
    if t == "Index":
        return _pure(e["expr"]) and _pure(e["index"])
    if t == "Binary":
        return e["op"] in ("+", "-", "*", "/", "<", "<=", ">", ">=", "==", "!=", "&", "|") and _pure(e["left"]) and _pure(e["right"])
    if t == "MethodCall":
        return e["method"] in PURE_METHODS and _pure(e["receiver"]) and all(_pure(a) for a in e["args"])
    return False


def inline_pure_lets(stmts):
    """`let x = <pure expr>; ..uses of x..` -> uses replaced by the expression (immutable, non-shadowed bindings only)."""
    from common import walk
    out = []
    i = 0
    stmts = list(stmts)
    while i < len(stmts):
        s_ = stmts[i]
        if s_["t"] == "Local" and s_["pat"]["t"] == "PIdent" and not s_["pat"]["mut"] and not s_["pat"]["by_ref"] and s_["init"] is not None \
                and s_.get("else") is None and _pure(s_["init"]):
            name = s_["pat"]["name"]
            rest = stmts[i + 1:]
            rebound = any(n.get("t") == "PIdent" and n["name"] == name for r in rest for n in walk(r))
            assigned = any(n.get("t") in ("Assign",) and _ident(n["left"]) == name for r in rest for n in walk(r))
            if not rebound and not assigned:
                stmts = stmts[:i + 1] + _subst(rest, {name: {"t": "Paren", "sp": s_["init"]["sp"], "expr": s_["init"]}})
                i += 1
                continue
        out.append(s_)
        i += 1
    return out
