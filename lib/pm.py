"""Structural pattern matching on the syntax tree with metavariables, so that rules do not depend on
the names of local variables/parameters or on formatting.

A pattern is Rust source (an expression, or a sequence of statements) in which
  __v_<name>   matches one identifier path (a local/parameter), consistently within one match;
  __e_<name>   matches any expression, consistently (structural equality);
  __rest       as a statement: matches any (possibly empty) run of statements;
everything else must match structurally (literals by value, paths by name, operators, method names,
call arguments in order).  Parentheses, references `&`/`&mut` and trailing semicolons are significant
unless noted.  Patterns are parsed once per process with the same astdump the rules use.
"""
import json
from common import parse_text, strip_paren

_cache = {}


def _parse(kind, src):
    key = (kind, src)
    if key in _cache:
        return _cache[key]
    if kind == "expr":
        a = parse_text("fn __p() { let _ = " + src + "; }\n", "pattern.rs")
        node = a.files["pattern.rs"]["items"][0]["body"]["stmts"][0]["init"]
    else:
        a = parse_text("fn __p() {\n" + src + "\n}\n", "pattern.rs")
        node = a.files["pattern.rs"]["items"][0]["body"]["stmts"]
    _cache[key] = node
    return node


SKIP = ("sp", "attrs", "s", "global", "tokens", "ord", "ord_end")


def _ident(n):
    if isinstance(n, dict) and n.get("t") == "PathExpr" and len(n["path"]["segs"]) == 1 and n["path"]["segs"][0]["args"] is None:
        return n["path"]["name"]
    return None


def _eq(a, b):
    """Structural equality ignoring spans."""
    if isinstance(a, dict) and isinstance(b, dict):
        ka = [k for k in a if k not in SKIP]
        kb = [k for k in b if k not in SKIP]
        if sorted(ka) != sorted(kb):
            return False
        return all(_eq(a[k], b[k]) for k in ka)
    if isinstance(a, list) and isinstance(b, list):
        return len(a) == len(b) and all(_eq(x, y) for x, y in zip(a, b))
    return a == b


NEG = {">=": "<", ">": "<=", "!=": "=="}


def _neg(c):
    """negation of a condition in the canonical spelling (`<`, `<=`, `==`, `!=`, `!x`)"""
    while isinstance(c, dict) and c.get("t") == "Paren":
        c = c["expr"]
    if c.get("t") == "Unary" and c.get("op") == "!":
        return c["expr"]
    if c.get("t") == "Binary" and c.get("op") in ("==", "!="):
        return {**c, "op": "!=" if c["op"] == "==" else "=="}
    if c.get("t") == "Binary" and c.get("op") in ("<", "<=", ">", ">="):
        c = _flip(c)
        # !(a < b) == b <= a ;  !(a <= b) == b < a
        return {**c, "op": "<=" if c["op"] == "<" else "<", "left": c["right"], "right": c["left"]}
    return {"t": "Unary", "op": "!", "sp": c["sp"], "expr": c}


def canon(n):
    """Behaviour-preserving normal form of control-flow idioms, applied to pattern and subject alike:
    `if !c {a} else {b}` -> `if c {b} else {a}`; `if x >= y {a} else {b}` -> `if x < y {b} else {a}` (same for > and !=);
    a two-arm `match e { Some(p) => a, None => b }` (Ok/Err likewise, `_` as the second arm) -> `if let Some(p) = e {a} else {b}`."""
    if not isinstance(n, dict):
        return n
    t = n.get("t")
    if t == "Assign":
        # `p = p - e` -> `p -= e` for a place p that is evaluated without side effects
        r = n["right"]
        while isinstance(r, dict) and r.get("t") == "Paren":
            r = r["expr"]
        if isinstance(r, dict) and r.get("t") == "Binary" and r.get("op") in ("+", "-", "*", "/", "%", "&", "|", "^", "<<", ">>") \
                and _eq(r["left"], n["left"]) and not _has(n["left"], ("Call", "MethodCall", "MacroExpr", "Index")):
            return {"t": "Binary", "sp": n["sp"], "op": r["op"] + "=", "left": n["left"], "right": r["right"]}
    if t == "If":
        c0 = n["cond"]
        while isinstance(c0, dict) and c0.get("t") == "Paren":
            c0 = c0["expr"]
        if isinstance(c0, dict) and c0.get("t") == "MacroExpr" and c0["mac"]["name"] == "matches" and c0["mac"].get("matches") and c0["mac"]["matches"]["guard"] is None:
            mm = c0["mac"]["matches"]
            return canon({**n, "cond": {"t": "Let", "sp": c0["sp"], "pat": mm["pat"], "expr": mm["expr"]}})
    if t == "If" and n.get("else") is not None:
        c = n["cond"]
        while isinstance(c, dict) and c.get("t") == "Paren":
            c = c["expr"]
        els = n["else"]
        els_block = els["block"] if isinstance(els, dict) and els.get("t") == "BlockExpr" else None
        if els_block is not None and not n["then"]["stmts"] and c.get("t") != "Let":
            # `if c {} else {B}`  ->  `if !c {B}`
            return canon({**n, "cond": _neg(c), "then": els_block, "else": None})
        if els_block is not None and not els_block["stmts"] and c.get("t") != "Let":
            # `if c {A} else {}`  ->  `if c {A}`
            return canon({**n, "else": None})
        if els_block is not None:
            if c.get("t") == "Unary" and c.get("op") == "!":
                return canon({**n, "cond": c["expr"], "then": els_block, "else": {"t": "BlockExpr", "block": n["then"], "label": None, "sp": n["then"]["sp"]}})
            if c.get("t") == "Binary" and c.get("op") in (">", ">=", "<=", "!="):
                # one spelling per comparison: strict `<` (operands ordered accordingly) and `==`
                swapped = {"t": "BlockExpr", "block": n["then"], "label": None, "sp": n["then"]["sp"]}
                op, l, r = c["op"], c["left"], c["right"]
                if op == ">":           # a > b  ==  b < a
                    return canon({**n, "cond": {**c, "op": "<", "left": r, "right": l}})
                if op == ">=":          # a >= b  ==  !(a < b)
                    return canon({**n, "cond": {**c, "op": "<"}, "then": els_block, "else": swapped})
                if op == "<=":          # a <= b  ==  !(b < a)
                    return canon({**n, "cond": {**c, "op": "<", "left": r, "right": l}, "then": els_block, "else": swapped})
                return canon({**n, "cond": {**c, "op": "=="}, "then": els_block, "else": swapped})
    if t == "Match" and len(n.get("arms", [])) == 2 and all(a.get("guard") is None for a in n["arms"]):
        a0, a1 = n["arms"]

        def kind(a):
            p = a["pat"]
            if p["t"] == "PTupleStruct" and p["path"]["name"] in ("Some", "Ok", "Option::Some", "Result::Ok") and len(p["elems"]) == 1:
                return "pos"
            if p["t"] == "PIdent" and p["name"] == "None" or p["t"] == "PPath" and p["path"]["name"] in ("None", "Option::None") or p["t"] == "PWild":
                return "neg"
            if p["t"] == "PTupleStruct" and p["path"]["name"] in ("Err", "Result::Err") and len(p["elems"]) == 1 and p["elems"][0]["t"] == "PWild":
                return "neg"
            return None
        k0, k1 = kind(a0), kind(a1)
        if {k0, k1} == {"pos", "neg"}:
            pos, neg = (a0, a1) if k0 == "pos" else (a1, a0)

            def blk(e):
                if isinstance(e, dict) and e.get("t") == "BlockExpr":
                    return e["block"]
                return {"t": "Block", "sp": e["sp"], "stmts": [{"t": "ExprStmt", "sp": e["sp"], "expr": e, "semi": False}]}
            return {"t": "If", "sp": n["sp"], "cond": {"t": "Let", "sp": n["sp"], "pat": pos["pat"], "expr": n["expr"]},
                    "then": blk(pos["body"]), "else": {"t": "BlockExpr", "block": blk(neg["body"]), "label": None, "sp": neg["body"]["sp"]}}
    return n


def _flip(b):
    """`a > b` -> `b < a`, `a >= b` -> `b <= a` (one spelling per comparison)"""
    if isinstance(b, dict) and b.get("t") == "Binary" and b.get("op") in (">", ">="):
        return {**b, "op": "<" if b["op"] == ">" else "<=", "left": b["right"], "right": b["left"]}
    return b


def _m(p, n, env):
    if isinstance(p, dict) and p.get("t") in ("If", "Match", "Assign"):
        p = canon(p)
    if isinstance(n, dict) and n.get("t") in ("If", "Match", "Assign"):
        n = canon(n)
    p, n = _flip(p), _flip(n)
    if isinstance(p, dict):
        pid = _ident(p)
        if pid and pid.startswith("__v_"):
            nid = _ident(strip_paren(n)) if isinstance(n, dict) else None
            if nid is None:
                return False
            if pid in env:
                return env[pid] == nid
            env[pid] = nid
            return True
        if pid and pid.startswith("__e_"):
            if not isinstance(n, dict):
                return False
            if pid in env:
                return _eq(env[pid], n)
            env[pid] = n
            return True
        # pattern identifiers in binding positions (let __v_x = ..; closures, patterns)
        if p.get("t") == "PIdent" and p["name"].startswith("__v_"):
            if not (isinstance(n, dict) and n.get("t") == "PIdent"):
                return False
            nm = p["name"]
            if nm in env:
                return env[nm] == n["name"]
            env[nm] = n["name"]
            return True
        if not isinstance(n, dict):
            return False
        # transparent parentheses on the node side
        if n.get("t") == "Paren" and p.get("t") != "Paren":
            return _m(p, n["expr"], env)
        # `unsafe { e }` with a single value is transparent on either side
        for a_, b_ in ((p, n), (n, p)):
            if a_.get("t") == "Unsafe" and b_.get("t") != "Unsafe":
                st_ = a_["block"]["stmts"]
                if len(st_) == 1 and st_[0]["t"] == "ExprStmt" and not st_[0]["semi"]:
                    return _m(st_[0]["expr"], n, env) if a_ is p else _m(p, st_[0]["expr"], env)
        if p.get("t") != n.get("t"):
            return False
        for k, v in p.items():
            if k in SKIP:
                continue
            if k == "semi" and p.get("t") == "ExprStmt" and _unit_expr(p.get("expr")):
                continue    # `x = y` and `x = y;` as the last statement of a block are the same
            if k == "member" and isinstance(v, str) and v.startswith("__v_"):
                if v in env and env[v] != n.get(k):
                    return False
                env[v] = n.get(k)
                continue
            if k not in n:
                return False
            if not _m(v, n[k], env):
                return False
        return True
    if isinstance(p, list):
        if not isinstance(n, list):
            return False
        return _mlist(p, n, env)
    return p == n


def _unit_expr(e):
    if not isinstance(e, dict):
        return False
    if e.get("t") == "Assign":
        return True
    if e.get("t") == "Binary" and e["op"].endswith("=") and e["op"] not in ("==", "!=", "<=", ">="):
        return True
    if e.get("t") in ("While", "ForLoop"):
        return True
    return False


def _is_rest(st):
    if isinstance(st, dict) and st.get("t") == "ExprStmt":
        return _ident(st["expr"]) == "__rest"
    return False


def _flatten_unsafe(stmts):
    out = []
    for s_ in stmts:
        if isinstance(s_, dict) and s_.get("t") == "ExprStmt" and isinstance(s_.get("expr"), dict) and s_["expr"].get("t") == "Unsafe":
            inner = s_["expr"]["block"]["stmts"]
            if inner and inner[-1]["t"] == "ExprStmt" and not inner[-1]["semi"] and s_["semi"]:
                inner = inner[:-1] + [{**inner[-1], "semi": True}]
            out.extend(_flatten_unsafe(inner))
        else:
            out.append(s_)
    return out


def _mlist(ps, ns, env):
    if ps and isinstance(ps[0], dict) and "t" in ps[0] and ps[0].get("t") in ("ExprStmt", "Local", "MacroStmt"):
        ps, ns = _flatten_unsafe(ps), _flatten_unsafe(ns)
    return _mlist0(ps, ns, env)


def _mlist0(ps, ns, env):
    if not ps:
        return not ns
    if _is_rest(ps[0]):
        for k in range(len(ns) + 1):
            e2 = dict(env)
            if _mlist0(ps[1:], ns[k:], e2):
                env.clear()
                env.update(e2)
                return True
        return False
    if not ns:
        return False
    e2 = dict(env)
    if _m(ps[0], ns[0], e2) and _mlist0(ps[1:], ns[1:], e2):
        env.clear()
        env.update(e2)
        return True
    return False


class Bindings(dict):
    """the bindings of a successful match: truthy even when the pattern has no metavariables"""

    def __bool__(self):
        return True


def match_expr(node, pattern, env=None):
    """Match an expression node against a pattern; returns the bindings dict or None."""
    e = Bindings(env or {})
    return e if _m(_parse("expr", pattern), node, e) else None


def match_stmts(stmts, pattern, env=None):
    """Match a statement list (e.g. block['stmts']) against a pattern with optional `__rest;`.  Tried as written first, then with both sides in
    the statement-list normal form (normalize_stmts)."""
    e = Bindings(env or {})
    if _mlist(_parse("stmts", pattern), stmts, e):
        return e
    e = Bindings(env or {})
    try:
        ps, ns = normalize_stmts(_parse("stmts", pattern)), normalize_stmts(stmts)
    except (KeyError, TypeError, AttributeError):
        return None
    return e if _mlist(ps, ns, e) else None


def find_expr(root, pattern, env=None):
    """All sub-expressions of root matching pattern: list of (node, bindings)."""
    from common import walk
    out = []
    pat = _parse("expr", pattern)
    for n in walk(root):
        if "t" in n:
            e = dict(env or {})
            if _m(pat, n, e):
                out.append((n, e))
    return out


# --------------------------------------------------------------------------- behaviour-preserving normalisations

import copy as _copy


def _subst(node, mapping):
    """Copy of node with single-segment path expressions renamed/replaced per mapping {name: expr node}."""
    if isinstance(node, dict):
        nid = _ident(node)
        if nid is not None and nid in mapping:
            return mapping[nid]
        return {k: (_subst(v, mapping) if isinstance(v, (dict, list)) else v) for k, v in node.items()}
    if isinstance(node, list):
        return [_subst(x, mapping) for x in node]
    return node


def _simple_arg(a):
    a0 = a
    while isinstance(a0, dict) and a0.get("t") in ("Paren", "Reference"):
        a0 = a0["expr"]
    return isinstance(a0, dict) and (a0.get("t") in ("Lit",) or _ident(a0) is not None)


def _has(node, kinds):
    from common import walk
    return any(n.get("t") in kinds for n in walk(node))


def local_fns(ast, path):
    """name -> fn node for the free functions and inherent/associated fns of a file (candidates for inlining)."""
    out = {}
    for f in ast.find_fns(path):
        if f["node"].get("body") is not None and "mod tests" not in f["container"]:
            out.setdefault(f["name"], []).append(f["node"])
    return {k: v[0] for k, v in out.items() if len(v) == 1}


def _callee_name(e):
    """Name of a locally-resolvable callee: `f(..)`, `f::<T>(..)`, `Self::f(..)`, `self.f(..)`."""
    if not isinstance(e, dict):
        return None
    if e.get("t") == "MethodCall":
        r = e["receiver"]
        while isinstance(r, dict) and r.get("t") in ("Paren", "Reference"):
            r = r["expr"]
        if _ident(r) is not None:
            return e["method"]      # `self.f(..)` or `x.f(..)` on a plain local
        return None
    if e.get("t") != "Call":
        return None
    f = e["func"]
    while isinstance(f, dict) and f.get("t") == "Paren":
        f = f["expr"]
    if f.get("t") != "PathExpr":
        return None
    segs = f["path"]["segs"]
    if len(segs) == 1:
        return segs[0]["id"]
    if len(segs) == 2 and segs[0]["id"] == "Self":
        return segs[1]["id"]
    if len(segs) == 2 and segs[0]["id"][:1].isupper() and segs[0]["args"] is None:
        return segs[1]["id"]          # `Type::f(..)`: resolved by the (unique) function name; callers filter by their `keep` set
    return None


def _call_args(e, fn):
    """(params, args) aligned, or None.  Handles `self.f(a)` and `Self::f(self, a)` for methods."""
    ins = list(fn["sig"]["inputs"])
    ps = []
    has_recv = bool(ins) and ins[0]["t"] == "Receiver"
    if has_recv:
        ins = ins[1:]
    for p in ins:
        if p["t"] != "Arg" or p["pat"]["t"] != "PIdent":
            return None
        ps.append(p["pat"]["name"] + ("\0mut" if p["pat"].get("mut") else ""))
    if e.get("t") == "MethodCall":
        if not has_recv:
            return None
        args = list(e["args"])
        r = _strip_ref(e["receiver"])
        if _ident(r) != "self":
            # the receiver takes the place of `self` in the helper's body
            ps = ["self"] + ps
            args = [r] + args
    else:
        args = list(e["args"])
        if has_recv:
            if not args or _ident(_strip_ref(args[0])) != "self":
                return None
            args = args[1:]
    if len(ps) != len(args):
        return None
    return ps, args


def _strip_ref(a):
    while isinstance(a, dict) and a.get("t") in ("Paren", "Reference"):
        a = a["expr"]
    return a


def _idents_in(node):
    from common import walk
    out = set()
    for n in walk(node):
        if n.get("t") == "PIdent":
            out.add(n["name"])
        i = _ident(n)
        if i:
            out.add(i)
    return out


def _rename_pats(node, mapping):
    """rename binding occurrences (PIdent) as well as uses"""
    if isinstance(node, dict):
        if node.get("t") == "PIdent" and node["name"] in mapping:
            return {**{k: (_rename_pats(v, mapping) if isinstance(v, (dict, list)) else v) for k, v in node.items()}, "name": mapping[node["name"]]}
        nid = _ident(node)
        if nid is not None and nid in mapping:
            seg = dict(node["path"]["segs"][0], id=mapping[nid])
            return {**node, "path": {**node["path"], "name": mapping[nid], "s": mapping[nid], "segs": [seg]}}
        return {k: (_rename_pats(v, mapping) if isinstance(v, (dict, list)) else v) for k, v in node.items()}
    if isinstance(node, list):
        return [_rename_pats(x, mapping) for x in node]
    return node


def _count_uses(node, name):
    from common import walk
    return sum(1 for n in walk(node) if _ident(n) == name)


def inline_helpers(ast, path, node, depth=2, exprs=False, keep=()):
    """Copy of `node` in which calls to local helper functions (free fns, `Self::f`, `self.f(..)`) are replaced by their bodies.
    Statement positions (`f(..);`, `let x = f(..);`, `x = f(..);`, a block's tail `f(..)`, and the `?` forms when the helper ends in
    `Ok(e)`): the helper's statements are spliced in (its locals renamed when they clash with the caller's), complex arguments are
    bound to fresh locals.  Expression positions (with exprs=True): helpers whose body is one expression.  Helpers with early
    `return`, and recursive ones, are left alone.  Spans of the inlined statements are the helper's own."""
    fns = local_fns(ast, path)
    self_type = {}
    for f_ in ast.find_fns(path):
        c_ = f_["container"].split("::")[0]
        c_ = c_.split(" for ", 1)[1] if " for " in c_ else c_[5:] if c_.startswith("impl ") else ""
        self_type.setdefault(f_["name"], c_.split("<")[0].strip())
    caller_names = _idents_in(node)
    counter = [0]

    def type_path(e):
        """`Type::f(..)` -> "Type" (None for `f(..)`, `Self::f(..)` and method calls)"""
        if e.get("t") != "Call":
            return None
        f_ = e["func"]
        while isinstance(f_, dict) and f_.get("t") == "Paren":
            f_ = f_["expr"]
        segs = f_["path"]["segs"] if f_.get("t") == "PathExpr" else []
        return segs[0]["id"] if len(segs) == 2 and segs[0]["id"] != "Self" else None

    def prepare(e, want_value):
        """-> (stmts, tail expr or None) for call expression e, or None"""
        name = _callee_name(e)
        if name is None or name not in fns or name in keep:
            return None
        fn = fns[name]
        if fn is node or any(x is fn for x in ()):
            return None
        if type_path(e) is not None and type_path(e) != self_type.get(name):
            return None        # `Vec::new()` is not the file's own `new`
        pa = _call_args(e, fn)
        if pa is None:
            return None
        ps, args = pa
        muts = {p_.split("\0")[0] for p_ in ps if p_.endswith("\0mut")}
        ps = [p_.split("\0")[0] for p_ in ps]
        body = fn["body"]
        if _has(body, ("Return",)) or _has(body, ("Closure",)) and False:
            return None
        # recursion guard
        from common import walk
        if any(_callee_name(n) == name and (n.get("t") != "Call" or type_path(n) in (None, self_type.get(name))) for n in walk(body)):
            return None
        st = list(body["stmts"])
        tail = None
        if st and st[-1]["t"] == "ExprStmt" and not st[-1]["semi"]:
            if st[-1]["expr"].get("t") in ("If", "Match", "While", "ForLoop", "Loop", "Unsafe", "BlockExpr") and not want_value and fn["sig"]["output"] is None:
                pass
            else:
                tail = st[-1]["expr"]
                st = st[:-1]
        if want_value and tail is None:
            return None
        # rename clashing locals of the helper
        locals_ = set()
        for n in walk(body):
            if n.get("t") == "PIdent":
                locals_.add(n["name"])
        clash = {l: f"{l}__inl" for l in locals_ if l in caller_names and l not in ps}
        mapping = {}
        pre = []
        def place_base(a_):
            """`*x`, `x.f.g`, `(*x).f`: the base identifier of a place read, or None"""
            a0 = _strip_ref(a_)
            while isinstance(a0, dict):
                if a0.get("t") == "Unary" and a0.get("op") == "*":
                    a0 = _strip_ref(a0["expr"])
                elif a0.get("t") == "Field":
                    a0 = _strip_ref(a0["base"])
                else:
                    break
            return _ident(a0)
        bases = [place_base(a_) for a_ in args]
        for i_, (p_, a_) in enumerate(zip(ps, args)):
            stable_place = bases[i_] is not None and bases[i_] != "self" and bases.count(bases[i_]) == 1 and not _has(_strip_ref(a_), ("Call", "MethodCall", "Index"))
            if p_ not in muts and (_simple_arg(a_) or stable_place or (_pure(_strip_ref(a_)) and _count_uses(body, p_) <= 1)):
                mapping[p_] = a_
            else:
                counter[0] += 1
                fresh = f"{p_}__arg{counter[0]}"
                pre.append({"t": "Local", "sp": a_["sp"], "attrs": [], "pat": {"t": "PIdent", "name": fresh, "mut": p_ in muts, "by_ref": False, "sub": None, "sp": a_["sp"]},
                            "init": a_, "else": None})
                mapping[p_] = {"t": "PathExpr", "sp": a_["sp"], "qself": None,
                               "path": {"t": "Path", "global": False, "name": fresh, "s": fresh, "sp": a_["sp"], "segs": [{"id": fresh, "args": None}]}}
        if clash:
            st = _rename_pats(st, clash)
            tail = _rename_pats(tail, clash) if tail is not None else None
        st = _subst(st, mapping)
        tail = _subst(tail, mapping) if tail is not None else None
        return pre + st, tail

    def as_call(e):
        """strip `?` : returns (call, tried?)"""
        if isinstance(e, dict) and e.get("t") == "Try":
            return e["expr"], True
        return e, False

    def unwrap_ok(tail):
        t = tail
        if isinstance(t, dict) and t.get("t") == "Call" and _ident(t["func"]) == "Ok" and len(t["args"]) == 1:
            return t["args"][0]
        return None

    def splice_stmt(s_, d):
        """-> replacement statement list or None"""
        if s_["t"] == "ExprStmt":
            e = s_["expr"]
            call, tried = as_call(e)
            if isinstance(call, dict) and call.get("t") == "Assign":
                c2, tr2 = as_call(call["right"])
                r = prepare(c2, True) if _callee_name(c2) else None
                if r is not None:
                    st, tail = r
                    if tr2:
                        tail = unwrap_ok(tail)
                        if tail is None:
                            return None
                    return st + [{**s_, "expr": {**call, "right": tail}}]
                return None
            if isinstance(call, dict) and call.get("t") == "Return" and call.get("expr") is not None:
                c2, tr2 = as_call(call["expr"])
                if tr2:
                    return None
                r = prepare(c2, True) if _callee_name(c2) else None
                if r is not None:
                    st, tail = r
                    return st + [{**s_, "expr": {**call, "expr": tail}}]
                return None
            if _callee_name(call) is None:
                return None
            if s_["semi"] or True:
                r = prepare(call, False)
                if r is not None:
                    st, tail = r
                    if tried:
                        # `f(..)?;` : the helper must end in Ok(..)
                        if tail is None or unwrap_ok(tail) is None:
                            return None
                        tail = unwrap_ok(tail)
                        if _strip_ref(tail).get("t") == "Tuple" and not _strip_ref(tail)["elems"]:
                            tail = None
                    if tail is not None:
                        st = st + [{"t": "ExprStmt", "sp": tail["sp"], "expr": tail, "semi": s_["semi"]}]
                    return st
            return None
        if s_["t"] == "Local" and s_.get("init") is not None and s_.get("else") is None:
            call, tried = as_call(s_["init"])
            if _callee_name(call) is None:
                return None
            r = prepare(call, True)
            if r is None:
                return None
            st, tail = r
            if tried:
                tail = unwrap_ok(tail)
                if tail is None:
                    return None
            return st + [{**s_, "init": tail}]
        return None

    def try_expr(e):
        r = prepare(e, True)
        if r is None:
            return None
        st, tail = r
        if st:
            return None
        if _has(tail, ("Try",)):
            return None
        return {"t": "Paren", "sp": tail["sp"], "expr": tail} if tail.get("t") in ("Binary", "Cast", "Unary", "If", "Match") else tail

    def rec(n, d):
        if isinstance(n, list):
            return [rec(x, d) for x in n]
        if not isinstance(n, dict):
            return n
        if n.get("t") == "Block":
            out = []
            for s_ in n["stmts"]:
                sp = splice_stmt(s_, d) if d > 0 else None
                if sp is not None:
                    out.extend(rec({"t": "Block", "stmts": sp, "sp": n["sp"]}, d - 1)["stmts"])
                    continue
                out.append(rec(s_, d))
            return {**n, "stmts": out}
        # a match arm (or closure-free block-less branch) whose body is just a helper call: `K => helper(a, b),`
        if d > 0 and "pat" in n and "body" in n and "guard" in n and isinstance(n.get("body"), dict) and n["body"].get("t") in ("Call", "MethodCall") \
                and _callee_name(n["body"]) is not None:
            r = prepare(n["body"], False)
            if r is not None:
                st, tail = r
                if tail is not None:
                    st = st + [{"t": "ExprStmt", "sp": tail["sp"], "expr": tail, "semi": False}]
                blk = rec({"t": "Block", "stmts": st, "sp": n["body"]["sp"]}, d - 1)
                return {**{k: (rec(v, d) if isinstance(v, (dict, list)) and k != "body" else v) for k, v in n.items()},
                        "body": {"t": "BlockExpr", "sp": n["body"]["sp"], "label": None, "block": blk}}
        if exprs and n.get("t") in ("Call", "MethodCall") and d > 0 and _callee_name(n) is not None:
            r = try_expr(n)
            if r is not None:
                return rec(r, d - 1)
        return {k: (rec(v, d) if isinstance(v, (dict, list)) else v) for k, v in n.items()}
    return rec(node, depth)


PURE_METHODS = ("len", "wrapping_add_signed", "wrapping_add", "wrapping_sub", "as_ptr", "is_empty", "min", "max",
                "add", "sub", "offset", "wrapping_offset", "cast", "wrapping_byte_offset", "unsigned_abs")
PURE_FNS = set()      # local functions whose body is one pure expression (filled while loading the tree)


def _pure(e):
    if not isinstance(e, dict):
        return False
    t = e.get("t")
    if t in ("Lit", "PathExpr"):
        return True
    if t in ("Paren", "Cast", "Unary", "Reference"):
        return _pure(e["expr"]) and not (t == "Unary" and e["op"] == "*")
    if t == "Field":
        return _pure(e["base"])
    if t == "Index":
        return _pure(e["expr"]) and _pure(e["index"])
    if t == "Binary":
        return e["op"] in ("+", "-", "*", "/", "<", "<=", ">", ">=", "==", "!=", "&", "|") and _pure(e["left"]) and _pure(e["right"])
    if t == "MethodCall":
        return e["method"] in PURE_METHODS and _pure(e["receiver"]) and all(_pure(a) for a in e["args"])
    if t == "Call":
        return _const_pure(e)
    return False


def _const_pure(e):
    """no memory is read and nothing is changed: locals, literals, casts, arithmetic, pointer arithmetic, size_of, calls of PURE_FNS"""
    if not isinstance(e, dict):
        return False
    t = e.get("t")
    if t == "Lit":
        return True
    if t == "PathExpr":
        return True
    if t in ("Paren", "Cast"):
        return _const_pure(e["expr"])
    if t == "Unary":
        return e["op"] in ("-", "!") and _const_pure(e["expr"])
    if t == "Binary":
        return e["op"] in ("+", "-", "*", "/", "<", "<=", ">", ">=", "==", "!=", "&", "|", "<<", ">>") and _const_pure(e["left"]) and _const_pure(e["right"])
    if t == "MethodCall":
        return e["method"] in PURE_METHODS and e["method"] not in ("len", "is_empty", "as_ptr") and _const_pure(e["receiver"]) and all(_const_pure(a) for a in e["args"])
    if t == "MacroExpr" and e["mac"]["name"].split("::")[-1] in ("addr_of", "addr_of_mut") and e["mac"].get("args") and len(e["mac"]["args"]) == 1:
        return _place(e["mac"]["args"][0])       # the address of a place: nothing is read
    if t == "Call":
        f = e["func"]
        while isinstance(f, dict) and f.get("t") == "Paren":
            f = f["expr"]
        nm = f["path"]["name"] if isinstance(f, dict) and f.get("t") == "PathExpr" else None
        if nm and nm.split("::<")[0].split("::")[-1] in ("size_of", "align_of") and not e["args"]:
            return True
        return e.get("t") == "Call" and nm is not None and "::" not in nm.split("::<")[0] and nm.split("::<")[0] in PURE_FNS and all(_const_pure(a) for a in e["args"])
    return False


def inline_pure_lets(stmts):
    """`let x = <pure expr>; ..uses of x..` -> uses replaced by the expression (immutable, non-shadowed bindings only)."""
    from common import walk
    out = []
    i = 0
    stmts = list(stmts)
    while i < len(stmts):
        s_ = stmts[i]
        if s_["t"] == "Local" and s_["pat"]["t"] == "PIdent" and not s_["pat"]["mut"] and not s_["pat"]["by_ref"] and s_["init"] is not None \
                and s_.get("else") is None and _pure(s_["init"]):
            name = s_["pat"]["name"]
            rest = stmts[i + 1:]
            rebound = any(n.get("t") == "PIdent" and n["name"] == name for r in rest for n in walk(r))
            assigned = any(n.get("t") in ("Assign",) and _ident(n["left"]) == name for r in rest for n in walk(r))
            if not rebound and not assigned:
                stmts = stmts[:i + 1] + _subst(rest, {name: {"t": "Paren", "sp": s_["init"]["sp"], "expr": s_["init"]}})
                i += 1
                continue
        out.append(s_)
        i += 1
    return out


SINK_COUNT = [0]


def sink_let_if(node):
    """`let x = if c { ..; a } else { ..; b }; S(x)` where S is the very next statement and holds the only use of x
    ->  `if c { ..; S(a) } else { ..; S(b) }`   (behaviour-preserving: the branches are evaluated at the same point, S once)."""
    from common import walk
    if isinstance(node, list):
        return [sink_let_if(x) for x in node]
    if not isinstance(node, dict):
        return node
    node = {k: (sink_let_if(v) if isinstance(v, (dict, list)) else v) for k, v in node.items()}
    if node.get("t") != "Block":
        return node
    st = node["stmts"]
    out = []
    i = 0
    while i < len(st):
        s_ = st[i]
        nxt = st[i + 1] if i + 1 < len(st) else None
        if s_["t"] == "Local" and s_["pat"]["t"] == "PIdent" and not s_["pat"]["mut"] and not s_["pat"]["by_ref"] and s_.get("else") is None and \
                isinstance(s_.get("init"), dict) and s_["init"].get("t") == "If" and s_["init"].get("else") is not None and \
                s_["init"]["else"].get("t") == "BlockExpr" and nxt is not None and nxt["t"] == "ExprStmt":
            name = s_["pat"]["name"]
            uses_next = _count_uses(nxt, name)
            uses_later = sum(_count_uses(x, name) for x in st[i + 2:])
            then_b, else_b = s_["init"]["then"], s_["init"]["else"]["block"]

            def tail(b):
                ss = b["stmts"]
                if ss and ss[-1]["t"] == "ExprStmt" and not ss[-1]["semi"]:
                    return ss[:-1], ss[-1]["expr"]
                return None
            tt, te = tail(then_b), tail(else_b)
            rebinds = any(n.get("t") == "PIdent" and n["name"] == name for n in walk(nxt))
            if uses_next == 1 and uses_later == 0 and tt and te and not rebinds and strip_paren(s_["init"]["cond"]).get("t") != "Let":
                def mk(pre, val):
                    return {"t": "Block", "sp": nxt["sp"], "stmts": pre + [_subst(nxt, {name: val})]}
                new_if = {**s_["init"], "then": mk(tt[0], tt[1]), "else": {**s_["init"]["else"], "block": mk(te[0], te[1])}}
                out.append({"t": "ExprStmt", "sp": s_["sp"], "expr": new_if, "semi": nxt["semi"]})
                SINK_COUNT[0] += 1
                i += 2
                continue
        out.append(s_)
        i += 1
    return {**node, "stmts": out}


# --------------------------------------------------------------------------- guard clauses -> if/else (normal form)

UNGUARD_COUNT = [0]


def _ends_with(block, kind):
    st = block.get("stmts") or []
    if not st or st[-1]["t"] != "ExprStmt":
        return None
    e = st[-1]["expr"]
    if isinstance(e, dict) and e.get("t") == kind and (kind != "Continue" or e.get("label") is None):
        return e
    return None


def _has_kind_shallow(node, kinds):
    """does node contain one of `kinds` outside nested closures / fns (and, for Continue/Break, outside nested loops)?"""
    stack = [node]
    while stack:
        n = stack.pop()
        if isinstance(n, dict):
            if n.get("t") in kinds:
                return True
            if n.get("t") in ("Closure", "Fn"):
                continue
            stack.extend(v for v in n.values() if isinstance(v, (dict, list)))
        elif isinstance(n, list):
            stack.extend(n)
    return False


def _walk_pat_idents(p):
    from common import walk
    return [n for n in walk(p) if n.get("t") == "PIdent" and n["name"] not in ("None",)]


def _unguard_block(block, exit_kind):
    """exit_kind: 'Return' (block is in tail position of a function) or 'Continue' (block is a loop body)."""
    st = list(block["stmts"])
    # a trailing `return X;` of a function body is its tail value
    if exit_kind == "Return" and st and st[-1]["t"] == "ExprStmt" and isinstance(st[-1]["expr"], dict) and st[-1]["expr"].get("t") == "Return":
        r = st[-1]["expr"]
        UNGUARD_COUNT[0] += 1
        st = st[:-1] + ([{"t": "ExprStmt", "sp": r["sp"], "expr": r["expr"], "semi": False}] if r.get("expr") is not None else [])
    for i, s_ in enumerate(st):
        # if c { pre; return X; }  REST      ->   if c { pre; X } else { REST }
        if s_["t"] == "ExprStmt" and isinstance(s_["expr"], dict) and s_["expr"].get("t") == "If" and s_["expr"].get("else") is None:
            iff = s_["expr"]
            ex = _ends_with(iff["then"], exit_kind)
            if ex is not None and i + 1 <= len(st):
                pre = iff["then"]["stmts"][:-1]
                if _has_kind_shallow(pre, ("Return", "Continue", "Break") if exit_kind == "Continue" else ("Return",)):
                    continue
                val = ex.get("expr") if exit_kind == "Return" else None
                then_st = pre + ([{"t": "ExprStmt", "sp": val["sp"], "expr": val, "semi": False}] if val is not None else [])
                rest = _unguard_block({"t": "Block", "sp": block["sp"], "stmts": st[i + 1:]}, exit_kind)
                new_if = {**iff, "then": {**iff["then"], "stmts": then_st},
                          "else": {"t": "BlockExpr", "sp": block["sp"], "label": None, "block": rest}}
                UNGUARD_COUNT[0] += 1
                return {**block, "stmts": st[:i] + [{"t": "ExprStmt", "sp": s_["sp"], "expr": new_if, "semi": False}]}
        # let x = match e { Some(p) => p, None => return V };   ->   let Some(x) = e else { return V };
        if s_["t"] == "Local" and s_.get("else") is None and isinstance(s_.get("init"), dict) and s_["init"].get("t") == "Match" and s_["pat"]["t"] == "PIdent" \
                and len(s_["init"]["arms"]) == 2 and all(a_.get("guard") is None for a_ in s_["init"]["arms"]):
            arms_ = s_["init"]["arms"]
            div = [a_ for a_ in arms_ if isinstance(a_["body"], dict) and a_["body"].get("t") == exit_kind]
            keep = [a_ for a_ in arms_ if a_ not in div]
            if len(div) == 1 and len(keep) == 1:
                kb = keep[0]["body"]
                while isinstance(kb, dict) and kb.get("t") == "Paren":
                    kb = kb["expr"]
                bound = [n_["name"] for n_ in _walk_pat_idents(keep[0]["pat"])]
                if _ident(kb) is not None and bound == [_ident(kb)]:
                    newpat = _rename_pats(keep[0]["pat"], {_ident(kb): s_["pat"]["name"]})
                    s_ = {**s_, "pat": newpat, "init": s_["init"]["expr"],
                          "else": {"t": "BlockExpr", "sp": div[0]["sp"], "label": None,
                                   "block": {"t": "Block", "sp": div[0]["sp"], "stmts": [{"t": "ExprStmt", "sp": div[0]["sp"], "expr": div[0]["body"], "semi": True}]}}}
                    st[i] = s_
        # let PAT = e else { return X };  REST   ->   if let PAT = e { REST } else { X }
        if s_["t"] == "Local" and s_.get("else") is not None and s_.get("init") is not None:
            eb = s_["else"]
            ebk = eb["block"] if isinstance(eb, dict) and eb.get("t") == "BlockExpr" else (eb if isinstance(eb, dict) and eb.get("t") == "Block" else None)
            ex = _ends_with(ebk, exit_kind) if ebk else None
            if ex is not None and len(ebk["stmts"]) >= 1:
                pre = ebk["stmts"][:-1]
                val = ex.get("expr") if exit_kind == "Return" else None
                else_st = pre + ([{"t": "ExprStmt", "sp": val["sp"], "expr": val, "semi": False}] if val is not None else [])
                rest = _unguard_block({"t": "Block", "sp": block["sp"], "stmts": st[i + 1:]}, exit_kind)
                cond = {"t": "Let", "sp": s_["sp"], "pat": s_["pat"], "expr": s_["init"]}
                new_if = {"t": "If", "sp": s_["sp"], "cond": cond, "then": rest,
                          "else": {"t": "BlockExpr", "sp": s_["sp"], "label": None, "block": {"t": "Block", "sp": s_["sp"], "stmts": else_st}}}
                UNGUARD_COUNT[0] += 1
                return {**block, "stmts": st[:i] + [{"t": "ExprStmt", "sp": s_["sp"], "expr": new_if, "semi": False}]}
    # tail expression: recurse into its branches (they are in tail position too)
    if st and st[-1]["t"] == "ExprStmt" and not st[-1]["semi"] and exit_kind == "Return":
        st = st[:-1] + [{**st[-1], "expr": _unguard_tail(st[-1]["expr"])}]
    return {**block, "stmts": st}


def _unguard_tail(e):
    if not isinstance(e, dict):
        return e
    t = e.get("t")
    if t == "If":
        out = {**e, "then": _unguard_block(e["then"], "Return")}
        if e.get("else") is not None:
            el = e["else"]
            out["else"] = {**el, "block": _unguard_block(el["block"], "Return")} if el.get("t") == "BlockExpr" else _unguard_tail(el)
        return out
    if t in ("BlockExpr", "Unsafe"):
        return {**e, "block": _unguard_block(e["block"], "Return")}
    if t == "Match":
        return {**e, "arms": [{**a, "body": _unguard_tail(a["body"])} for a in e["arms"]]}
    return e


def unguard_fn(fn):
    """Guard clauses of a function written as if/else: `if c { return X; } REST` -> `if c { X } else { REST }`, `let P = e else { return X }; REST`
    -> `if let P = e { REST } else { X }`, a trailing `return X;` -> `X`; the same with `continue` for loop bodies.  Behaviour-preserving."""
    body = fn.get("body")
    if body is None:
        return body
    nb = _unguard_block(body, "Return")
    return _unguard_loops(nb)


def _unguard_loops(node):
    if isinstance(node, list):
        return [_unguard_loops(x) for x in node]
    if not isinstance(node, dict):
        return node
    if node.get("t") in ("Closure",):
        return node
    out = {k: (_unguard_loops(v) if isinstance(v, (dict, list)) else v) for k, v in node.items()}
    if out.get("t") in ("While", "ForLoop", "Loop") and isinstance(out.get("body"), dict):
        out["body"] = _unguard_block(out["body"], "Continue")
    return out


# --------------------------------------------------------------------------- statement-list normal form used by match_stmts

ADJ_METHODS = PURE_METHODS + ("wrapping_offset", "offset", "add", "sub", "wrapping_byte_offset", "cast", "unsigned_abs", "checked_shl", "unwrap_or")


def _loadish(e):
    """side-effect free (may read memory): paths, literals, fields, derefs, casts, arithmetic, comparisons, pointer arithmetic"""
    if not isinstance(e, dict):
        return False
    t = e.get("t")
    if t in ("Lit", "PathExpr"):
        return True
    if t in ("Paren", "Cast", "Unary", "Reference"):
        return _loadish(e["expr"])
    if t == "Field":
        return _loadish(e["base"])
    if t == "Index":
        return _loadish(e["expr"]) and _loadish(e["index"])
    if t == "Binary":
        return e["op"] in ("+", "-", "*", "/", "<", "<=", ">", ">=", "==", "!=", "&", "|", "&&", "||", "<<", ">>") and _loadish(e["left"]) and _loadish(e["right"])
    if t == "MethodCall":
        return e["method"] in ADJ_METHODS and _loadish(e["receiver"]) and all(_loadish(a) for a in e["args"])
    return False


def _place(e):
    """a place expression: local, field of a place, deref of a place"""
    while isinstance(e, dict) and e.get("t") == "Paren":
        e = e["expr"]
    if not isinstance(e, dict):
        return False
    if e.get("t") == "PathExpr" and len(e["path"]["segs"]) == 1:
        return True
    if e.get("t") == "Field":
        return _place(e["base"])
    if e.get("t") == "Unary" and e.get("op") == "*":
        return _place(e["expr"])
    return False


def _alias_init(init):
    """`&P`, `&mut P`, `addr_of!(P)`, `addr_of_mut!(P)` for a place P -> ('ref'|'raw', P) else None"""
    e = init
    while isinstance(e, dict) and e.get("t") == "Paren":
        e = e["expr"]
    if isinstance(e, dict) and e.get("t") == "Reference" and _place(e["expr"]):
        return "ref", e["expr"]
    if isinstance(e, dict) and e.get("t") == "MacroExpr" and e["mac"]["name"].split("::")[-1] in ("addr_of", "addr_of_mut") and e["mac"].get("args") and len(e["mac"]["args"]) == 1 \
            and _place(e["mac"]["args"][0]):
        return "raw", e["mac"]["args"][0]
    return None


def _simplify_alias(node, name, kind, place):
    """replace uses of an alias: `*name` / `(*name)` -> place; for a reference also `name.m(..)` -> `place.m(..)` and `name.f` -> `place.f`"""
    if isinstance(node, list):
        return [_simplify_alias(x, name, kind, place) for x in node]
    if not isinstance(node, dict):
        return node
    t = node.get("t")
    if t == "Unary" and node.get("op") == "*":
        inner = node["expr"]
        while isinstance(inner, dict) and inner.get("t") == "Paren":
            inner = inner["expr"]
        if _ident(inner) == name:
            return {"t": "Paren", "sp": node["sp"], "expr": place}
    if kind == "ref" and t == "MethodCall" and _ident(_strip_ref(node["receiver"])) == name:
        return {**node, "receiver": {"t": "Paren", "sp": node["sp"], "expr": place}, "args": _simplify_alias(node["args"], name, kind, place)}
    if kind == "ref" and t == "Field" and _ident(_strip_ref(node["base"])) == name:
        return {**node, "base": {"t": "Paren", "sp": node["sp"], "expr": place}}
    return {k: (_simplify_alias(v, name, kind, place) if isinstance(v, (dict, list)) else v) for k, v in node.items()}


NORM_COUNT = [0]


def normalize_stmts(stmts, light=False):
    """behaviour-preserving normal form of a statement list (applied to pattern and subject by match_stmts): unsafe blocks in statement position
    are spliced; a local that only names a place (`let m = &mut P;`, `let m = addr_of_mut!(P);`) is replaced by the place; a side-effect-free local used
    only by the statement that directly follows it is substituted into that statement; nested blocks likewise."""
    from common import walk
    st = _flatten_unsafe(list(stmts)) if not light else list(stmts)
    out = []
    i = 0
    while i < len(st):
        s_ = st[i]
        if s_.get("t") == "Local" and s_["pat"]["t"] == "PIdent" and not s_["pat"]["mut"] and not s_["pat"]["by_ref"] and s_.get("init") is not None and s_.get("else") is None \
                and not s_["pat"]["name"].startswith("__"):
            name = s_["pat"]["name"]
            rest = st[i + 1:]
            rebound = any(n.get("t") == "PIdent" and n["name"] == name for r in rest for n in walk(r))
            al = _alias_init(s_["init"])
            if al is not None and not rebound:
                kind, place = al
                root = place
                while isinstance(root, dict) and root.get("t") in ("Paren", "Field", "Unary"):
                    root = root["expr"] if root["t"] in ("Paren", "Unary") else root["base"]
                rname = _ident(root)
                reassigned = any(n.get("t") == "Assign" and _ident(n["left"]) == rname for r in rest for n in walk(r))
                other_use = False
                new_rest = _simplify_alias(rest, name, kind, place)
                other_use = any(_ident(n) == name for r in new_rest for n in walk(r))
                if not reassigned and not other_use:
                    st = st[:i] + new_rest
                    NORM_COUNT[0] += 1
                    continue
            if _const_pure(s_["init"]) and not rebound and not any(n.get("t") == "Assign" and _ident(n["left"]) == name for r in rest for n in walk(r)):
                # no memory is read: the value is the same wherever it is computed
                roots = {x for x in _idents_in(s_["init"])}
                reassigned = any(n.get("t") in ("Assign",) and _ident(n["left"]) in roots for r in rest for n in walk(r)) or \
                    any(n.get("t") == "Binary" and n["op"].endswith("=") and n["op"] not in ("==", "!=", "<=", ">=") and _ident(n["left"]) in roots for r in rest for n in walk(r))
                if not reassigned:
                    st = st[:i] + _subst(rest, {name: {"t": "Paren", "sp": s_["init"]["sp"], "expr": s_["init"]}})
                    NORM_COUNT[0] += 1
                    continue
            if not light and _loadish(s_["init"]) and rest and not rebound:
                uses_next = _count_uses(rest[0], name)
                uses_later = sum(_count_uses(r, name) for r in rest[1:])
                if uses_next >= 1 and uses_later == 0 and rest[0].get("t") in ("ExprStmt", "Local"):
                    st = st[:i] + [_subst(rest[0], {name: {"t": "Paren", "sp": s_["init"]["sp"], "expr": s_["init"]}})] + rest[1:]
                    continue
        out.append(s_)
        i += 1
    # nested blocks
    def rec(n):
        if isinstance(n, list):
            return [rec(x) for x in n]
        if isinstance(n, dict):
            n = {k: (rec(v) if isinstance(v, (dict, list)) else v) for k, v in n.items()}
            if n.get("t") == "Block":
                n["stmts"] = normalize_stmts(n["stmts"], light)
            return n
        return n
    return [rec(x) for x in out]
