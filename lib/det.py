"""C13: determinism and reusability rules.

HASH-SEED    hash containers of the optimiser/IR are the wrappers of src/hasher.rs, whose hasher is a
             constant-seeded zero-sized builder; std's RandomState containers are only allowed in the
             files listed here, subject to ITER-ORDER.
ITER-ORDER   every iteration over a RandomState container or a BinaryHeap feeds only commutative sinks.
EXEC-FREEZE  executors have no interior mutability or cached state, the library has no mutable statics,
             Executable methods take &self.
"""
from common import *
from iolim import parents

HASHER = "src/hasher.rs"
RANDOM_OK = {"src/bc.rs": "bytecode generator: all iterations are checked by ITER-ORDER",
             "src/exec/llvmjit.rs": "LLVM back end (not buildable here): all iterations are checked by ITER-ORDER",
             "src/bin/fuzz.rs": "fuzzer binary, not part of the library"}
INTERIOR = ("Cell", "RefCell", "OnceCell", "OnceLock", "LazyCell", "LazyLock", "Mutex", "RwLock", "UnsafeCell", "AtomicBool", "AtomicUsize",
            "AtomicU8", "AtomicU16", "AtomicU32", "AtomicU64", "AtomicIsize", "AtomicI32", "AtomicI64", "AtomicPtr", "Lazy", "Once")
COMMUTATIVE_ADAPTERS = ("any", "all", "count", "min", "max", "sum", "is_empty", "len", "contains", "min_by_key", "max_by_key")
HASH_CTORS = ("HashSet::new", "HashMap::new", "HashSet::with_capacity", "HashMap::with_capacity", "HashSet::default", "HashMap::default")
HEAP_CTORS = ("BinaryHeap::new", "BinaryHeap::with_capacity")


def T(ast, path, n, limit=400):
    return ast.src1(path, n, limit).replace(" ", "")


def run_hash_seed(res, ast):
    res.rule("HASH-SEED", "library files use the hash containers of src/hasher.rs (constant-seeded FastHasherBuilder, a zero-sized "
             "type whose hasher reads no address, time or thread state); std's randomly seeded containers appear only in the "
             "listed files", floor=8, what="files and hasher obligations")
    res.files.add(HASHER)
    for path in sorted(ast.files):
        if not path.startswith("src/"):
            continue
        f = ast.file(path)
        uses = []

        def rec(items, in_test):
            for it in items:
                if it["t"] == "Use":
                    uses.append((it, in_test or any("test" in c for c in cfg_of(it))))
                if it["t"] == "Mod" and it["items"] is not None:
                    rec(it["items"], in_test or it["name"] == "tests" or any("test" in c for c in cfg_of(it)))
        rec(f["items"], False)
        std_hash = [u for u, tst in uses if not tst and "collections" in u["tree"] and ("HashMap" in u["tree"] or "HashSet" in u["tree"] or u["tree"].strip().endswith("collections"))]
        key = f"{path}|hash-imports"
        if path == HASHER:
            continue
        if std_hash:
            res.check(path in RANDOM_OK, "HASH-SEED", key, where(path, std_hash[0]),
                      f"{path} imports std's randomly seeded hash containers (`use {std_hash[0]['tree']}`): iteration order then depends on the process")
        else:
            # fully-qualified uses
            fq = [n for n in walk(f["items"]) if n.get("t") in ("TyPath", "PathExpr") and "collections::Hash" in n["path"]["s"].replace(" ", "")]
            fq = [n for n in fq]
            res.check(not fq or path in RANDOM_OK, "HASH-SEED", key, path, f"{path} names std::collections hash containers directly")
    # the wrappers
    try:
        for alias, want in (("InnerHashMap", "collections::HashMap<K,V,FastHasherBuilder>"), ("InnerHashSet", "collections::HashSet<K,FastHasherBuilder>")):
            a = ast.item(HASHER, "TypeAlias", alias)
            res.check(T(ast, HASHER, a["ty"]) == want, "HASH-SEED", f"{HASHER}|{alias}", where(HASHER, a, alias), f"{alias} must be {want}")
        fb = ast.item(HASHER, "Struct", "FastHasherBuilder")
        res.check(fb["fields"]["kind"] == "unit", "HASH-SEED", f"{HASHER}|FastHasherBuilder|zst", where(HASHER, fb, "FastHasherBuilder"),
                  "FastHasherBuilder must be a unit struct (no per-instance seed)")
        bh = ast.fn(HASHER, "build_hasher")["node"]
        consts = {c_["name"]: c_ for c_ in ast.items(HASHER, "Const")}

        def tail_of(fn_):
            st_ = fn_["body"]["stmts"]
            return strip_paren(st_[-1]["expr"]) if len(st_) == 1 and st_[-1]["t"] == "ExprStmt" and not st_[-1]["semi"] else None

        def seeded(e_, depth=0):
            """is e_ (the value of build_hasher) a FastHasher whose only field is an integer constant of this file?"""
            if e_ is None or depth > 2:
                return False, "not a single expression"
            if e_["t"] == "Call":
                nm = path_name(strip_paren(e_["func"])) or ""
                if nm.split("::")[-1] in ("FastHasher", "Self") and len(e_["args"]) == 1:
                    a_ = strip_paren(e_["args"][0])
                    if int_lit(a_) is not None:
                        return True, "literal seed"
                    cn = path_name(a_)
                    if cn in consts and int_lit(consts[cn]["expr"]) is not None:
                        return True, f"constant {cn}"
                    return False, f"seeded with `{T(ast, HASHER, a_)}`, which is not an integer constant"
                if not e_["args"] and nm.split("::")[-1] not in ("default",):
                    # a constructor function of this file: look at what it returns
                    cands = [f_ for f_ in ast.find_fns(HASHER, nm.split("::")[-1]) if not is_test_item(f_) and f_["node"].get("body") and not f_["node"]["sig"]["inputs"]
                             and f_["container"].replace(" ", "") in ("implFastHasher", "")]
                    if len(cands) == 1:
                        return seeded(tail_of(cands[0]["node"]), depth + 1)
                return False, f"built by `{nm}`"
            return False, "not a constructor call"
        oks_, whys_ = seeded(tail_of(bh))
        res.check(oks_, "HASH-SEED", f"{HASHER}|build_hasher", where(HASHER, bh, "build_hasher"),
                  f"build_hasher must return a FastHasher seeded with an integer constant of this file: {whys_}")
        res.check(oks_, "HASH-SEED", f"{HASHER}|FastHasher::new", where(HASHER, bh, "build_hasher"),
                  "the hasher's initial state must be the constant seed")
        seedc = [c_ for c_ in consts.values() if c_["name"] == "DEFAULT_SEED"]
        res.check(bool(seedc) and int_lit(seedc[0]["expr"]) is not None if seedc else oks_, "HASH-SEED", f"{HASHER}|DEFAULT_SEED", HASHER, "DEFAULT_SEED must be an integer literal")
        # hasher methods use only their state, the argument and constants
        im = [i for i in ast.items(HASHER, "Impl") if i["trait"] and i["trait"]["name"] == "Hasher"]
        local = {f["name"]: f["node"] for f in ast.find_fns(HASHER) if not is_test_item(f) and f["node"].get("body")}
        statics = {i["name"] for i in ast.items(HASHER, "Static")}
        PURE_STD = ("from_le_bytes", "from_be_bytes", "from_ne_bytes", "from", "wrapping_mul", "wrapping_add", "rotate_left", "rotate_right", "Self")

        def impurities(fn, seen=()):
            """what makes this function depend on anything but its arguments, its state and constants (local helpers are followed)"""
            out = []
            for n in walk(fn["body"]):
                t_ = n.get("t")
                if t_ == "MacroExpr" and n["mac"]["name"] not in ("debug_assert", "debug_assert_eq", "assert", "assert_eq"):
                    out.append(f"macro {n['mac']['name']}!")
                if t_ == "Call":
                    nm = (path_name(strip_paren(n["func"])) or "?")
                    base = nm.split("::")[-1]
                    if base in local and base not in seen and (nm.count("::") == 0 or nm.split("::")[0] in ("Self", "FastHasher")):
                        out += [f"{base}: {x}" for x in impurities(local[base], seen + (base,))]
                    elif base in PURE_STD and nm.split("::")[0] in ("u8", "u16", "u32", "u64", "u128", "usize", "Self", "FastHasher"):
                        pass
                    else:
                        out.append(f"call of {nm}")
                if t_ == "Cast" and "usize" in n["ty"]["s"] and n["expr"]["t"] == "Reference":
                    out.append("address taken as a number")
                if t_ == "Cast" and n["expr"]["t"] in ("PathExpr",) and "*" in n["ty"]["s"]:
                    out.append("pointer cast")
                if t_ == "PathExpr" and (n["path"]["name"].split("::")[0] in ("std", "Instant", "SystemTime", "thread", "RandomState") or n["path"]["name"] in statics):
                    out.append(f"path {n['path']['name']}")
            return out
        bad = []
        nfn = 0
        for it in im:
            for fn in it["items"]:
                if fn["t"] != "Fn":
                    continue
                nfn += 1
                bad += [f"{fn['name']}: {x}" for x in impurities(fn)]
        res.check(not bad and len(im) == 1 and nfn >= 2, "HASH-SEED", f"{HASHER}|impl Hasher|pure", HASHER,
                  f"the hasher's methods must be pure functions of (state, input); suspicious: {sorted(set(bad))}")
        # the public wrappers are only constructed with FastHasherBuilder
        ctors = [c for f in ast.find_fns(HASHER) if not is_test_item(f) for c in walk_t(f["node"].get("body") or {}, "Call")
                 if (path_name(c["func"]) or "").split("::")[-1] in ("with_hasher", "with_capacity_and_hasher")]
        okc = ctors and all(T(ast, HASHER, c["args"][-1]) == "FastHasherBuilder" for c in ctors)
        news = [c for f in ast.find_fns(HASHER) if not is_test_item(f) for c in walk_t(f["node"].get("body") or {}, "Call")
                if (path_name(c["func"]) or "") in ("collections::HashMap::new", "collections::HashSet::new", "InnerHashMap::new", "InnerHashSet::new", "InnerHashMap::default", "InnerHashSet::default")]
        res.check(bool(okc) and not news, "HASH-SEED", f"{HASHER}|constructors", HASHER, "every inner container must be built with FastHasherBuilder")
    except Missing as m:
        res.missing("HASH-SEED", m)


def container_kinds(ast, path, only_fn=None):
    """name -> 'hash' | 'heap' | 'vec' | 'btree'.  Struct fields are keyed 'self.<name>', locals by name
    (restricted to one function when only_fn is given)."""
    kinds = {}
    f = ast.file(path)
    for st in ast.items(path, "Struct"):
        for fl in st["fields"]["fields"]:
            t = fl["ty"]["s"].replace(" ", "")
            k = "hash" if t.startswith(("HashSet<", "HashMap<")) else "heap" if t.startswith("BinaryHeap<") else "vec" if t.startswith("Vec<") else \
                "btree" if t.startswith(("BTreeSet<", "BTreeMap<")) else None
            if k:
                kinds.setdefault("self." + fl["name"], set()).add(k)
    for fr in ast.find_fns(path):
        if only_fn is not None and fr is not only_fn:
            continue
        for p_ in fr["node"]["sig"]["inputs"]:
            if p_["t"] == "Arg" and p_["pat"]["t"] == "PIdent":
                t = p_["ty"]["s"].replace(" ", "").lstrip("&").replace("mut", "", 1) if p_["ty"]["s"].startswith("&") else p_["ty"]["s"].replace(" ", "")
                k = "hash" if t.startswith(("HashSet<", "HashMap<")) else "heap" if t.startswith("BinaryHeap<") else "vec" if t.startswith("Vec<") else None
                if k:
                    kinds.setdefault(p_["pat"]["name"], set()).add(k)
        for l in walk_t(fr["node"].get("body") or {}, "Local"):
            p = l["pat"]
            ty = None
            while p["t"] == "PType":
                ty = p["ty"]["s"].replace(" ", "")
                p = p["pat"]
            if p["t"] != "PIdent":
                continue
            init = strip_paren(l["init"]) if l["init"] is not None else None
            k = None
            if init is not None and init["t"] == "Call":
                n = path_name(init["func"]) or ""
                base = n.split("::<")[0]
                if base in HASH_CTORS:
                    k = "hash"
                elif base in HEAP_CTORS:
                    k = "heap"
                elif base in ("Vec::new", "Vec::with_capacity"):
                    k = "vec"
                elif base in ("BTreeSet::new", "BTreeMap::new"):
                    k = "btree"
            if init is not None and init["t"] == "MacroExpr" and init["mac"]["name"] == "vec":
                k = "vec"
            if ty:
                k = k or ("hash" if ty.startswith(("HashSet<", "HashMap<")) else "heap" if ty.startswith("BinaryHeap<") else "vec" if ty.startswith("Vec<") else None)
            if k:
                kinds.setdefault(p["name"], set()).add(k)
    return kinds


def base_name(e):
    """Name of the container an iteration expression walks: `&self.x`, `x.iter()`, `&x` .."""
    e = strip_paren(e)
    while True:
        if e["t"] in ("Reference", "Paren"):
            e = e["expr"]
        elif e["t"] == "Unary" and e["op"] == "*":
            e = e["expr"]
        elif e["t"] == "MethodCall" and e["method"] in ("iter", "iter_mut", "into_iter", "drain", "keys", "values", "values_mut", "into_keys", "into_values"):
            e = e["receiver"]
        else:
            break
    if e["t"] == "PathExpr":
        return e["path"]["name"]
    if e["t"] == "Field":
        b = strip_paren(e["base"])
        if b["t"] == "PathExpr" and b["path"]["name"] == "self":
            return "self." + e["member"]
        return "." + e["member"]        # field of another value: kind looked up by field name
    return None


ELEMENTWISE_ADAPTERS = ("copied", "cloned", "by_ref", "filter", "map", "filter_map", "inspect", "peekable", "flatten", "flat_map")


def chain_root(e):
    """`x.iter().copied().filter(..)` -> (name of x, [adapters after the iteration root]); None when the expression is not such a chain"""
    e = strip_paren(e)
    ads = []
    while e["t"] == "MethodCall" and e["method"] not in ("iter", "iter_mut", "into_iter", "drain", "keys", "values", "values_mut", "into_keys", "into_values"):
        ads.append(e["method"])
        e = strip_paren(e["receiver"])
    if e["t"] != "MethodCall" or not ads:
        return None
    b = base_name(e)
    return (b, list(reversed(ads))) if b else None


def run_iter_order(res, ast):
    res.rule("ITER-ORDER", "every iteration over a randomly seeded hash container or a BinaryHeap feeds only commutative sinks "
             "(any/all/count/min/max, insertion or removal in a hash container, BinaryHeap::push, integer accumulation, calls to "
             "functions that are commutative updates); anything order-sensitive (Vec::push, first-match, early exit) is reported",
             floor=5, what="iteration sites")
    for path in ("src/bc.rs", "src/exec/llvmjit.rs"):
        if not ast.has(path):
            continue
        res.files.add(path)
        commut_fns = set()
        if path == "src/bc.rs":
            # callee summaries: Analysis::written / accessed are guarded min/max updates and a set insertion
            for nm in ("written", "accessed"):
                try:
                    fn = ast.fn(path, nm)["node"]
                    okf = True
                    for n in walk(fn["body"]):
                        if n.get("t") == "MethodCall" and not (n["method"] in ("insert", "accessed")):
                            okf = False
                        if n.get("t") == "Assign" and not T(ast, path, n["left"]).endswith(("min_accessed", "max_accessed")):
                            okf = False
                    if okf:
                        commut_fns.add(nm)
                except Missing:
                    pass
        for fr in ast.find_fns(path):
            if is_test_item(fr) or not fr["node"].get("body"):
                continue
            body = fr["node"]["body"]
            sites = []
            kinds = container_kinds(ast, path, only_fn=fr)
            for k_, v_ in list(kinds.items()):
                if k_.startswith("self."):
                    kinds.setdefault("." + k_[5:], set()).update(v_)    # the same field reached through another value
            for l in walk_t(body, "ForLoop"):
                b = base_name(l["expr"])
                if b and kinds.get(b, set()) & {"hash", "heap"}:
                    sites.append(("for", b, l))
                    continue
                cr = chain_root(l["expr"])
                if cr and kinds.get(cr[0], set()) & {"hash", "heap"}:
                    # `for x in set.iter().copied()`: element-wise adapters keep it an iteration over the container; anything that numbers,
                    # cuts or reorders the sequence (enumerate, skip, take, zip, rev, step_by, ..) makes the loop depend on the order
                    bad_ad = [a for a in cr[1] if a not in ELEMENTWISE_ADAPTERS]
                    if bad_ad:
                        res.bad("ITER-ORDER", f"{path}|{fr['name']}|for {cr[0]}|{'.'.join(bad_ad)}", where(path, l, fr["name"]),
                                f"{fr['name']}: `for .. in {cr[0]}…` goes through `.{bad_ad[0]}()`, which depends on the container's iteration order")
                    else:
                        sites.append(("for", cr[0], l))
            for m in walk_t(body, "MethodCall"):
                if m["method"] in ("iter", "into_iter", "drain", "keys", "values", "iter_mut"):
                    b = base_name(m)
                    if b and kinds.get(b, set()) & {"hash", "heap"}:
                        sites.append(("chain", b, m))
            par = parents(fr["node"])
            seen = set()
            for kind, b, node in sites:
                if kind == "chain":
                    # skip chains that are the iterated expression of a for loop already listed
                    pn, k = par.get(id(node), (None, None))
                    top = node
                    while pn is not None and pn["t"] == "MethodCall" and k == "receiver":
                        top = pn
                        pn, k = par.get(id(pn), (None, None))
                    if pn is not None and pn["t"] in ("ForLoop",) and k == "expr":
                        continue
                    if pn is not None and pn["t"] == "Reference":
                        gp = par.get(id(pn), (None, None))
                        if gp[0] is not None and gp[0]["t"] == "ForLoop":
                            continue
                    if id(top) in seen:
                        continue
                    seen.add(id(top))
                    last = top["method"] if top["t"] == "MethodCall" else None
                    key = f"{path}|{fr['name']}|iter {b}|{last}"
                    w = where(path, node, fr["name"])
                    # a BinaryHeap's peek/pop are ordered by key, not iteration: only iter() counts
                    ok = last in COMMUTATIVE_ADAPTERS
                    if last == "collect":
                        # accepted when the collected value is sorted before use: `let mut v = ..collect(); v.sort();`
                        gp = pn
                        ok = False
                        if gp is not None and gp["t"] == "Local" and gp["pat"]["t"] == "PIdent":
                            vn = gp["pat"]["name"]
                            blk, _ = par[id(gp)]
                            idx = next(i for i, s in enumerate(blk["stmts"]) if s is gp)
                            nxt = blk["stmts"][idx + 1] if idx + 1 < len(blk["stmts"]) else None
                            ok = nxt is not None and T(ast, path, nxt).rstrip(";") in (f"{vn}.sort()", f"{vn}.sort_unstable()")
                    res.check(ok, "ITER-ORDER", key, w,
                              f"{fr['name']}: iteration over `{b}` ({'/'.join(sorted(kinds[b]))}) ends in `.{last}()`, which depends on the iteration order")
                    continue
                # for loop: classify the body
                key = f"{path}|{fr['name']}|for {b}"
                w = where(path, node, fr["name"])
                sinks = []
                okb = True
                for n in walk(node["body"]):
                    t = n.get("t")
                    if t == "MethodCall":
                        recv = base_name(n["receiver"])
                        m = n["method"]
                        rk = kinds.get(recv, set())
                        if m in ("insert", "remove", "contains", "contains_key", "get", "entry", "or_default") and (rk & {"hash", "btree"}):
                            sinks.append(f"{recv}.{m}")
                        elif m == "push" and rk == {"heap"}:
                            sinks.append(f"{recv}.push (heap)")
                        elif m in commut_fns:
                            sinks.append(f"{m}() [commutative update]")
                        elif m in ("push", "push_str", "extend", "append", "insert_str", "write", "write_all") or (m == "insert" and rk & {"vec"}):
                            sinks.append(f"{recv}.{m} ORDER-SENSITIVE")
                            okb = False
                        elif m in ("trailing_zeros", "unwrap", "clone", "copied", "cloned", "is_some", "is_none", "len", "wrapping_add", "wrapping_sub", "min", "max"):
                            pass
                        else:
                            sinks.append(f"{recv}.{m} (unclassified)")
                            okb = False
                    elif t == "Call":
                        cn = path_name(n["func"]) or "?"
                        if cn.split("::")[-1][:1].isupper():
                            pass        # enum / tuple-struct constructor: pure
                        else:
                            sinks.append(f"{cn}() (unclassified)")
                            okb = False
                    elif t in ("Break", "Return", "Continue"):
                        if t != "Continue":
                            sinks.append(f"{t.lower()} ORDER-SENSITIVE")
                            okb = False
                    elif t == "Assign":
                        sinks.append("assignment ORDER-SENSITIVE")
                        okb = False
                    elif t == "Binary" and n["op"] in ("+=", "-=", "|=", "&=", "^="):
                        sinks.append(f"{n['op']} accumulation")
                    elif t == "MacroExpr" and n["mac"]["name"] in ("write", "writeln", "print", "println"):
                        sinks.append("formatted output ORDER-SENSITIVE")
                        okb = False
                res.check(okb, "ITER-ORDER", key, w,
                          f"{fr['name']}: `for .. in {b}` ({'/'.join(sorted(kinds[b]))}) has sinks {sinks}: the result depends on the container's iteration order",
                          detail=None)
                if okb:
                    res.sample({"rule": "ITER-ORDER", "site": w, "container": b, "kind": sorted(kinds[b]), "sinks": sinks})


def run_exec_freeze(res, ast):
    res.rule("EXEC-FREEZE", "executor structs contain no interior mutability or cache, Executable/Executor methods take &self, "
             "the library declares no `static mut`, interior-mutable static or thread_local!", floor=8, what="types, methods and statics")
    execs = (("src/exec/inplace.rs", "InplaceInterpreter"), ("src/exec/irint.rs", "IrInterpreter"), ("src/exec/bcint/mod.rs", "BcInterpreter"),
             ("src/exec/basejit/mod.rs", "BaseJitCompiler"), ("src/exec/llvmjit.rs", "LlvmJitCompiler"))
    for path, ty in execs:
        if not ast.has(path):
            continue
        res.files.add(path)
        try:
            st = ast.item(path, "Struct", ty)
        except Missing as m:
            res.missing("EXEC-FREEZE", m)
            continue
        bad = []
        for fl in st["fields"]["fields"]:
            for n in walk_t(fl["ty"], "TyPath"):
                last = n["path"]["segs"][-1]["id"]
                if last in INTERIOR:
                    bad.append(f"{fl['name']}: {fl['ty']['s']}")
        res.check(not bad, "EXEC-FREEZE", f"{path}|{ty}|fields", where(path, st, ty),
                  f"{ty} has interior-mutable fields {bad}: repeated execution can depend on what ran before")
    # nested types used in executor fields: bc::Program, ir::Program/Block
    for path, names in (("src/bc.rs", ("Program",)), ("src/ir.rs", ("Block", "Expr", "ExprPart"))):
        for nm in names:
            for st in ast.items(path, "Struct", nm):
                bad = [fl["name"] for fl in st["fields"]["fields"] for n in walk_t(fl["ty"], "TyPath") if n["path"]["segs"][-1]["id"] in INTERIOR]
                res.check(not bad, "EXEC-FREEZE", f"{path}|{nm}|fields", where(path, st, nm), f"{nm} has interior-mutable fields {bad}")
    # trait receivers
    try:
        for trn in ("Executable",):
            tr = ast.item("src/exec/mod.rs", "Trait", trn)
            for it in tr["items"]:
                if it["t"] != "Fn":
                    continue
                recv = [p for p in it["sig"]["inputs"] if p["t"] == "Receiver"]
                ok = recv and recv[0]["ref"] and not recv[0]["mut"]
                res.check(bool(ok), "EXEC-FREEZE", f"src/exec/mod.rs|{trn}::{it['name']}|receiver", where("src/exec/mod.rs", it, f"{trn}::{it['name']}"),
                          f"{trn}::{it['name']} must take &self")
    except Missing as m:
        res.missing("EXEC-FREEZE", m)
    # statics / thread locals in the library
    bad = []
    for path in sorted(ast.files):
        if not path.startswith("src/") or path.startswith("src/bin/"):
            continue
        for st in ast.items(path, "Static"):
            tys = [n["path"]["segs"][-1]["id"] for n in walk_t(st["ty"], "TyPath")]
            if st["mut"] or any(t in INTERIOR for t in tys):
                bad.append(f"{path}: static {st['name']}")
        for mc in walk_t(ast.file(path)["items"], "Macro"):
            if mc["name"] in ("thread_local", "lazy_static"):
                bad.append(f"{path}: {mc['name']}!")
    res.check(not bad, "EXEC-FREEZE", "library-statics", "src/", f"mutable global state in the library: {bad}")
    # every entry point generates its code from self, with this call's mode flags, on every call (no cached code is reached first)
    import iolim as _io
    _io.run_mode_map(res, ast, "EXEC-FREEZE")
