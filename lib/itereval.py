"""IterInterp: rusteval plus the small part of the iterator / closure / nested-fn vocabulary that loop-shaped helper code
uses (`iter`, `into_iter`, `map`, `filter`, `filter_map`, `flatten`, `max`, `min`, `fold`, `enumerate`, `zip`, `rev`, `copied`,
`unwrap_or`, `x.max(y)`), over Python lists and integers.  Used to evaluate small folding functions (count_temps) on
representative instruction shapes.  Anything outside the vocabulary raises Unanalysable (the rule fails closed)."""
from common import strip_paren, path_name
from rusteval import Interp, Env, Unanalysable, ReturnEx, Opt, Tup, UNIT, NONE, Some


class ClosureV:
    def __init__(self, node, env):
        self.node, self.env = node, env


class Ctor:
    """a value built by a tuple-like enum constructor: name + fields"""

    def __init__(self, name, fields):
        self.name, self.fields = name, list(fields)

    def __repr__(self):
        return f"{self.name}({', '.join(map(repr, self.fields))})"

    def __eq__(self, o):
        return isinstance(o, Ctor) and self.name == o.name and self.fields == o.fields

    def __hash__(self):
        return hash((self.name, tuple(map(repr, self.fields))))


class IterInterp(Interp):
    def __init__(self):
        super().__init__()
        self.local_fns = {}
        self.depth = 0

    def local_item(self, st, env):
        if st["t"] == "Fn":
            self.local_fns[st["name"]] = st

    def apply(self, f, args):
        if isinstance(f, ClosureV):
            env = f.env.child()
            ins = f.node["inputs"]
            if len(ins) != len(args):
                raise Unanalysable("closure arity")
            for p_, a_ in zip(ins, args):
                if not self.match(p_, a_, env):
                    raise Unanalysable("closure parameter pattern")
            return self.eval(f.node["body"], env)
        raise Unanalysable(f"call of {f!r}")

    def call_value(self, f, args, node):
        return self.apply(f, args)

    def call_fn(self, fn, args):
        env = Env()
        ps = [p_ for p_ in fn["sig"]["inputs"] if p_["t"] == "Arg"]
        if len(ps) != len(args):
            raise Unanalysable("arity")
        for p_, a_ in zip(ps, args):
            if not self.match(p_["pat"], a_, env):
                raise Unanalysable("parameter pattern")
        self.depth += 1
        if self.depth > 6:
            raise Unanalysable("recursion")
        try:
            return self.exec_block(fn["body"], env)
        except ReturnEx as r:
            return r.value
        finally:
            self.depth -= 1

    def call(self, name, targs, args, node):
        base = name.split("::")[-1]
        if base in self.local_fns and name.count("::") == 0:
            return self.call_fn(self.local_fns[base], args)
        return super().call(name, targs, args, node)

    def eval(self, e, env):
        t = e.get("t")
        if t == "Closure":
            return ClosureV(e, env)
        if t == "Reference":
            return self.eval(e["expr"], env)
        if t == "Repeat":
            n = self.eval(e["len"], env)
            v = self.eval(e["expr"], env)
            if not isinstance(n, int):
                raise Unanalysable("repeat length")
            return [v] * n
        if t == "Unary" and e["op"] == "*":
            return self.eval(e["expr"], env)
        if t == "Range":
            lo = self.eval(e["start"], env) if e.get("start") else 0
            hi = self.eval(e["end"], env) if e.get("end") else None
            if not isinstance(lo, int) or not isinstance(hi, int):
                raise Unanalysable("range over non-integers")
            return list(range(lo, hi + 1 if e.get("closed") else hi))
        return super().eval(e, env)

    def match(self, pat, val, env):
        if pat["t"] == "PSlice" and isinstance(val, list):
            if len(pat["elems"]) != len(val):
                return False
            return all(self.match(p_, v_, env) for p_, v_ in zip(pat["elems"], val))
        return super().match(pat, val, env)

    def match_ctor(self, name, elems, val, env, node):
        if isinstance(val, Ctor):
            if val.name.split("::")[-1] != name.split("::")[-1]:
                return False
            if len(elems) != len(val.fields):
                raise Unanalysable(f"pattern {name} arity")
            return all(self.match(p_, v_, env) for p_, v_ in zip(elems, val.fields))
        raise Unanalysable(f"pattern {name}(..) against {val!r}")

    def match_path(self, name, val, node):
        if isinstance(val, Ctor):
            return not val.fields and val.name.split("::")[-1] == name.split("::")[-1]
        raise Unanalysable(f"pattern {name} against {val!r}")

    def assign_place(self, place, value, env, node):
        pl = strip_paren(place)
        if pl["t"] == "Index":
            base = self.eval(pl["expr"], env)
            idx = self.eval(pl["index"], env)
            if isinstance(base, list) and isinstance(idx, int) and not isinstance(idx, bool):
                if not 0 <= idx < len(base):
                    from rusteval import Reached
                    raise Reached(f"index {idx} out of bounds (len {len(base)})", node)
                base[idx] = value
                return
            raise Unanalysable("assignment through an index the rule does not model")
        if pl["t"] == "Unary" and pl["op"] == "*":
            return self.assign_place(pl["expr"], value, env, node)
        super().assign_place(place, value, env, node)

    def method(self, recv, name, targs, args, node):
        if isinstance(recv, list) and name in ("push", "resize", "clear", "truncate", "extend", "fill"):
            if name == "push":
                recv.append(args[0])
            elif name == "resize" and isinstance(args[0], int):
                del recv[args[0]:]
                recv.extend([args[1]] * (args[0] - len(recv)))
            elif name == "clear":
                del recv[:]
            elif name == "truncate" and isinstance(args[0], int):
                del recv[args[0]:]
            elif name == "extend" and isinstance(args[0], list):
                recv.extend(args[0])
            elif name == "fill":
                recv[:] = [args[0]] * len(recv)
            else:
                raise Unanalysable(f"list .{name}()")
            return UNIT
        if isinstance(recv, int) and not isinstance(recv, bool) and name in ("wrapping_add_signed", "checked_add_signed", "saturating_add_signed") and isinstance(args[0], int):
            return recv + args[0] if name != "checked_add_signed" else (Some(recv + args[0]) if recv + args[0] >= 0 else NONE)
        if isinstance(recv, list):
            if name in ("iter", "into_iter", "iter_mut", "copied", "cloned", "by_ref", "as_slice", "to_vec", "collect"):
                return list(recv)
            if name == "rev":
                return list(reversed(recv))
            if name == "len":
                return len(recv)
            if name == "is_empty":
                return not recv
            if name == "enumerate":
                return [Tup([i, v]) for i, v in enumerate(recv)]
            if name == "zip" and isinstance(args[0], list):
                return [Tup([a, b]) for a, b in zip(recv, args[0])]
            if name == "chain" and isinstance(args[0], list):
                return recv + args[0]
            if name == "map":
                return [self.apply(args[0], [v]) for v in recv]
            if name == "filter":
                return [v for v in recv if self.apply(args[0], [v]) is True]
            if name == "filter_map":
                out = []
                for v in recv:
                    r = self.apply(args[0], [v])
                    if not isinstance(r, Opt):
                        raise Unanalysable("filter_map closure result")
                    if r.some:
                        out.append(r.v)
                return out
            if name == "flat_map":
                out = []
                for v in recv:
                    r = self.apply(args[0], [v])
                    out.extend(r if isinstance(r, list) else ([r.v] if isinstance(r, Opt) and r.some else []))
                return out
            if name == "flatten":
                out = []
                for v in recv:
                    if isinstance(v, Opt):
                        if v.some:
                            out.append(v.v)
                    elif isinstance(v, list):
                        out.extend(v)
                    else:
                        raise Unanalysable("flatten of a non-iterable")
                return out
            if name in ("max", "min"):
                if not all(isinstance(v, int) and not isinstance(v, bool) for v in recv):
                    raise Unanalysable(f"{name} of non-integers")
                return Some(max(recv) if name == "max" else min(recv)) if recv else NONE
            if name == "sum":
                return sum(recv)
            if name == "count":
                return len(recv)
            if name == "fold":
                acc = args[0]
                for v in recv:
                    acc = self.apply(args[1], [acc, v])
                return acc
            if name == "for_each":
                for v in recv:
                    self.apply(args[0], [v])
                return UNIT
            if name == "any":
                return any(self.apply(args[0], [v]) is True for v in recv)
            if name == "all":
                return all(self.apply(args[0], [v]) is True for v in recv)
            if name in ("first", "next"):
                return Some(recv[0]) if recv else NONE
            if name == "last":
                return Some(recv[-1]) if recv else NONE
        if isinstance(recv, int) and not isinstance(recv, bool):
            if name in ("max", "min") and len(args) == 1 and isinstance(args[0], int):
                return max(recv, args[0]) if name == "max" else min(recv, args[0])
            if name in ("wrapping_add", "saturating_add", "checked_add") and isinstance(args[0], int):
                return recv + args[0] if name != "checked_add" else Some(recv + args[0])
        if isinstance(recv, Opt):
            if name == "unwrap_or":
                return recv.v if recv.some else args[0]
            if name == "unwrap_or_default":
                return recv.v if recv.some else 0
            if name == "map":
                return Some(self.apply(args[0], [recv.v])) if recv.some else NONE
            if name == "map_or":
                return self.apply(args[1], [recv.v]) if recv.some else args[0]
            if name in ("into_iter", "iter"):
                return [recv.v] if recv.some else []
        return super().method(recv, name, targs, args, node)
