"""Effect-trace evaluation of a driver function over the syntax tree.

`TraceInterp` walks a function body under a small concrete/symbolic input (booleans, Option/Result shapes and
named opaque symbols), follows calls of functions defined in the same file, and records the *effects the rule
asks about* (calls/methods by name, assignments to named fields, print macros, process exit) together with the
symbolic values that flow into them.  A rule then states what the trace must be for each input class, instead
of describing how the source is spelt: helper extraction, hoisted locals, `match` vs `if let`, `exit(code)` vs
`if e { exit(1) } else { exit(0) }` all yield the same trace.  A branch on a value the input does not determine
raises `Unanalysable` (the rule fails closed).  Nothing of hpbf is executed.
"""
import re
from common import strip_paren, path_name, walk
from rusteval import Interp, Env, Unanalysable, Reached, ReturnEx, Opt, Res, Tup, UNIT, NONE, Some


class Sym:
    __slots__ = ("label", "parts")

    def __init__(self, label, parts=()):
        self.label, self.parts = label, tuple(parts)

    def __eq__(self, o):
        return isinstance(o, Sym) and self.label == o.label and self.parts == o.parts

    def __hash__(self):
        return hash((self.label, self.parts))

    def __repr__(self):
        return self.label + ("(" + ", ".join(map(repr, self.parts)) + ")" if self.parts else "")


class ExitEx(Exception):
    def __init__(self, code):
        self.code = code


def derives_from(v, leaf):
    """does value v (transitively) contain the symbol `leaf`?"""
    if v == leaf:
        return True
    if isinstance(v, Sym):
        return any(derives_from(p, leaf) for p in v.parts)
    if isinstance(v, (Opt, Res)):
        return derives_from(v.v, leaf)
    if isinstance(v, Tup):
        return any(derives_from(p, leaf) for p in v.elems)
    if isinstance(v, (list, tuple)):
        return any(derives_from(p, leaf) for p in v)
    return False


def norm_name(n):
    return re.sub(r"::<[^>]*(<[^>]*>)?[^>]*>", "", (n or "").replace(" ", ""))


TRANSPARENT_METHODS = ("as_ref", "as_mut", "borrow", "borrow_mut", "clone", "unwrap", "expect", "as_str", "as_deref", "to_owned", "into", "as_slice")
TRANSPARENT_CALLS = ("Box::new", "Rc::new", "Arc::new", "Box::from")


class TraceInterp(Interp):
    def __init__(self, ast, path, fallible=(), fail=(), max_depth=3):
        """fallible: call tails (`create`, `parse`) modelled as returning Result; fail: subset that returns Err(error)."""
        super().__init__()
        self.ast, self.path = ast, path
        self.fallible, self.fail = tuple(fallible), tuple(fail)
        self.events = []
        self.depth, self.max_depth = 0, max_depth
        self.fns = {}
        for f in ast.find_fns(path):
            if f["node"].get("body") and not f["container"].startswith("mod tests"):
                self.fns.setdefault(f["name"], []).append(f["node"])

    # ---- values
    def path_value(self, name, node):
        n = norm_name(name)
        if n in ("true", "false"):
            return n == "true"
        return Sym("path:" + n)

    def match_path(self, name, val, node):
        if isinstance(val, Sym) and val.label.startswith("path:"):
            a, b = norm_name(name).split("::"), val.label[5:].split("::")
            k = min(len(a), len(b))
            return a[-k:] == b[-k:]
        raise Unanalysable(f"pattern {name} against {val!r}")

    def match_ctor(self, name, elems, val, env, node):
        raise Unanalysable(f"pattern {name}(..) against {val!r}")

    def equal(self, a, b, node):
        if isinstance(a, Sym) and isinstance(b, Sym) and a.label.startswith("path:") and b.label.startswith("path:"):
            return a == b
        return super().equal(a, b, node)

    def follow(self, fn, args, recv=None):
        env = Env()
        ps = list(fn["sig"]["inputs"])
        if ps and ps[0]["t"] == "Receiver":
            env.bind("self", recv)
            ps = ps[1:]
        if len(ps) != len(args):
            raise Unanalysable("helper called with a different number of arguments")
        for p_, a_ in zip(ps, args):
            if not self.match(p_["pat"], a_, env):
                raise Unanalysable("helper parameter pattern")
        self.depth += 1
        try:
            return self.exec_block(fn["body"], env)
        except ReturnEx as r:
            return r.value
        finally:
            self.depth -= 1

    def call(self, name, targs, args, node):
        n = norm_name(name)
        tail = n.split("::")[-1]
        if tail == "exit" and n in ("exit", "process::exit", "std::process::exit"):
            self.events.append(("exit", args[0] if args else None))
            raise ExitEx(args[0] if args else None)
        if n in TRANSPARENT_CALLS:
            return args[0]
        if (n.count("::") == 0 or n.split("::")[0] == "Self") and tail in self.fns and len(self.fns[tail]) == 1 and self.depth < self.max_depth:
            return self.follow(self.fns[tail][0], args)
        self.events.append(("call", n, tuple(args)))
        v = Sym("call:" + n, args)
        if tail in self.fallible:
            return Res(False, Sym("error:" + n)) if tail in self.fail else Res(True, v)
        return v

    def call_value(self, f, args, node):
        return Sym("callv", (f,) + tuple(args))

    def method(self, recv, name, targs, args, node):
        if name in TRANSPARENT_METHODS and not args:
            return recv
        if name in ("is_some", "is_none", "is_ok", "is_err"):
            raise Unanalysable(f".{name}() on {recv!r}")
        self.events.append(("method", name, recv, tuple(args)))
        v = Sym("m:" + name, (recv,) + tuple(args))
        if name in self.fallible:
            return Res(False, Sym("error:" + name)) if name in self.fail else Res(True, v)
        return v

    def field(self, base, member, node):
        if isinstance(base, Tup) and member.isdigit():
            return base.elems[int(member)]
        return Sym("f:" + member, (base,))

    def cast(self, v, ty, node):
        return v

    def struct_expr(self, name, fields, node):
        return Sym("struct:" + norm_name(name), tuple(fields.values()))

    def unary(self, op, v, node):
        if op == "*":
            return v
        if op == "-" and isinstance(v, Sym):
            return Sym("neg", (v,))
        if op == "!" and isinstance(v, Sym):
            raise Unanalysable(f"negation of {v!r}")
        return super().unary(op, v, node)

    def binary(self, op, l, r, node):
        if isinstance(l, Sym) or isinstance(r, Sym):
            if op in ("==", "!=", "<", "<=", ">", ">="):
                if op in ("==", "!=") and isinstance(l, Sym) and isinstance(r, Sym) and l.label.startswith("path:") and r.label.startswith("path:"):
                    return (l == r) == (op == "==")
                raise Unanalysable(f"comparison {op} of {l!r} and {r!r}")
            return Sym("op:" + op, (l, r))
        return super().binary(op, l, r, node)

    def index(self, base, idx, node):
        if isinstance(base, Sym):
            return Sym("index", (base, idx))
        return super().index(base, idx, node)

    def assign_place(self, place, value, env, node):
        pl = strip_paren(place)
        if pl["t"] == "Field":
            base = self.eval(pl["base"], env)
            self.events.append(("assign", pl["member"], base, value))
            return
        if pl["t"] == "Unary" and pl["op"] == "*":
            return self.assign_place(pl["expr"], value, env, node)
        super().assign_place(place, value, env, node)

    def macro(self, name, mac, env, node):
        if name in ("println", "print", "eprintln", "eprint", "write", "writeln"):
            vals = []
            args = mac.get("args") or []
            for a in args:
                if a.get("t") == "Lit" and a.get("kind") == "str":
                    for nm in re.findall(r"\{([A-Za-z_][A-Za-z0-9_]*)", a["value"]):
                        if env.has(nm):
                            vals.append(env.get(nm))
                elif isinstance(a, dict) and "t" in a:
                    try:
                        vals.append(self.eval(a, env))
                    except Unanalysable:
                        vals.append(Sym("unanalysed"))
            self.events.append(("print", name, tuple(vals)))
            return UNIT
        if name in ("debug_assert", "assert", "debug_assert_eq", "assert_eq", "dbg"):
            return UNIT
        return super().macro(name, mac, env, node)

    def eval(self, e, env):
        t = e.get("t")
        if t == "Try":
            v = self.eval(e["expr"], env)
            if isinstance(v, Sym):
                return v
            if isinstance(v, Res) and not v.ok:
                raise ReturnEx(v)
            if isinstance(v, Res):
                return v.v
            if isinstance(v, Opt):
                if not v.some:
                    raise ReturnEx(NONE)
                return v.v
            raise Unanalysable(f"`?` on {v!r}")
        if t == "Closure":
            return Sym("closure")
        if t == "Reference":
            return self.eval(e["expr"], env)
        if t == "MethodCall":
            recv = self.eval(e["receiver"], env)
            name = e["method"]
            if name in self.fns and len(self.fns[name]) == 1 and self.depth < self.max_depth and \
                    self.fns[name][0]["sig"]["inputs"] and self.fns[name][0]["sig"]["inputs"][0]["t"] == "Receiver" and isinstance(recv, Sym) and recv.label == "self":
                return self.follow(self.fns[name][0], [self.eval(a, env) for a in e["args"]], recv)
            if isinstance(recv, Res) and name in ("map_err", "or_else") and len(e["args"]) == 1:
                # the error side is transformed, the outcome (Ok / Err) is unchanged
                return recv if recv.ok else Res(False, Sym("mapped-error", (recv.v,)))
            if isinstance(recv, Res) and name == "map" and len(e["args"]) == 1:
                return Res(True, Sym("m:map", (recv.v,))) if recv.ok else recv
            if isinstance(recv, Res) and name in ("unwrap", "expect") and recv.ok:
                return recv.v
            if isinstance(recv, (Opt, Res)) and name in ("unwrap", "is_some", "is_none", "is_ok", "is_err", "ok", "cloned", "copied"):
                # decided here: handing the node back to the base evaluator would evaluate the receiver
                # (and record its effects) a second time
                if isinstance(recv, Opt):
                    if name == "unwrap":
                        if not recv.some:
                            raise Unanalysable("unwrap() on None")
                        return recv.v
                    if name in ("is_some", "is_none"):
                        return recv.some == (name == "is_some")
                    if name in ("cloned", "copied"):
                        return recv
                else:
                    if name == "unwrap":
                        raise Unanalysable("unwrap() on Err")
                    if name in ("is_ok", "is_err"):
                        return recv.ok == (name == "is_ok")
                    if name == "ok":
                        from rusteval import Some, NONE
                        return Some(recv.v) if recv.ok else NONE
                raise Unanalysable(f".{name}() on {recv!r}")
            args = [self.eval(a, env) for a in e["args"]]
            return self.method(recv, name, e.get("turbofish"), args, e)
        if t == "Lit" and e.get("kind") in ("float",):
            return Sym("float")
        return super().eval(e, env)
