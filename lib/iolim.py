"""C08 (I/O error discipline) and C07 (budget protocol) rules over the interpreters and shims.

IO-MAP         Context::input / Context::output map every outcome of the underlying reader/writer
               to the documented Option (abstract evaluation over the outcome classes).
IO-DISCIPLINE  every call of Context::input/output in a back end handles `None` with one of the
               accepted terminating idioms; the None branch performs no further I/O or tape write;
               the failure is propagated through every intermediate (recursive) caller.
LIM-BACKEDGE   in limited mode every cycle of interpreted control flow passes the budget gate
               (`if budget == 0 { return not-finished } budget -= 1` or the threaded-code `limit` op).
LIM-GUARD      the budget is consulted and 'not finished' produced only under LIMITED/limited.
LIM-CHARGE     which budget charges build_threaded_code puts in front of which op (evaluated with scripted emitters).
"""
from common import *
from rusteval import *
from paths import block_paths, TooComplex
import pm

RUNTIME = "src/runtime.rs"
INPLACE = "src/exec/inplace.rs"
IRINT = "src/exec/irint.rs"
BCMOD = "src/exec/bcint/mod.rs"
OPS = "src/exec/bcint/ops.rs"
BASEJIT = "src/exec/basejit/mod.rs"
LLVM = "src/exec/llvmjit.rs"
CODEGEN = "src/exec/basejit/codegen.rs"


def parents(root):
    par = {}
    stack = [root]
    while stack:
        n = stack.pop()
        if isinstance(n, dict):
            for k, v in n.items():
                if isinstance(v, dict):
                    par[id(v)] = (n, k)
                    stack.append(v)
                elif isinstance(v, list):
                    for x in v:
                        if isinstance(x, dict):
                            par[id(x)] = (n, k)
                            stack.append(x)
    return par


# ----------------------------------------------------------------------------- IO-MAP

class Src:
    """Abstract reader/writer with a fixed outcome."""

    def __init__(self, outcome):
        self.outcome = outcome


class IoInterp(Interp):
    def __init__(self, fields):
        super().__init__()
        self.fields = fields
        self.requested = []

    def path_value(self, name, node):
        raise Unanalysable(f"path {name}")

    def field(self, base, member, node):
        if base == "self" and member in self.fields:
            return self.fields[member]
        return super().field(base, member, node)

    def eval(self, e, env):
        if e["t"] == "PathExpr" and e["path"]["name"] == "self":
            return "self"
        if e["t"] == "Array":
            return [self.eval(x, env) for x in e["elems"]]
        if e["t"] == "Reference":
            return self.eval(e["expr"], env)
        return super().eval(e, env)

    def method(self, recv, name, targs, args, node):
        if isinstance(recv, Src) and name == "read":
            buf = args[0]
            if not isinstance(buf, list):
                raise Unanalysable("read into a non-array buffer")
            self.requested.append(len(buf))
            o = recv.outcome
            if o == "err":
                return Res(False, "io-error")
            if o == "eof":
                return Res(True, 0)
            for i in range(len(buf)):
                buf[i] = f"byte{i}"
            return Res(True, len(buf))
        if isinstance(recv, Src) and name == "write":
            buf = args[0]
            if not isinstance(buf, list):
                raise Unanalysable("write of a non-array buffer")
            self.requested.append(tuple(buf))
            o = recv.outcome
            if o == "err":
                return Res(False, "io-error")
            if o == "zero":
                return Res(True, 0)
            return Res(True, len(buf))
        if isinstance(recv, Src) and name == "read_exact":
            buf = args[0]
            if not isinstance(buf, list):
                raise Unanalysable("read_exact into a non-array buffer")
            self.requested.append(len(buf))
            o = recv.outcome
            if o == "err":
                return Res(False, "io-error")
            if o == "eof":
                return Res(False, "unexpected-eof")      # read_exact reports end of input as an error
            for i in range(len(buf)):
                buf[i] = f"byte{i}"
            return Res(True, UNIT)
        if isinstance(recv, Src) and name == "write_all":
            buf = args[0]
            if not isinstance(buf, list):
                raise Unanalysable("write_all of a non-array buffer")
            self.requested.append(tuple(buf))
            o = recv.outcome
            return Res(False, "io-error" if o == "err" else "write-zero") if o in ("err", "zero") else Res(True, UNIT)
        if isinstance(recv, Src) and name in ("flush", "read_to_end"):
            raise Unanalysable(f"{name}: not a one-byte transfer")
        return super().method(recv, name, targs, args, node)

    def equal(self, a, b, node):
        if isinstance(a, (int, str)) and isinstance(b, (int, str)):
            return a == b
        return super().equal(a, b, node)

    def match(self, pat, val, env):
        if pat["t"] == "PTupleStruct" and pat["path"]["name"] in ("Ok", "Err") and isinstance(val, Res):
            if (pat["path"]["name"] == "Ok") != val.ok:
                return False
            return self.match(pat["elems"][0], val.v, env)
        return super().match(pat, val, env)


def run_io_map(res, ast):
    res.rule("IO-MAP", "Context::input: no source -> None, read error -> None, 0 bytes -> Some(0), else the byte; "
             "Context::output: no sink -> Some(()), Ok(0) or Err -> None, else Some(()); exactly one byte per call",
             floor=8, what="outcome classes")
    res.files.add(RUNTIME)
    cases_in = [("absent", None, NONE), ("err", "err", NONE), ("eof", "eof", Some(0)), ("byte", "byte", Some("byte0"))]
    cases_out = [("absent", None, Some(UNIT)), ("err", "err", NONE), ("zero", "zero", NONE), ("ok", "ok", Some(UNIT))]
    for fname, cases in (("input", cases_in), ("output", cases_out)):
        try:
            f = ast.fn(RUNTIME, fname, contains="Context")
        except Missing as m:
            res.missing("IO-MAP", m)
            continue
        node = f["node"]
        for label, outcome, want in cases:
            key = f"{RUNTIME}|Context::{fname}|{label}"
            w = where(RUNTIME, node, f"Context::{fname}")
            it = IoInterp({fname: Some(Src(outcome)) if outcome else NONE})
            env = Env()
            params = [p for p in node["sig"]["inputs"] if p["t"] == "Arg"]
            for p in params:
                env.bind(p["pat"]["name"], "value")
            try:
                try:
                    got = it.exec_block(node["body"], env)
                except ReturnEx as r:
                    got = r.value
            except (Unanalysable, Reached) as u:
                res.bad("IO-MAP", key, w, f"Context::{fname} cannot be analysed for outcome `{label}` (fail closed): {u}")
                continue
            res.evaluations += 1
            ok = isinstance(got, Opt) and got.some == want.some and (not want.some or got.v == want.v or (want.v is UNIT and got.v is UNIT))
            one = all((r == 1) if isinstance(r, int) else (r == ("value",)) for r in it.requested)
            msg = []
            if not ok:
                msg.append(f"returns {got!r}, the contract requires {want!r}")
            if not one:
                msg.append(f"transfers {it.requested} instead of exactly one byte (the value)")
            res.check(not msg, "IO-MAP", key, w, f"Context::{fname}, underlying outcome `{label}`: " + "; ".join(msg))
            res.sample({"rule": "IO-MAP", "fn": fname, "outcome": label, "returns": repr(got)})


# ----------------------------------------------------------------------------- IO-DISCIPLINE

def io_sites(fnode):
    out = []
    for m in walk_t(fnode.get("body") or {}, "MethodCall"):
        if m["method"] == "input" and len(m["args"]) == 0 or m["method"] == "output" and len(m["args"]) == 1:
            r = strip_paren(m["receiver"])
            txt = None
            # receiver must look like a context: cxt / context / (*cxt).context / self.cxt
            # every `.input()` / `.output(x)` method call in a back end is a Context call (E2's SITES/RES rule
            # cross-checks the enumeration against the resolved callees)
            out.append(m)
    return out


def has_effects(ast, path, node):
    """I/O or tape write inside node?"""
    for m in walk_t(node, "MethodCall"):
        if m["method"] in ("input", "output", "write", "write_out_of_bounds"):
            return True
    for a in walk_t(node, "Assign"):
        l = strip_paren(a["left"])
        if l["t"] == "Unary" and l["op"] == "*":
            return True
    return False


def terminates(block_or_expr):
    """Does the None branch end the function: a `return`, or a value-only tail (ptr::null(), true, ..)."""
    n = block_or_expr
    if n["t"] == "BlockExpr":
        n = n["block"]
    if n["t"] == "Block":
        st = n["stmts"]
        if not st:
            return False, "empty"
        last = st[-1]
        if last["t"] == "ExprStmt":
            e = strip_paren(last["expr"])
            if e["t"] == "Return":
                return True, "return"
            if not last["semi"]:
                return None, e      # tail value: caller decides whether the construct is in tail position
        return False, "falls through"
    e = strip_paren(n)
    if e["t"] == "Return":
        return True, "return"
    return None, e


def in_tail_position(node, fnode, par):
    """Is `node` the value of the function body (through blocks/unsafe/if/match arms)?"""
    cur = node
    while True:
        p = par.get(id(cur))
        if p is None:
            return False
        pn, k = p
        t = pn["t"]
        if pn is fnode["body"]:
            st = pn["stmts"]
            return st and st[-1] is cur
        if t == "Block":
            if not pn["stmts"] or pn["stmts"][-1] is not cur:
                return False
            cur = pn
        elif t == "ExprStmt":
            if pn["semi"]:
                return False
            cur = pn
        elif t in ("BlockExpr", "Unsafe", "Paren"):
            cur = pn
        elif t == "If" and k in ("then", "else"):
            cur = pn
        elif t == "Arm" and k == "body":
            cur = pn
        elif t == "Match" and k == "arms":
            cur = pn
        else:
            return False


def classify_site(ast, path, frec, site, par):
    """-> (idiom, ok, message)"""
    fnode = frec["node"]
    p = par.get(id(site))
    pn, k = p
    # the result is only given a name (`let r = <site>;`, never reassigned, used once): the use of the name is judged
    if pn["t"] == "Local" and k == "init" and pn["pat"]["t"] == "PIdent" and not pn["pat"].get("mut") and pn.get("else") is None:
        nm = pn["pat"]["name"]
        uses = [n_ for n_ in walk_t(fnode["body"], "PathExpr") if n_["path"]["name"] == nm and n_ is not site]
        shadows = [l_ for l_ in walk_t(fnode["body"], "Local") if l_ is not pn and any(x_["name"] == nm for x_ in walk_t(l_["pat"], "PIdent"))]
        if len(uses) == 1 and not shadows and id(uses[0]) in par:
            return classify_site(ast, path, frec, uses[0], par)
    # (a) `?`
    if pn["t"] == "Try":
        out = fnode["sig"]["output"]
        if out is None or not (out["s"].startswith("Option") or out["s"].startswith("Result")):
            return "try", False, "`?` in a function that does not return Option/Result"
        return "try", True, "propagated with `?`"
    # receiver of a method
    if pn["t"] == "MethodCall" and k == "receiver":
        m = pn["method"]
        if m in ("unwrap_or", "unwrap_or_default", "unwrap_or_else", "map_or", "map_or_else", "ok", "map", "and_then", "or",
                 "unwrap", "expect", "unwrap_unchecked", "is_some"):
            return "swallowed:" + m, False, f"the Option is consumed by .{m}(): absence/failure of the stream is " \
                f"{'turned into a panic' if m in ('unwrap', 'expect') else 'swallowed and execution continues'}"
        if m == "is_none":
            gp = par.get(id(pn))
            gpn, gk = gp
            if gpn["t"] == "If" and gk == "cond":
                t, why = terminates(gpn["then"])
                if t is None and in_tail_position(gpn, fnode, par):
                    t = True        # `if x.is_none() { <value> } else { .. }` as the value of the function: the then-branch ends the call
                if t is True:
                    if has_effects(ast, path, gpn["then"]):
                        return "is_none-return", False, "the failure branch performs I/O or a tape write before returning"
                    return "is_none-return", True, "if x.is_none() { return .. }"
                return "is_none", False, f"failure branch does not return ({why if isinstance(why, str) else 'it yields a value in the middle of the function'})"
            if in_tail_position(pn, fnode, par):
                return "flag", True, "failure flag returned to the caller (JIT shim)"
            if gp is not None and gp[0]["t"] == "Local" and gp[1] == "init" and gp[0]["pat"]["t"] == "PIdent" and not gp[0]["pat"].get("mut"):
                # `let failed = x.is_none(); .. failed` : the named flag is the value of the function
                nm = gp[0]["pat"]["name"]
                uses = [n_ for n_ in walk_t(fnode["body"], "PathExpr") if n_["path"]["name"] == nm]
                if len(uses) == 1 and id(uses[0]) in par and in_tail_position(uses[0], fnode, par):
                    return "flag", True, "failure flag returned to the caller (JIT shim)"
            return "is_none", False, "result of is_none() is not used to stop"
    # (c) if let Some(..) = site { .. } else { .. }
    if pn["t"] == "Let" and k == "expr":
        gp = par.get(id(pn))
        gpn, gk = gp
        pat = pn["pat"]
        is_some = pat["t"] == "PTupleStruct" and pat["path"]["name"] in ("Some", "Option::Some")
        if gpn["t"] == "If" and gk == "cond" and is_some:
            if gpn["else"] is None:
                return "if-let", False, "`if let Some(..)` without an else: on failure execution simply continues"
            t, why = terminates(gpn["else"])
            if has_effects(ast, path, gpn["else"]):
                return "if-let", False, "the failure branch performs I/O or a tape write"
            if t is True:
                return "if-let-return", True, "if let Some(..) = x {..} else { return .. }"
            if t is None and in_tail_position(gpn, fnode, par):
                return "if-let-tail", True, "failure value is the function's result (null ip / flag)"
            return "if-let", False, f"failure branch does not end the function ({why if isinstance(why, str) else 'value not in tail position'})"
    if pn["t"] == "Match" and k == "expr":
        c = pm.canon(pn)
        if c.get("t") == "If" and c["cond"].get("t") == "Let" and c["cond"]["pat"]["t"] == "PTupleStruct" and c["cond"]["pat"]["path"]["name"] in ("Some", "Option::Some"):
            els = c["else"]
            t, why = terminates(els)
            if has_effects(ast, path, els):
                return "match", False, "the failure arm performs I/O or a tape write"
            if t is True:
                return "match-return", True, "match x { Some(..) => .., None => return .. }"
            if t is None and in_tail_position(pn, fnode, par):
                return "match-tail", True, "failure value is the function's result (null ip / flag)"
            return "match", False, f"failure arm does not end the function ({why if isinstance(why, str) else 'value not in tail position'})"
        return "match", False, "match on the I/O result is not one of the accepted idioms (fail closed)"
    return "ignored", False, "the Option is dropped: absence/failure of the stream is ignored"


def run_io_discipline(res, ast):
    res.rule("IO-DISCIPLINE", "every Context::input/output call in a back end stops the run on None through an accepted "
             "idiom (`?`, `is_none() -> return`, `if let Some .. else return/terminal value`, failure flag of a JIT shim), "
             "without I/O or tape writes on the failure branch; intermediate callers propagate the failure",
             floor=10, what="call sites and propagating calls")
    files = [INPLACE, IRINT, OPS, BASEJIT]
    if ast.has(LLVM):
        files.append(LLVM)
    nsites = 0
    carriers = {}
    for path in files:
        res.files.add(path)
        for frec in ast.find_fns(path):
            if is_test_item(frec) or not frec["node"].get("body"):
                continue
            sites = io_sites(frec["node"])
            if not sites:
                continue
            par = parents(frec["node"])
            for i, s in enumerate(sites):
                idiom, ok, msg = classify_site(ast, path, frec, s, par)
                nsites += 1
                key = f"{path}|{frec['name']}|{idiom}" if not ok else f"{path}|{frec['name']}|{s['method']}|{i}"
                res.check(ok, "IO-DISCIPLINE", key, where(path, s, frec["name"]),
                          f"{frec['name']}: `{ast.src1(path, s, 60)}`: {msg}", msg)
                if ok:
                    res.sample({"rule": "IO-DISCIPLINE", "site": where(path, s, frec["name"]), "idiom": msg})
                if idiom == "try":
                    carriers[(path, frec["name"])] = frec
    # propagation through intermediate callers of `?`-carriers
    for (path, name), frec in carriers.items():
        for caller in ast.find_fns(path):
            if is_test_item(caller) or not caller["node"].get("body"):
                continue
            par = parents(caller["node"])
            for c in walk_t(caller["node"]["body"], "Call"):
                if path_name(strip_paren(c["func"])) != name:
                    continue
                pn, k = par[id(c)]
                key = f"{path}|{caller['name']}|call {name}"
                w = where(path, c, caller["name"])
                if pn["t"] == "Try":
                    res.ok("IO-DISCIPLINE", key + "|?", w, "propagated with `?`")
                elif "impl Executable" in caller["container"]:
                    # entry point: the run ends here; nothing may follow the call but the return value
                    st = caller["node"]["body"]["stmts"]
                    idx = None
                    for i, s in enumerate(st):
                        if any(x is c for x in walk(s)):
                            idx = i
                    after_fx = any(has_effects(ast, path, s) or list(walk_t(s, "Call")) and
                                   any(path_name(strip_paren(x["func"])) == name for x in walk_t(s, "Call"))
                                   for s in st[idx + 1:]) if idx is not None else True
                    res.check(not after_fx, "IO-DISCIPLINE", key + "|entry", w,
                              f"{caller['name']}: more execution follows the call of {name} although it may have stopped on an I/O failure")
                else:
                    res.bad("IO-DISCIPLINE", key + "|dropped", w,
                            f"{caller['name']}: the result of {name}(..) is not propagated with `?`: an I/O failure inside "
                            f"the nested block is swallowed and execution continues")
    # the trampoline of the bytecode interpreter stops on the null ip
    try:
        f = ast.fn(BCMOD, "execute_in", contains="BcInterpreter")
        _pm = pm
        ok = any(_pm.match_expr(l["cond"], "!__v_ip.is_null()") and _pm.find_expr(l["body"], "__v_ip = enter_ops(__e_c, __v_ip)") for l in walk_t(f["node"]["body"], "While"))
        if not ok:
            # the same loop written as `loop { if ip.is_null() { break .. } .. ip = enter_ops(.., ip) .. }`: a top-level test of the pointer that leaves the loop
            for l in walk_t(f["node"]["body"], "Loop"):
                b_ = _pm.find_expr(l["body"], "__v_ip = enter_ops(__e_c, __v_ip)")
                if not b_:
                    continue
                ipn = b_[0][1]["__v_ip"]
                for st_ in l["body"]["stmts"]:
                    e_ = st_.get("expr") if st_["t"] == "ExprStmt" else None
                    if e_ is not None and e_["t"] == "If" and _pm.match_expr(e_["cond"], "__v_ip.is_null()", {"__v_ip": ipn}) is not None \
                            and any(True for _ in walk_t(e_["then"], "Break")) | any(True for _ in walk_t(e_["then"], "Return")):
                        ok = True
        res.check(ok, "IO-DISCIPLINE", f"{BCMOD}|execute_in|trampoline", where(BCMOD, f["node"], "execute_in"),
                  "the threaded-code trampoline must be `while !ip.is_null() { .. ip = enter_ops(..) }` so that the null ip returned by a failed input/output op ends the run")
    except Missing as m:
        res.missing("IO-DISCIPLINE", m)
    return nsites


# ----------------------------------------------------------------------------- LIM rules

def is_budget(e):
    e = strip_paren(e)
    return e["t"] == "Field" and e["member"] == "budget"


def gate_in(ast, path, stmts, notfinished):
    """Index of a budget gate `if B == 0 { return NF } B -= 1` inside stmts (as two consecutive statements), else None."""
    for i in range(len(stmts) - 1):
        a, b = stmts[i], stmts[i + 1]
        if a["t"] != "ExprStmt" or b["t"] != "ExprStmt":
            continue
        ea, eb = a["expr"], b["expr"]
        if ea["t"] != "If" or ea["else"] is not None:
            continue
        c = strip_paren(ea["cond"])
        if not (c["t"] == "Binary" and c["op"] == "==" and is_budget(c["left"]) and int_lit(c["right"]) == 0):
            continue
        ts = ea["then"]["stmts"]
        if len(ts) != 1 or ts[0]["t"] != "ExprStmt" or strip_paren(ts[0]["expr"])["t"] != "Return":
            continue
        rv = strip_paren(ts[0]["expr"])["expr"]
        if rv is None or ast.src1(path, rv).replace(" ", "") != notfinished:
            continue
        if eb["t"] == "Binary" and eb["op"] == "-=" and is_budget(eb["left"]) and int_lit(eb["right"]) == 1:
            return i
    return None


class Exhausted(Exception):
    pass


class GateInterp(Interp):
    """Evaluates the statements that follow one execution of a loop body, with the budget known only as
    zero / positive, to decide: (zero) the run returns 'not finished'; (positive) the budget is decreased by one
    and execution goes on.  Calls of local helper functions are followed; everything that does not touch the
    budget is opaque."""

    def __init__(self, ast, path, budget_zero, limited_name):
        super().__init__()
        self.ast, self.path, self.zero, self.limited_name = ast, path, budget_zero, limited_name
        self.decs = 0
        self.fns = pm.local_fns(ast, path)
        self.depth = 0

    def eval(self, e, env):
        t = e.get("t")
        if t == "PathExpr":
            n = e["path"]["name"]
            if n == self.limited_name:
                return True
            if len(e["path"]["segs"]) == 1 and env.has(n):
                return env.get(n)
            return ("opaque", n)
        if t == "Field":
            if e["member"] == "budget":
                return ("budget",)
            return ("opaque", "field")
        if t == "Binary" and e["op"] in ("-=", "+=") and is_budget(e["left"]):
            k = int_lit(e["right"])
            if e["op"] == "-=" and k == 1:
                return self.charge("plain")
            raise Unanalysable(f"budget changed by `{e['op']} {k}`")
        if t == "Assign" and is_budget(e["left"]):
            # `budget = budget - 1`, `= budget.saturating_sub(1)`, `= b` with `Some(b) = budget.checked_sub(1)`: the same charge
            v = self.eval(e["right"], env)
            if isinstance(v, tuple) and v and v[0] == "budget-1":
                return self.charge(v[1])
            raise Unanalysable("budget assigned a value that is not `budget - 1`")
        if t == "MacroExpr":
            return ("opaque", "macro")
        return super().eval(e, env)

    def charge(self, kind):
        """one unit taken from the budget; on an exhausted budget a plain / wrapping subtraction underflows, a saturating one
        leaves it exhausted without charging"""
        if self.zero:
            if kind == "sat":
                return UNIT
            raise Exhausted()
        self.decs += 1
        return UNIT

    def equal(self, a, b, node):
        if a == ("budget",) and b == 0:
            return self.zero
        if b == ("budget",) and a == 0:
            return self.zero
        return super().equal(a, b, node)

    def binary(self, op, l, r, node):
        if op in ("==", "!=") and (("budget",) in (l, r)) and (0 in (l, r)):
            return self.zero if op == "==" else not self.zero
        if op == "-" and l == ("budget",) and r == 1:
            return ("budget-1", "plain")
        if l == ("budget",) and r == 0 and op in (">", "<=", "<", ">="):
            return {">": not self.zero, "<=": self.zero, "<": False, ">=": True}[op]
        if isinstance(l, tuple) or isinstance(r, tuple):
            return ("opaque", "bin")
        return super().binary(op, l, r, node)

    def unary(self, op, v, node):
        if op == "!" and isinstance(v, bool):
            return not v
        if isinstance(v, tuple):
            return v
        return super().unary(op, v, node)

    def call(self, name, targs, args, node):
        base = name.split("::")[-1]
        if base in self.fns and self.depth < 3 and name.count("::") <= 1:
            fn = self.fns[base]
            # only follow helpers that mention the budget
            if any(n.get("t") == "Field" and n.get("member") == "budget" for n in walk(fn["body"])):
                env = Env()
                ps = [p_ for p_ in fn["sig"]["inputs"] if p_["t"] == "Arg"]
                for p_, a_ in zip(ps, args):
                    if p_["pat"]["t"] == "PIdent":
                        env.bind(p_["pat"]["name"], a_)
                self.depth += 1
                try:
                    return self.exec_block(fn["body"], env)
                except ReturnEx as r:
                    return r.value
                finally:
                    self.depth -= 1
        return ("opaque", name)

    def method(self, recv, name, targs, args, node):
        if recv == ("budget",) and list(args) == [1]:
            if name == "saturating_sub":
                return ("budget-1", "sat")
            if name == "wrapping_sub":
                return ("budget-1", "wrap")
            if name == "checked_sub":
                return Opt(False) if self.zero else Opt(True, ("budget-1", "checked"))
        return ("opaque", name)

    def struct_expr(self, name, fields, node):
        return ("opaque", name)

    def cast(self, v, ty, node):
        return v

    def field(self, base, member, node):
        return ("opaque", member)

    def macro(self, name, mac, env, node):
        return ("opaque", name)


class RelocInterp(Interp):
    """Symbolic evaluation of one iteration of the loop that fixes up branch offsets: arrays are names, the loop index is the
    symbol i, an element is ("idx", array, index polynomial); records the arguments of adjust_branch."""

    def __init__(self, arrays):
        super().__init__()
        self.arrays = dict(arrays)        # local/field text -> role name
        self.calls = []

    def eval(self, e, env):
        t = e.get("t")
        if t == "PathExpr" and len(e["path"]["segs"]) == 1 and not env.has(e["path"]["name"]) and e["path"]["name"] in self.arrays:
            return ("arr", self.arrays[e["path"]["name"]])
        if t == "Field":
            key = None
            b = strip_paren(e["base"])
            if b["t"] == "Field" and path_name(strip_paren(b["base"])) == "self":
                key = f"self.{b['member']}.{e['member']}"
            elif path_name(b) == "self":
                key = f"self.{e['member']}"
            if key in self.arrays:
                return ("arr", self.arrays[key])
        if t == "Range":
            return ("range", self.eval(e["start"], env) if e.get("start") else None, self.eval(e["end"], env) if e.get("end") else None)
        if t == "ForLoop":
            it = self.eval(e["expr"], env)
            i = Poly.var("i")
            scope = env.child()
            if not self.match(e["pat"], self.elem(it, i), scope):
                raise Unanalysable("loop pattern")
            try:
                self.exec_block(e["body"], scope)
            except (BreakEx, ContinueEx):
                pass
            return UNIT
        if t == "Reference":
            return self.eval(e["expr"], env)
        return super().eval(e, env)

    def elem(self, it, i):
        if it[0] == "arr":
            return ("idx", it[1], i)
        if it[0] == "iter":
            return self.elem(it[1], i)
        if it[0] == "zip":
            return Tup([self.elem(it[1], i), self.elem(it[2], i)])
        if it[0] == "enum":
            return Tup([i, self.elem(it[1], i)])
        if it[0] == "range":
            return i
        raise Unanalysable(f"iteration over {it!r}")

    def method(self, recv, name, targs, args, node):
        if isinstance(recv, tuple) and recv[0] in ("arr", "iter", "zip", "enum"):
            if name in ("iter", "iter_mut", "into_iter", "copied", "cloned"):
                return ("iter", recv) if recv[0] == "arr" else recv
            if name == "zip" and len(args) == 1 and isinstance(args[0], tuple):
                return ("zip", recv, args[0])
            if name == "enumerate":
                return ("enum", recv)
            if name == "len" and recv[0] == "arr":
                return Poly.var("len_" + recv[1])
        if isinstance(recv, Poly) and name in ("wrapping_add_signed", "wrapping_add", "checked_add_signed") and isinstance(args[0], Poly):
            return recv + args[0]
        if isinstance(recv, Poly) and name in ("wrapping_sub",) and isinstance(args[0], Poly):
            return recv - args[0]
        if isinstance(recv, Opt) and name in ("unwrap", "expect"):
            return recv.v
        raise Unanalysable(f"method .{name}() on {recv!r}")

    def index(self, base, idx, node):
        if isinstance(base, tuple) and base[0] == "arr":
            if isinstance(idx, Poly):
                return ("idx", base[1], idx)
            if isinstance(idx, tuple) and idx[0] == "range":
                return ("slice", base[1], idx[1], idx[2])
        raise Unanalysable(f"index {base!r}[{idx!r}]")

    def cast(self, v, ty, node):
        return v

    def lit(self, l):
        v = super().lit(l)
        return Poly.const(v) if isinstance(v, int) and not isinstance(v, bool) else v

    def binary(self, op, l, r, node):
        if op in ("+", "-") and isinstance(l, Poly) and isinstance(r, Poly):
            return l + r if op == "+" else l - r
        if op == "-":
            return ("sub", l, r)
        raise Unanalysable(f"binary {op}")

    def unary(self, op, v, node):
        if op == "*":
            return v
        return super().unary(op, v, node)

    def match_ctor(self, name, elems, val, env, node):
        base = name.split("::")[-1]
        if base in ("BrZ", "BrNZ") and isinstance(val, tuple) and val[0] == "idx" and val[1] == "code" and len(elems) == 2:
            # a branch instruction: (condition cell, offset in instructions)
            if not self.match(elems[0], ("cond",), env):
                return False
            return self.match(elems[1], Poly.var("off"), env)
        return False

    def call(self, name, targs, args, node):
        if name.split("::")[-1] == "adjust_branch":
            self.calls.append(tuple(args))
            return UNIT
        raise Unanalysable(f"call {name}")


class ArmInterp(GateInterp):
    """GateInterp plus scripts: the truth of each test of a tape cell (in order), the result of each recursive call of the
    interpreter function, and - after the first charge - whether the budget has become zero."""

    def __init__(self, ast, path, budget_zero, limited_name, limited, conds, nested, self_name, zero_after=None):
        super().__init__(ast, path, budget_zero, limited_name)
        self.limited, self.conds, self.nested, self.self_name = limited, list(conds), list(nested), self_name
        self.nested_calls = 0
        self.zero_after = zero_after
        self.touched = False

    def eval(self, e, env):
        t = e.get("t")
        if t == "PathExpr" and e["path"]["name"] == self.limited_name:
            return self.limited
        if t == "Field" and e["member"] == "budget":
            self.touched = True
        return super().eval(e, env)

    def charge(self, kind):
        was_zero = self.zero
        r = super().charge(kind)
        if not was_zero and self.zero_after is not None:
            self.zero = self.zero_after.pop(0) if self.zero_after else True
        return r

    def binary(self, op, l, r, node):
        budget_test = ("budget",) in (l, r)
        if not budget_test and op in ("==", "!=") and (isinstance(l, tuple) or isinstance(r, tuple)):
            if not self.conds:
                raise Unanalysable("more tests of tape cells than the scenario scripts")
            v = self.conds.pop(0)
            # the script gives the truth of `cell != 0`
            return v if op == "!=" else not v
        return super().binary(op, l, r, node)

    def call(self, name, targs, args, node):
        if name.split("::")[-1] == self.self_name:
            self.nested_calls += 1
            if not self.nested:
                raise Unanalysable("more nested calls than the scenario scripts")
            return self.nested.pop(0)
        return super().call(name, targs, args, node)


def gate_semantics(ast, path, stmts, env_names, limited_name, notfinished):
    """-> (ok, message).  `stmts`: what runs after the loop body / nested block, up to the back edge."""
    out = {}
    for zero in (True, False):
        it = GateInterp(ast, path, zero, limited_name)
        env = Env()
        for n in env_names:
            env.bind(n, ("opaque", n))
        try:
            it.exec_block({"t": "Block", "stmts": stmts, "sp": [0, 0, 0, 0]}, env)
            out[zero] = ("falls-through", it.decs)
        except ReturnEx as r:
            out[zero] = ("returns", r.value, it.decs)
        except Exhausted:
            out[zero] = ("underflow",)
        except (Unanalysable, Reached, BreakEx, ContinueEx) as u:
            return False, f"cannot be analysed (fail closed): {u}"
    z, p_ = out[True], out[False]
    if z[0] != "returns":
        return False, "with an exhausted budget the run does not return here" + (" (the budget would underflow)" if z[0] == "underflow" else "")
    if not notfinished(z[1]):
        return False, f"with an exhausted budget the run returns {z[1]!r}, not 'not finished'"
    if p_[0] != "falls-through" or p_[1] != 1:
        return False, f"with budget left the gate must charge exactly one unit and continue; it {p_[0]} after {p_[-1]} charge(s)"
    return True, ""


FORWARD_CTX = {}


def forward_only(body, e, pcn, depth=0):
    """Is the value of e certainly >= the program counter `pcn` (so that `pc = e` cannot be a back edge)?  True for `pc`, `v`, `e + k`
    (k a non-negative literal) where v is a local initialised from such a value whose only other writes are `v += k`."""
    e = strip_paren(e)
    if depth > 3:
        return False
    if e["t"] == "Binary" and e["op"] == "+" and int_lit(e["right"]) is not None and int_lit(e["right"]) >= 0:
        return forward_only(body, e["left"], pcn, depth + 1)
    if e["t"] in ("Call", "MethodCall") and FORWARD_CTX.get("fns"):
        # a helper of the same file: every value it returns must be forward relative to the parameter that receives the forward value
        name = pm._callee_name(e)
        fn = FORWARD_CTX["fns"].get(name) if name else None
        if fn is not None and depth < 3:
            pa = pm._call_args(e, fn)
            if pa is not None:
                ps, args = pa
                ps = [p_.split("\0")[0] for p_ in ps]
                fwd = [p_ for p_, a_ in zip(ps, args) if forward_only(body, a_, pcn, depth + 1)]
                def monotone(fb, nm):
                    for a_ in walk_t(fb, "Assign"):
                        if path_name(strip_paren(a_["left"])) == nm:
                            return False
                    for b_ in walk_t(fb, "Binary"):
                        if b_["op"].endswith("=") and b_["op"] not in ("==", "!=", "<=", ">=") and path_name(strip_paren(b_["left"])) == nm:
                            if not (b_["op"] == "+=" and int_lit(b_["right"]) is not None and int_lit(b_["right"]) >= 0):
                                return False
                    return not any(r_.get("mut") and path_name(strip_paren(r_["expr"])) == nm for r_ in walk_t(fb, "Reference"))
                if len(fwd) == 1 and not pm._has(fn["body"], ("Closure",)) and monotone(fn["body"], fwd[0]):
                    rets = [r_["expr"] for r_ in walk_t(fn["body"], "Return") if r_.get("expr") is not None]
                    st_ = fn["body"]["stmts"]
                    if st_ and st_[-1]["t"] == "ExprStmt" and not st_[-1]["semi"]:
                        rets.append(st_[-1]["expr"])
                    return bool(rets) and all(forward_only(fn["body"], r_, fwd[0], depth + 1) for r_ in rets)
        return False
    n = path_name(e)
    if n is None:
        return False
    if n == pcn:
        return True
    # a by-value parameter that is never written is the value itself
    inits = [l for l in walk_t(body, "Local") if l["pat"]["t"] == "PIdent" and l["pat"]["name"] == n]
    if len(inits) != 1 or inits[0].get("init") is None or not forward_only(body, inits[0]["init"], pcn, depth + 1):
        return False
    for a_ in walk_t(body, "Assign"):
        if path_name(strip_paren(a_["left"])) == n:
            return False
    for b_ in walk_t(body, "Binary"):
        if b_["op"].endswith("=") and b_["op"] not in ("==", "!=", "<=", ">=") and path_name(strip_paren(b_["left"])) == n:
            if not (b_["op"] == "+=" and int_lit(b_["right"]) is not None and int_lit(b_["right"]) >= 0):
                return False
    for r_ in walk_t(body, "Reference"):
        if r_.get("mut") and path_name(strip_paren(r_["expr"])) == n:
            return False
    return True


def limited_block(e, names=("LIMITED", "limited")):
    e = strip_paren(e)
    return e["t"] == "If" and e["else"] is None and path_name(strip_paren(e["cond"])) in names


def run_lim(res, ast, with_jit=True):
    res.rule("LIM-BACKEDGE", "in limited mode every cycle of interpreted control flow passes the budget gate: in-place "
             "`]`, IR interpreter Loop and If bodies, bytecode `limit` op before every branch (targets include it), "
             "trampoline test", floor=8, what="budget constructs")
    res.rule("LIM-GUARD", "the budget field is read or written, and 'not finished' is produced, only under LIMITED/limited "
             "(or inside the limit op / limit template that are only emitted under it)", floor=6, what="budget uses")
    res.rule("LIM-CHARGE", "bcint::build_threaded_code evaluated on one-instruction programs with the emitters scripted: under `limited` every branch is preceded "
             "by exactly one charge of 1, a stationary scan by the whole budget behind a guard branch on the scan's own cell that lands on the scan, "
             "nothing else is charged; without `limited` nothing is", floor=10, what="instruction class x mode scenarios")
    res.files.update([INPLACE, IRINT, BCMOD, OPS])
    # ---- in-place
    try:
        f = ast.fn(INPLACE, "execute_in", contains="InplaceInterpreter")
        arm = None
        # the command dispatch is the byte match with the most arms (nested matches that merely skip text are not it)
        best = 0
        for m in walk_t(f["node"]["body"], "Match"):
            barms = [a for a in m["arms"] if a["pat"]["t"] == "PLit" and a["pat"]["lit"].get("kind") == "byte"]
            hit = [a for a in barms if a["pat"]["lit"]["value"] == ord("]")]
            if hit and len(barms) > best:
                best, arm = len(barms), hit[0]
        if arm is None:
            raise Missing("in-place interpreter: arm b']'")
        ab = strip_paren(arm["body"])
        st = ab["block"]["stmts"] if ab["t"] == "BlockExpr" else [{"t": "ExprStmt", "expr": ab, "semi": False, "sp": ab["sp"]}]
        w = where(INPLACE, arm, "execute_in")
        pcs = [pm.match_expr(l["cond"], "__v_pc < __v_bytes.len()") for l in walk_t(f["node"]["body"], "While")]
        pcs = [b_["__v_pc"] for b_ in pcs if b_]
        pcn = pcs[0] if pcs else "pc"
        gens = [g["name"] for g in f["node"]["sig"]["generics"]["params"] if g["t"] == "ConstParam"]
        limn = gens[0] if gens else "LIMITED"
        # statements of the arm up to (excluding) the first one that can jump back
        cut = len(st)
        for i_, s_ in enumerate(st):
            if any(path_name(a_["left"]) == pcn for a_ in walk_t(s_, "Assign")):
                cut = i_
                break
        # the loop-stack pop and its error are not part of the gate: keep only statements that mention the budget or LIMITED
        pre = [s_ for s_ in st[:cut] if any((n.get("t") == "Field" and n.get("member") == "budget") or (n.get("t") == "PathExpr" and n["path"]["name"] == limn)
                                            or (n.get("t") == "Call") for n in walk(s_)) and not any(n.get("t") == "Closure" for n in walk(s_))]
        okg, why = gate_semantics(ast, INPLACE, pre, ["cxt", "self", "loop_stack", pcn], limn, lambda v: isinstance(v, Res) and v.ok and v.v is False)
        res.check(okg, "LIM-BACKEDGE", f"{INPLACE}|execute_in|]-gate", w, "the `]` arm, before it can jump back: " + why)
        jumps = [a for a in walk_t(arm["body"], "Assign") if path_name(a["left"]) == pcn]
        res.check(len(jumps) >= 1 and cut < len(st), "LIM-BACKEDGE",
                  f"{INPLACE}|execute_in|]-order", w, "the jump back (`pc = target`) must come after the budget gate")
        # no other backward assignment of pc
        FORWARD_CTX["fns"] = pm.local_fns(ast, INPLACE)
        back = []
        for m in walk_t(f["node"]["body"], "Match"):
            for a in m["arms"]:
                if a is arm:
                    continue
                for x in walk_t(a["body"], "Assign"):
                    if path_name(x["left"]) == pcn and not forward_only(f["node"]["body"], x["right"], pcn):
                        back.append(x)
        res.check(not back, "LIM-BACKEDGE", f"{INPLACE}|execute_in|other-jumps", w,
                  "`pc` is assigned outside the `]` arm: a second back edge without budget gate")
    except Missing as m:
        res.missing("LIM-BACKEDGE", m)
    # ---- IR interpreter
    try:
        f = ast.fn(IRINT, "execute_block")
        arms = {}
        for m in walk_t(f["node"]["body"], "Match"):
            for a in m["arms"]:
                if a["pat"]["t"] == "PStruct":
                    arms[a["pat"]["path"]["name"]] = a
        for vn, kind in (("Instr::Loop", "While"), ("Instr::If", "If")):
            key = f"{IRINT}|execute_block|{vn}"
            if vn not in arms:
                res.bad("LIM-BACKEDGE", key, where(IRINT, f["node"], "execute_block"), f"no arm for {vn}")
                continue
            a = arms[vn]
            w = where(IRINT, a, "execute_block")
            gens = [g["name"] for g in f["node"]["sig"]["generics"]["params"] if g["t"] == "ConstParam"]
            limn = gens[0] if gens else "LIMITED"
            ps_ = [p_["pat"]["name"] for p_ in f["node"]["sig"]["inputs"] if p_["t"] == "Arg" and p_["pat"]["t"] == "PIdent"]
            binds = ps_ + [n_["name"] for n_ in walk_t(a["pat"], "PIdent")]
            is_loop = kind == "While"
            OKT, OKF = Some(True), Some(False)
            # (what, limited, budget zero on entry, cell tests, nested results, zero after each charge) -> (outcome, nested calls, charges)
            scen = [("cell zero: body skipped", True, False, [False], [], None, ("falls", 0, 0)),
                    ("one round, budget left", True, False, [True, False] if is_loop else [True], [OKT], [False], ("falls", 1, 1)),
                    ("one round, budget exhausted", True, True, [True], [OKT], None, ("returns-false", 1, 0)),
                    ("nested run stopped by I/O", True, False, [True], [NONE], None, ("returns-none", 1, 0)),
                    ("nested run out of budget", True, True, [True], [OKF], None, ("returns-false", 1, 0)),
                    ("unlimited ignores the budget", False, True, [True, False] if is_loop else [True], [OKT], None, ("falls-untouched", 1, 0))]
            if is_loop:
                scen.append(("two rounds, budget left", True, False, [True, True, False], [OKT, OKT], [False, False], ("falls", 2, 2)))
                scen.append(("second round exhausts the budget", True, False, [True, True], [OKT, OKT], [True], ("returns-false", 2, 1)))
            bad_ = []
            for what, lim, zero, conds, nested, zafter, want in scen:
                it = ArmInterp(ast, IRINT, zero, limn, lim, conds, nested, f["name"], zero_after=list(zafter) if zafter is not None else None)
                env = Env()
                for n_ in binds:
                    env.bind(n_, ("opaque", n_))
                res.evaluations += 1
                try:
                    try:
                        it.eval(a["body"], env)
                        got = "falls"
                    except ReturnEx as r_:
                        v_ = r_.value
                        got = "returns-false" if (isinstance(v_, Opt) and v_.some and v_.v is False) else "returns-none" if (isinstance(v_, Opt) and not v_.some) else f"returns {v_!r}"
                    except ContinueEx:
                        got = "falls"
                    except Exhausted:
                        got = "budget underflow"
                    if want[0] == "falls-untouched":
                        okk = got == "falls" and not it.touched and it.nested_calls == want[1]
                    else:
                        okk = got == want[0] and it.nested_calls == want[1] and it.decs == want[2]
                    if not okk:
                        bad_.append(f"{what}: {got} after {it.nested_calls} nested run(s) and {it.decs} charge(s)" + (" (budget consulted)" if it.touched and not lim else "")
                                    + f", expected {want[0]} after {want[1]} and {want[2]}")
                except (Unanalysable, Reached, BreakEx, KeyError, TypeError) as u_:
                    bad_.append(f"{what}: cannot be analysed (fail closed): {u_}")
            res.check(not bad_, "LIM-BACKEDGE", key, w, f"{vn}: every execution of the nested block must be followed by the budget gate (which also carries an abort of the "
                      "nested run outwards): " + "; ".join(bad_[:2]))
    except Missing as m:
        res.missing("LIM-BACKEDGE", m)
    # ---- bytecode interpreter: build_threaded_code evaluated in limited mode on a program with every kind of branch (emitters scripted)
    try:
        f = ast.fn(BCMOD, "build_threaded_code", contains="BcInterpreter")
        import itereval as _ie
        I_ = lambda n, *a_: _ie.Ctor("Instr::" + n, list(a_))
        prog = [I_("Inp", 0), I_("BrZ", 0, 4), I_("Out", 0), I_("BrZ", 1, 2), I_("Mov", 2), I_("BrNZ", 0, -3), I_("Scan", 1, 0), I_("Out", 0)]
        w = where(BCMOD, f["node"], "build_threaded_code")
        o_bad, b_bad, f_bad = [], [], []
        try:
            code, adj = btc_stream(ast, f, prog, True)
            pos = []
            for ins in prog:
                hit = [i_ for i_, x_ in enumerate(code) if x_[0] == "op" and x_[1] is ins]
                if len(hit) != 1:
                    o_bad.append(f"{ins!r} is emitted {len(hit)} times")
                pos.append(hit[0] if hit else None)
            if not o_bad and pos != sorted(pos):
                o_bad.append("the ops are not in program order")
            if not o_bad:
                start = [0] + [p_ + 1 for p_ in pos[:-1]] + [pos[-1] + 1]
                for k_, ins in enumerate(prog):
                    if ins.name.endswith(("::BrZ", "::BrNZ")):
                        between = code[start[k_]:pos[k_]]
                        if between != [("limit", 1)]:
                            b_bad.append(f"{ins!r}: between the start of the instruction and its op the stream holds {between!r}, expected one charge of 1")
                        hits = [off for first, off in adj if first is code[pos[k_]]]
                        tgt = k_ + ins.fields[1]
                        if len(hits) != 1 or pos[k_] + hits[0] != start[tgt]:
                            f_bad.append(f"{ins!r} at op {pos[k_]} is adjusted by {hits}: it must land on element {start[tgt]}, the first element of instruction {tgt} "
                                         "(its budget charge, if it has one)")
                    elif not ins.name.endswith("::Scan"):
                        if code[start[k_]:pos[k_]]:
                            o_bad.append(f"{ins!r} is preceded by {code[start[k_]:pos[k_]]!r}")
        except (Unanalysable, Reached, KeyError, TypeError, IndexError, AttributeError) as u_:
            o_bad.append(f"cannot be analysed (fail closed): {u_}")
        res.evaluations += 1
        res.check(not o_bad, "LIM-BACKEDGE", f"{BCMOD}|build_threaded_code|order", w,
                  "one op per instruction in program order, charges in front of the op they belong to: " + "; ".join(o_bad[:2]))
        if not o_bad:
            res.check(not b_bad, "LIM-BACKEDGE", f"{BCMOD}|build_threaded_code|branches", w, "under `limited` both BrZ and BrNZ must be preceded by emit_limit: " + "; ".join(b_bad[:2]))
            res.check(not f_bad, "LIM-BACKEDGE", f"{BCMOD}|build_threaded_code|fixup", w,
                      "a branch must land on the first element of its target instruction, which is the target's budget charge: " + "; ".join(f_bad[:2]))
        # the limit op
        lf = ast.fn(OPS, "limit")["node"]
        ps = [p_["pat"]["name"] for p_ in lf["sig"]["inputs"] if p_["t"] == "Arg" and p_["pat"]["t"] == "PIdent"]
        envl = {"__v_cxt": ps[0], "__v_mem": ps[1], "__v_ip": ps[2], "__v_r0": ps[3], "__v_r1": ps[4]} if len(ps) == 5 else {}
        okl = pm.match_stmts(pm.inline_helpers(ast, OPS, lf["body"])["stmts"],
                             "let __v_cost = (*__v_ip.add(1)).idx; if (*__v_cxt).context.budget <= __v_cost { (*__v_cxt).context.budget = 0; "
                             "temps_ptr(__v_cxt).add(0).write(__v_r0); temps_ptr(__v_cxt).add(1).write(__v_r1); (*__v_cxt).context.memory.set_current_ptr(__v_mem); __v_ip.add(2) } "
                             "else { (*__v_cxt).context.budget -= __v_cost; noop(__v_cxt, __v_mem, __v_ip.add(2), __v_r0, __v_r1) }", envl) is not None
        res.check(okl, "LIM-BACKEDGE", f"{OPS}|limit|paths", where(OPS, lf, "limit"),
                  "limit op: `if budget <= cost { budget = 0; spill r0, r1, mem; ip.add(2) } else { budget -= cost; noop(.., ip.add(2), ..) }` - the exhausted "
                  "path must return to the trampoline (not continue), the funded path must charge and continue")
        # trampoline: evaluated on scripted scenarios (is the instruction pointer null?, is the budget exhausted?)
        import trace as tr
        ef = ast.fn(BCMOD, "execute_in", contains="BcInterpreter")["node"]
        eps = [p_["pat"]["name"] for p_ in ef["sig"]["inputs"] if p_["t"] == "Arg"]

        class Tramp(tr.TraceInterp):
            def __init__(self, nulls, zeros, **kw):
                super().__init__(ast, BCMOD, **kw)
                self.nulls, self.zeros, self.enters = list(nulls), list(zeros), 0
                self.fns = {}       # nothing is followed: build_context / free_context / code generation are opaque here

            def method(self, recv, name, targs, args, node):
                if name == "is_null":
                    if not self.nulls:
                        raise tr.Unanalysable("more null tests than the scenario scripts")
                    return self.nulls.pop(0)
                return super().method(recv, name, targs, args, node)

            def call(self, name, targs, args, node):
                if tr.norm_name(name).split("::")[-1] == "enter_ops":
                    self.enters += 1
                return super().call(name, targs, args, node)

            def binary(self, op, l, r, node):
                if op in ("==", "!=", ">", "<=") and isinstance(l, tr.Sym) and l.label == "f:budget" and r == 0:
                    if not self.zeros:
                        raise tr.Unanalysable("more budget tests than the scenario scripts")
                    z = self.zeros.pop(0)
                    return {"==": z, "!=": not z, ">": not z, "<=": z}[op]
                return super().binary(op, l, r, node)

        scen = (("ip null at once", [True], [], True, True, 0), ("ip null at once (unlimited)", [True], [], False, True, 0),
                ("budget exhausted on entry", [False], [True], True, False, 0),
                ("one step then done", [False, True], [False], True, True, 1), ("one step then done (unlimited)", [False, True], [], False, True, 1),
                ("one step then exhausted", [False, False], [False, True], True, False, 1),
                ("unlimited ignores an empty budget", [False, True], [], False, True, 1))
        bad = []
        for what, nulls, zeros, lim, want, enters in scen:
            it = Tramp(nulls, zeros)
            env = tr.Env()
            env.bind("self", tr.Sym("self"))
            if len(eps) == 3:
                env.bind(eps[0], tr.Sym("param:cxt")); env.bind(eps[1], lim); env.bind(eps[2], tr.Sym("param:safe"))
            try:
                try:
                    ret = it.exec_block(ef["body"], env)
                except tr.ReturnEx as r_:
                    ret = r_.value
                if ret is not want or it.enters != enters:
                    bad.append(f"{what}: returns {ret!r} after {it.enters} enter_ops call(s), expected {want} after {enters}")
            except (tr.Unanalysable, tr.Reached, BreakEx, ContinueEx, KeyError, TypeError) as u_:
                bad.append(f"{what}: cannot be analysed (fail closed): {u_}")
        res.check(not bad and len(eps) == 3, "LIM-BACKEDGE", f"{BCMOD}|execute_in|trampoline", where(BCMOD, ef, "execute_in"),
                  "the trampoline must stop with 'not finished' exactly when limited and the budget is zero before entering the ops, and run to the null "
                  "instruction pointer otherwise: " + "; ".join(bad[:3]))
    except (Missing, IndexError, KeyError, TooComplex) as m:
        res.missing("LIM-BACKEDGE", Missing(str(m)))
    # ---- LIM-CHARGE: build_threaded_code evaluated on one-instruction bytecode programs, the emitters scripted (lib/receval.py): which budget
    # charges are put in front of which op, and what guards the unbounded one
    try:
        f = ast.fn(BCMOD, "build_threaded_code", contains="BcInterpreter")
        import receval, itereval
        from receval import Rec
        from rusteval import Env as _Env, ReturnEx as _Ret, Unanalysable as _Un, Reached as _Re, UNIT as _UNIT
        I = lambda n, *a_: itereval.Ctor("Instr::" + n, list(a_))
        ps_ = [p_["pat"]["name"] for p_ in f["node"]["sig"]["inputs"] if p_["t"] == "Arg" and p_["pat"]["t"] == "PIdent"]
        BIG = (1 << 64) - 1

        def build(inst, limited):
            events = []

            def emit(it, insts, ins, safe):
                insts.append(("op", ins))
                return _UNIT

            def emit_limit(it, insts, cost):
                insts.append(("limit", cost))
                return _UNIT

            def emit_return(it, insts):
                insts.append(("return",))
                return _UNIT

            def adjust(it, sl, off):
                events.append((sl[0] if sl else None, off))
                return _UNIT
            me = Rec(bytecode=Rec(insts=[inst], temps=2, min_accessed=0, max_accessed=0))
            it = receval.RecInterp(ast, BCMOD, me, scripted={"emit": emit, "emit_limit": emit_limit, "emit_return": emit_return, "adjust_branch": adjust})
            env_ = _Env()
            if len(ps_) != 2:
                raise _Un("build_threaded_code(&self, limited, safe): unexpected parameters")
            env_.bind(ps_[0], limited)
            env_.bind(ps_[1], True)
            try:
                out = it.exec_block(f["node"]["body"], env_)
            except _Ret as r_:
                out = r_.value
            return out, events
        w = where(BCMOD, f["node"], "build_threaded_code")
        for tag, inst in (("stationary scan", I("Scan", 7, 0)), ("moving scan", I("Scan", 7, 2)), ("forward branch", I("BrZ", 7, 0)), ("backward branch", I("BrNZ", 7, 0)),
                          ("plain op", I("Out", 7))):
            for limited in (True, False):
                probs = []
                try:
                    code, adj = build(inst, limited)
                    if not isinstance(code, list):
                        raise _Un("no code vector is returned")
                    ops = [i_ for i_, x_ in enumerate(code) if x_[0] == "op" and x_[1] is inst]
                    lims = [(i_, x_[1]) for i_, x_ in enumerate(code) if x_[0] == "limit"]
                    if len(ops) != 1:
                        probs.append(f"the instruction is emitted {len(ops)} times")
                    elif not limited:
                        if lims:
                            probs.append("budget charges are emitted for an unlimited run")
                    elif tag in ("forward branch", "backward branch"):
                        if not (len(lims) == 1 and lims[0] == (ops[0] - 1, 1)):
                            probs.append(f"a branch must be preceded by exactly one charge of 1; found charges {[c_ for _, c_ in lims]} at distance {[ops[0] - i_ for i_, _ in lims]}")
                    elif tag in ("moving scan", "plain op"):
                        if lims:
                            probs.append(f"charges {[c_ for _, c_ in lims]} in front of an instruction that always terminates: the budget would end a run that is not a loop")
                    else:
                        # stationary scan: `[c] != 0` means it never ends: the whole budget is charged, but only if the scan is entered
                        guards = [(i_, x_[1]) for i_, x_ in enumerate(code[:ops[0]]) if x_[0] == "op" and isinstance(x_[1], itereval.Ctor) and x_[1].name.endswith("::BrZ")]
                        if not (len(lims) == 1 and isinstance(lims[0][1], int) and lims[0][1] >= (1 << 32)):
                            probs.append(f"a stationary scan that is entered never ends: the remaining budget must be charged in front of it; found charges {[c_ for _, c_ in lims]}")
                        elif len(guards) != 1 or not guards[0][0] < lims[0][0] < ops[0]:
                            probs.append("the unbounded charge must sit between a guard branch and the scan (a scan that is not entered must not exhaust the budget)")
                        else:
                            gi, g = guards[0]
                            if g.fields[0] != 7:
                                probs.append(f"the guard tests cell {g.fields[0]!r}, the scan loops on cell 7: the charge is skipped or taken for the wrong cell")
                            hit = [off for first, off in adj if first is code[gi]]
                            if len(hit) != 1 or gi + hit[0] != ops[0]:
                                probs.append(f"the guard branch must be adjusted to land on the scan (op {ops[0]}); it is at {gi} and adjusted by {hit}")
                except (_Un, _Re, KeyError, TypeError, IndexError, AttributeError) as u_:
                    probs.append(f"cannot be analysed (fail closed): {u_}")
                res.evaluations += 1
                res.check(not probs, "LIM-CHARGE", f"{BCMOD}|build_threaded_code|{tag}|{'limited' if limited else 'unlimited'}", w,
                          f"{tag}, {'limited' if limited else 'unlimited'}: " + "; ".join(probs[:2]))
    except Missing as m:
        res.missing("LIM-CHARGE", m)
    # ---- LIM-GUARD: every budget use is under LIMITED/limited, or inside limit()/emit_limit_check()
    files = [INPLACE, IRINT, BCMOD, OPS]
    allowed_fns = {(OPS, "limit")}
    n = 0

    def gate_names(fn_node):
        """the names that mean "this run is limited" inside a function: its const generic bool parameter (interpreters), or the
        first of its two bool parameters (limited, safe); found by position, not by spelling"""
        out = set()
        gens = [g["name"] for g in fn_node["sig"]["generics"]["params"] if g["t"] == "ConstParam"]
        if gens:
            out.add(gens[0])
        bools = [p_["pat"]["name"] for p_ in fn_node["sig"]["inputs"] if p_["t"] == "Arg" and p_["pat"]["t"] == "PIdent" and p_["ty"]["s"].strip() == "bool"]
        if len(bools) == 2:
            out.add(bools[0])
        return out

    GATE = [set()]

    def under_gate(node, par):
        cur = node
        while id(cur) in par:
            pn, k = par[id(cur)]
            if pn["t"] == "If" and k == "then" and path_name(strip_paren(pn["cond"])) in GATE[0]:
                return True
            if pn["t"] == "If" and k == "then" and strip_paren(pn["cond"])["t"] == "Binary" and strip_paren(pn["cond"])["op"] == "&&":
                c_ = strip_paren(pn["cond"])
                conj = []
                while c_["t"] == "Binary" and c_["op"] == "&&":
                    conj.append(strip_paren(c_["right"]))
                    c_ = strip_paren(c_["left"])
                conj.append(c_)
                if any(path_name(x) in GATE[0] for x in conj):
                    return True
            if pn["t"] == "If" and k == "else" and strip_paren(pn["cond"])["t"] == "Unary" and strip_paren(pn["cond"])["op"] == "!" \
                    and path_name(strip_paren(strip_paren(pn["cond"])["expr"])) in GATE[0]:
                return True
            if pn["t"] == "Binary" and pn["op"] == "||" and k == "right":
                # `!limited || X`: X is evaluated only when the run is limited
                l_ = strip_paren(pn["left"])
                if l_["t"] == "Unary" and l_["op"] == "!" and path_name(strip_paren(l_["expr"])) in GATE[0]:
                    return True
            if pn["t"] == "Binary" and pn["op"] == "&&" and k == "right":
                l_ = strip_paren(pn["left"])
                conj = []
                while l_["t"] == "Binary" and l_["op"] == "&&":
                    conj.append(strip_paren(l_["right"]))
                    l_ = strip_paren(l_["left"])
                conj.append(l_)
                if any(path_name(x) in GATE[0] for x in conj):
                    return True
            cur = pn
        return False

    def fn_only_called_under_gate(path, fname, depth=0):
        """A helper that consults the budget is fine when every one of its call sites (there must be one) is gated."""
        if depth > 2:
            return False
        sites = []
        for fr in ast.find_fns(path):
            if is_test_item(fr) or not fr["node"].get("body"):
                continue
            par_ = parents(fr["node"])
            for c_ in walk_t(fr["node"]["body"], "Call"):
                if (path_name(strip_paren(c_["func"])) or "").split("::")[-1] == fname:
                    sites.append((fr, c_, par_))
            for c_ in walk_t(fr["node"]["body"], "MethodCall"):
                if c_["method"] == fname:
                    sites.append((fr, c_, par_))
            # a function mentioned by value (passed as a callback) cannot be followed
            for p_ in walk_t(fr["node"]["body"], "PathExpr"):
                if p_["path"]["name"].split("::")[-1] == fname and not any(strip_paren(c_[1].get("func", {})) is p_ for c_ in sites):
                    return False
        if not sites:
            return False
        def site_ok(fr, c_, par_):
            saved = GATE[0]
            GATE[0] = gate_names(fr["node"])
            try:
                return under_gate(c_, par_)
            finally:
                GATE[0] = saved
        return all(site_ok(fr, c_, par_) or (fr["name"] != fname and fn_only_called_under_gate(path, fr["name"], depth + 1)) for fr, c_, par_ in sites)

    for path in files:
        for frec in ast.find_fns(path):
            if is_test_item(frec) or not frec["node"].get("body"):
                continue
            par = parents(frec["node"])
            helper_ok = None
            GATE[0] = gate_names(frec["node"]) if path != OPS else set()
            for fld in walk_t(frec["node"]["body"], "Field"):
                if fld["member"] != "budget":
                    continue
                n += 1
                guarded = (path, frec["name"]) in allowed_fns or under_gate(fld, par)
                if not guarded:
                    if helper_ok is None:
                        helper_ok = fn_only_called_under_gate(path, frec["name"])
                    guarded = helper_ok
                key = f"{path}|{frec['name']}|budget|{n}"
                res.check(guarded, "LIM-GUARD", key if not guarded else f"{path}|{frec['name']}|budget-use|{n}", where(path, fld, frec["name"]),
                          f"{frec['name']}: the budget is consulted outside `if LIMITED`/`limited &&`: an unlimited run could stop on it")
    # no budget charge is emitted for an unlimited run: build_threaded_code evaluated with limited = false (emitters scripted) on a program
    # with every instruction class that is charged in limited mode; one obligation per emit_limit call site of the function
    try:
        f = ast.fn(BCMOD, "build_threaded_code", contains="BcInterpreter")
        import itereval as _ie
        I_ = lambda n, *a_: _ie.Ctor("Instr::" + n, list(a_))
        prog = [I_("Inp", 0), I_("BrZ", 0, 3), I_("Out", 0), I_("BrNZ", 0, -2), I_("Scan", 1, 0), I_("Scan", 1, 2), I_("Out", 0)]
        try:
            code, _adj = btc_stream(ast, f, prog, False)
            extra = [x_ for x_ in code if x_[0] == "limit"]
            why = f"an unlimited run is charged {extra!r}" if extra else ""
        except (Unanalysable, Reached, KeyError, TypeError, IndexError, AttributeError) as u_:
            extra, why = [None], f"cannot be analysed (fail closed): {u_}"
        res.evaluations += 1
        sites = [c for c in walk_t(f["node"]["body"], "Call") if path_name(c["func"]) == "emit_limit"] + \
                [c for g in ast.find_fns(BCMOD) if g["node"] is not f["node"] and g["node"].get("body") for c in walk_t(g["node"]["body"], "Call") if path_name(c["func"]) == "emit_limit"]
        for c in sites or [f["node"]]:
            res.check(not extra, "LIM-GUARD", f"{BCMOD}|build_threaded_code|emit_limit-guard|{ast.src1(BCMOD, c['args'][1]) if c.get('args') else 'none'}",
                      where(BCMOD, c, "build_threaded_code"), "emit_limit is emitted outside `if limited`: " + why)
    except Missing as m:
        res.missing("LIM-GUARD", m)
    # entry points map to the right mode (SAFE-MAP, limited half)
    run_mode_map(res, ast, "LIM-GUARD")


MODE_MAP = {"execute": ("false", "true"), "execute_limited": ("true", "true"), "execute_unsafe": ("false", "false")}


def run_mode_map(res, ast, rule):
    """execute -> (limited=false, safe=true), execute_limited -> (true, true), execute_unsafe -> (false, false)."""
    import trace as tr

    class Stop(Exception):
        pass

    class ModeInterp(tr.TraceInterp):
        """follows the private glue of the executor until the mode-consuming call (code generation) is reached"""
        sinks = ()

        def follow(self, fn, args, recv=None):
            # only the glue that carries the mode flags is followed; everything else is opaque
            if not any(isinstance(a_, bool) for a_ in args):
                return tr.Sym("opaque:" + fn["name"], tuple(args))
            return super().follow(fn, args, recv)

        def method(self, recv, name, targs, args, node):
            if name in self.sinks:
                self.hit = (name, args)
                self.hit_recv = recv
                raise Stop()
            return super().method(recv, name, targs, args, node)

        def call(self, name, targs, args, node):
            if tr.norm_name(name) in self.sinks or tr.norm_name(name).split("::")[-1] in self.sinks:
                self.hit = (name, args)
                raise Stop()
            return super().call(name, targs, args, node)

    SINKS = {"BcInterpreter": ("build_threaded_code",), "BaseJitCompiler": ("compile_program",), "LlvmJitCompiler": ("CodeGen::create", "compile_program")}
    for path, ty in ((BCMOD, "BcInterpreter"), (BASEJIT, "BaseJitCompiler")) + (((LLVM, "LlvmJitCompiler"),) if ast.has(LLVM) else ()):
        res.files.add(path)
        for name, (lim, safe) in MODE_MAP.items():
            fs = [f for f in ast.find_fns(path, name) if "impl Executable" in f["container"] and ty in f["container"]]
            key = f"{path}|{ty}::{name}|mode"
            if len(fs) != 1:
                res.bad(rule, key, path, f"{ty}::{name}: expected exactly one definition, found {len(fs)}")
                continue
            it = ModeInterp(ast, path)
            it.sinks = SINKS[ty]
            it.hit = None
            it.hit_recv = tr.Sym("self")
            # only the methods of this type are followed
            it.fns = {k: [n for n in v if any(fr["node"] is n and ty in fr["container"] for fr in ast.find_fns(path, k))] for k, v in it.fns.items()}
            it.fns = {k: v for k, v in it.fns.items() if v and k not in it.sinks}
            env = tr.Env()
            env.bind("self", tr.Sym("self"))
            for p_ in fs[0]["node"]["sig"]["inputs"]:
                if p_["t"] == "Arg" and p_["pat"]["t"] == "PIdent":
                    env.bind(p_["pat"]["name"], tr.Sym("param:" + p_["pat"]["name"]))
            why = None
            try:
                it.exec_block(fs[0]["node"]["body"], env)
                why = "no code generation call is reached"
            except Stop:
                pass
            except tr.ReturnEx:
                why = "returns before any code generation call"
            except (tr.Unanalysable, tr.Reached, tr.ExitEx, KeyError, TypeError) as u_:
                why = f"cannot be analysed (fail closed): {u_}"
            good = False
            if why is None:
                flags = [a_ for a_ in it.hit[1] if isinstance(a_, bool)]
                want = [lim == "true", safe == "true"]
                good = flags == want and list(it.hit[1])[-2:] == want
                why = f"generates code with (limited, safe) = {flags}, must be {want}"
                if good and getattr(it, "hit_recv", tr.Sym("self")) != tr.Sym("self") and not any(a_ == tr.Sym("self") for a_ in it.hit[1]):
                    good, why = False, f"the code is not generated from `self` (receiver {it.hit_recv!r})"
            res.check(good, rule, key, where(path, fs[0]["node"], f"{ty}::{name}"), f"{ty}::{name}: {why}")
    # const-generic interpreters
    for path, fnname, ty in ((INPLACE, "execute_in", "InplaceInterpreter"), (IRINT, "execute_block", "IrInterpreter")):
        for name, flag in (("execute", "false"), ("execute_limited", "true")):
            fs = [f for f in ast.find_fns(path, name) if "impl Executable" in f["container"]]
            key = f"{path}|{ty}::{name}|mode"
            if len(fs) != 1:
                res.bad(rule, key, path, f"{ty}::{name}: expected exactly one definition, found {len(fs)}")
                continue
            tf = None
            for n in walk(fs[0]["node"]["body"]):
                if n.get("t") == "MethodCall" and n["method"] == fnname and n["turbofish"]:
                    tf = n["turbofish"][-1]
                if n.get("t") == "Call" and path_name(strip_paren(n["func"])) == fnname:
                    a = strip_paren(n["func"])["path"]["segs"][-1]["args"]
                    if a:
                        tf = a[-1]
            val = None
            if tf is not None:
                val = ast.src1(path, tf).replace("{", "").replace("}", "").strip()
            res.check(val == flag, rule, key, where(path, fs[0]["node"], f"{ty}::{name}"),
                      f"{ty}::{name} must instantiate {fnname} with LIMITED = {flag}; found {val}")
        # no execute_unsafe override
        fs = [f for f in ast.find_fns(path, "execute_unsafe") if "impl Executable" in f["container"]]
        res.check(not fs, rule, f"{path}|{ty}::execute_unsafe|default", path, f"{ty} overrides execute_unsafe: unchecked mode must fall back to execute")


def btc_stream(ast, f, prog, limited, safe=True):
    """bcint::build_threaded_code evaluated on the bytecode program `prog` with the emitters scripted (lib/receval.py):
    -> (stream of ("op", instr, safe) / ("limit", cost) / ("return",) elements, [(first element of the adjusted slice, offset)])"""
    import receval
    from receval import Rec
    from rusteval import UNIT as _UNIT
    adj = []

    def emit(it, insts, ins, sf):
        insts.append(("op", ins, sf))
        return _UNIT

    def emit_limit(it, insts, cost):
        insts.append(("limit", cost))
        return _UNIT

    def emit_return(it, insts):
        insts.append(("return",))
        return _UNIT

    def adjust(it, sl, off):
        adj.append((sl[0] if sl else None, off))
        return _UNIT
    ps_ = [p_["pat"]["name"] for p_ in f["node"]["sig"]["inputs"] if p_["t"] == "Arg" and p_["pat"]["t"] == "PIdent"]
    if len(ps_) != 2:
        raise Unanalysable("build_threaded_code(&self, limited, safe): unexpected parameters")
    me = Rec(bytecode=Rec(insts=list(prog), temps=2, min_accessed=0, max_accessed=1))
    it = receval.RecInterp(ast, BCMOD, me, scripted={"emit": emit, "emit_limit": emit_limit, "emit_return": emit_return, "adjust_branch": adjust})
    env_ = Env()
    env_.bind(ps_[0], limited)
    env_.bind(ps_[1], safe)
    try:
        code = it.exec_block(f["node"]["body"], env_)
    except ReturnEx as r_:
        code = r_.value
    if not isinstance(code, list):
        raise Unanalysable("no code vector is returned")
    return code, adj


def run_thread_seq(res, ast, rule="THREAD-SEQ"):
    """bcint::build_threaded_code evaluated (lib/receval.py, emitters scripted) on a small bytecode program: without `limited` the threaded code is one op per
    bytecode instruction, in order, followed by the return, and it is the same stream for safe = true and safe = false (the mode only selects the
    variant of each op); every branch is adjusted exactly once, to the start of its target instruction."""
    import receval, itereval
    from receval import Rec
    from rusteval import Env as _Env, ReturnEx as _Ret, Unanalysable as _Un, Reached as _Re, UNIT as _UNIT
    res.rule(rule, "bcint::build_threaded_code: without `limited`, one op per bytecode instruction in program order plus the return, identical for safe = true and "
             "safe = false (the flag is only handed to the emitter); every branch adjusted once to the first op of its target", floor=2, what="modes")
    res.files.add(BCMOD)
    try:
        f = ast.fn(BCMOD, "build_threaded_code", contains="BcInterpreter")
    except Missing as m:
        res.missing(rule, m)
        return
    I = lambda n, *a_: itereval.Ctor("Instr::" + n, list(a_))
    ps_ = [p_["pat"]["name"] for p_ in f["node"]["sig"]["inputs"] if p_["t"] == "Arg" and p_["pat"]["t"] == "PIdent"]
    # an `if` whose body ends in a pointer move followed by the loop's backward branch, which is also the target of the if's forward branch
    prog = [I("Inp", 0), I("BrZ", 0, 5), I("Out", 0), I("BrZ", 1, 2), I("Mov", 2), I("BrNZ", 0, -3), I("Scan", 1, 2), I("Out", 0)]
    w = where(BCMOD, f["node"], "build_threaded_code")
    streams = {}
    for safe in (True, False):
        probs = []
        try:
            adj = []

            def emit(it, insts, ins, sf):
                insts.append(("op", ins, sf))
                return _UNIT

            def emit_limit(it, insts, cost):
                insts.append(("limit", cost))
                return _UNIT

            def emit_return(it, insts):
                insts.append(("return",))
                return _UNIT

            def adjust(it, sl, off):
                adj.append((sl[0] if sl else None, off))
                return _UNIT
            me = Rec(bytecode=Rec(insts=list(prog), temps=2, min_accessed=0, max_accessed=1))
            it = receval.RecInterp(ast, BCMOD, me, scripted={"emit": emit, "emit_limit": emit_limit, "emit_return": emit_return, "adjust_branch": adjust})
            env_ = _Env()
            if len(ps_) != 2:
                raise _Un("build_threaded_code(&self, limited, safe): unexpected parameters")
            env_.bind(ps_[0], False)
            env_.bind(ps_[1], safe)
            try:
                code = it.exec_block(f["node"]["body"], env_)
            except _Ret as r_:
                code = r_.value
            if not isinstance(code, list):
                raise _Un("no code vector is returned")
            ops = [x_ for x_ in code if x_[0] == "op"]
            if [x_[1] for x_ in ops] != prog or any(x_[1] is not y_ for x_, y_ in zip(ops, prog)):
                probs.append(f"the threaded code holds {[repr(x_[1]) for x_ in ops]}, the bytecode is {[repr(x_) for x_ in prog]}")
            elif code[-1] != ("return",) or len(code) != len(prog) + 1:
                probs.append(f"besides one op per instruction and the final return the stream holds {[x_ for x_ in code if x_[0] != 'op'][:-1]}")
            elif any(x_[2] is not safe for x_ in ops):
                probs.append("the emitter is not given the mode flag of this run")
            else:
                pos = {id(x_): i_ for i_, x_ in enumerate(code)}
                for i_, ins in enumerate(prog):
                    if ins.name.endswith(("::BrZ", "::BrNZ")):
                        hits = [off for first, off in adj if first is code[i_]]
                        if len(hits) != 1 or i_ + hits[0] != i_ + ins.fields[1]:
                            probs.append(f"branch {i_} ({ins!r}) is adjusted by {hits}, its target is instruction {i_ + ins.fields[1]}")
            streams[safe] = [(x_[0], x_[1]) if x_[0] == "op" else x_ for x_ in code]
        except (_Un, _Re, KeyError, TypeError, IndexError, AttributeError) as u_:
            probs.append(f"cannot be analysed (fail closed): {u_}")
        res.evaluations += 1
        res.check(not probs, rule, f"{BCMOD}|build_threaded_code|unlimited|safe={str(safe).lower()}", w, f"safe = {str(safe).lower()}: " + "; ".join(probs[:2]))


def run_io_nested(res, ast, rule="IO-DISCIPLINE"):
    """the IR interpreter's Loop / If arms on the scenario "the nested run was stopped by an I/O failure" (it returned None): the arm must hand the
    None on at once - no further nested run, no charge - with and without a budget.  (The same scenario is part of LIM-BACKEDGE under C07.)"""
    try:
        f = ast.fn(IRINT, "execute_block")
    except Missing as m:
        res.missing(rule, m)
        return
    arms = {}
    for m in walk_t(f["node"]["body"], "Match"):
        for a in m["arms"]:
            if a["pat"]["t"] == "PStruct":
                arms[a["pat"]["path"]["name"]] = a
    gens = [g["name"] for g in f["node"]["sig"]["generics"]["params"] if g["t"] == "ConstParam"]
    limn = gens[0] if gens else "LIMITED"
    ps_ = [p_["pat"]["name"] for p_ in f["node"]["sig"]["inputs"] if p_["t"] == "Arg" and p_["pat"]["t"] == "PIdent"]
    for vn in ("Instr::Loop", "Instr::If"):
        for lim in (True, False):
            key = f"{IRINT}|execute_block|{vn}|nested-none|{'limited' if lim else 'unlimited'}"
            if vn not in arms:
                res.bad(rule, key, where(IRINT, f["node"], "execute_block"), f"no arm for {vn}")
                continue
            a = arms[vn]
            binds = ps_ + [n_["name"] for n_ in walk_t(a["pat"], "PIdent")]
            it = ArmInterp(ast, IRINT, False, limn, lim, [True, True, True], [NONE, NONE], f["name"], zero_after=[False, False])
            env = Env()
            for n_ in binds:
                env.bind(n_, ("opaque", n_))
            res.evaluations += 1
            try:
                try:
                    it.eval(a["body"], env)
                    got = "goes on with the next instruction"
                except ReturnEx as r_:
                    v_ = r_.value
                    got = "returns None" if (isinstance(v_, Opt) and not v_.some) else f"returns {v_!r}"
                except ContinueEx:
                    got = "goes on with the next instruction"
                except Exhausted:
                    got = "budget underflow"
                ok = got == "returns None" and it.nested_calls == 1 and it.decs == 0
                msg = f"{got} after {it.nested_calls} nested run(s) and {it.decs} charge(s)"
            except (Unanalysable, Reached, BreakEx, KeyError, TypeError) as u_:
                ok, msg = False, f"cannot be analysed (fail closed): {u_}"
            res.check(ok, rule, key, where(IRINT, a, "execute_block"),
                      f"{vn} ({'limited' if lim else 'unlimited'}): a nested run that was stopped by an I/O failure must stop this run at once (return None); it {msg}")
