"""Front-end rules: the parser (C12), the in-place interpreter's command table (C04) and the
cell-type conversions/constants (C14, C04's wrap-around), all on the syntax tree.

PARSE-CALLERS  every parsing executor parses its unmodified `code` argument and propagates the error.
STACK-PAIR     in Program::parse the block stack and the position stack are pushed/popped together.
ERR-POS        error positions are character indices (chars().enumerate()), first unmatched `]`,
               innermost unclosed `[`.
COMMENT-INERT  non-command characters reach an empty default arm and nothing else looks at them.
CMD-TABLE      the eight commands have the canonical effect in the in-place interpreter and the same
               sign/operand in the parser (sibling agreement), evaluated abstractly.
CELL-*         conversions, constants and delegation of the four CellType impls.
"""
from common import *
from rusteval import *
from iolim import parents
import pm

IR = "src/ir.rs"
INPLACE = "src/exec/inplace.rs"
LIB = "src/lib.rs"
CMDS = "<>+-.,[]"


# ----------------------------------------------------------------------------- C12

def dispatch_matches(body):
    """byte matches of the in-place interpreter that are not nested inside an arm of another byte match: the command dispatch"""
    def is_byte(m):
        return any(a["pat"]["t"] == "PLit" and a["pat"]["lit"]["kind"] == "byte" for a in m["arms"])
    ms = [m for m in walk_t(body, "Match") if is_byte(m)]
    inner = set()
    for m in ms:
        for a in m["arms"]:
            for x in walk_t(a["body"], "Match"):
                if x is not m and is_byte(x):
                    inner.add(id(x))
    return [m for m in ms if id(m) not in inner]


def pat_bytes(p):
    """the set of byte values a literal / range / or-pattern matches, None when it is anything else"""
    def val(e):
        e = strip_paren(e)
        if e.get("t") != "Lit":
            return None
        l = e
        if l.get("kind") == "byte":
            return l["value"]
        if l.get("kind") == "int":
            return int(l["digits"])
        return None
    t = p["t"]
    if t == "PLit":
        v = val(p["lit"])
        return None if v is None else {v}
    if t == "PRange":
        lo = 0 if p["start"] is None else val(p["start"])
        hi = 255 if p["end"] is None else val(p["end"])
        if lo is None or hi is None:
            return None
        return set(range(lo, (hi + 1) if (p["closed"] or p["end"] is None) else hi))
    if t == "POr":
        out = set()
        for c in p["cases"]:
            b = pat_bytes(c)
            if b is None:
                return None
            out |= b
        return out
    return None


def inert_comment_arm(a, scrut):
    if a["guard"] is not None:
        return False
    bs = pat_bytes(a["pat"])
    if bs is None or bs & {ord(c) for c in CMDS}:
        return False
    b = strip_paren(a["body"])
    if b["t"] != "BlockExpr":
        return False
    st = b["block"]["stmts"]
    if not st:
        return True
    if len(st) != 1 or not bs <= set(range(0xC0, 0x100)) or scrut is None:
        return False
    e = st[0].get("expr") if st[0].get("t") in ("ExprStmt", "Semi", "Expr") else None
    if e is None:
        return False
    for pat in ("__v_pc += __v_c.leading_ones() as usize - 1", "__v_pc += (__v_c.leading_ones() - 1) as usize"):
        bd = pm.match_expr(e, pat, {"__v_c": scrut})
        if bd:
            return True
    return False


def assigns_to(node, name):
    out = []
    for n in walk(node):
        if n.get("t") == "Assign" and path_name(strip_paren(n["left"])) == name:
            out.append(n)
        if n.get("t") == "Binary" and n["op"].endswith("=") and n["op"] not in ("==", "!=", "<=", ">=") and path_name(strip_paren(n["left"])) == name:
            out.append(n)
    return out


def index_guards(ast, path, fn, res, rule, keyp):
    """Every `a[i]` in fn (a, i plain locals) must be dominated by a test `i < a.len()` that is still valid: no assignment to i
    between the test and the use, and no loop in between that changes i (a later iteration would use an unchecked index)."""
    import pm
    par = parents(fn)
    n = 0
    for ix in walk_t(fn["body"], "Index"):
        a, i = path_name(strip_paren(ix["expr"])), path_name(strip_paren(ix["index"]))
        w = where(path, ix, fn["name"])
        n += 1
        key = f"{keyp}|index|{n}"
        if a is None or i is None:
            r_ = strip_paren(ix["index"])
            if a is not None and r_["t"] == "Range":
                res.bad(rule, key, w, f"slice `{ast.src1(path, ix)}` is not analysed (a range that is out of bounds panics)")
            else:
                res.bad(rule, key, w, f"index expression `{ast.src1(path, ix)}` is not of the analysed form `local[local]` (an out-of-range index panics)")
            continue
        cur, ok, why = ix, False, f"`{a}[{i}]` is not inside a test `{i} < {a}.len()`"
        child = ix
        while id(cur) in par:
            pn, k = par[id(cur)]
            if pn["t"] == "Block":
                # earlier statements of this block must not change i
                idx_ = next((j for j, s_ in enumerate(pn["stmts"]) if s_ is cur), None)
                if idx_ is None:
                    idx_ = next((j for j, s_ in enumerate(pn["stmts"]) if any(x is child for x in walk(s_))), 0)
                if any(assigns_to(s_, i) for s_ in pn["stmts"][:idx_]):
                    why = f"`{i}` is changed between the test `{i} < {a}.len()` and the use `{a}[{i}]`"
                    break
            guard = None
            if pn["t"] == "While" and k == "body":
                guard = pn["cond"]
            if pn["t"] == "If" and k == "then":
                guard = pn["cond"]
            if guard is not None:
                conj = []
                g_ = strip_paren(guard)
                while g_["t"] == "Binary" and g_["op"] == "&&":
                    conj.append(strip_paren(g_["right"]))
                    g_ = strip_paren(g_["left"])
                conj.append(g_)
                if any(pm.match_expr(c_, "__v_i < __v_a.len()", {"__v_i": i, "__v_a": a}) or pm.match_expr(c_, "__v_a.len() > __v_i", {"__v_i": i, "__v_a": a}) for c_ in conj):
                    ok = True
                    break
            if pn["t"] in ("While", "ForLoop", "Loop") and k == "body" and assigns_to(pn["body"], i):
                why = f"`{a}[{i}]` is used inside a loop that changes `{i}` without re-testing `{i} < {a}.len()`"
                break
            if pn["t"] == "Closure":
                why = "index inside a closure is not analysed"
                break
            child = cur
            cur = pn
        res.check(ok, rule, key, w, f"{fn['name']}: {why}: a source text can make this index panic")
    return n


def run_parse_rules(res, ast):
    res.rule("PARSE-CALLERS", "IrInterpreter/BcInterpreter/BaseJitCompiler(/LlvmJitCompiler)::create call "
             "ir::Program::parse on the unmodified `code` argument and propagate its error with `?`", floor=3, what="executors")
    res.rule("STACK-PAIR", "in Program::parse the block stack and the bracket-position stack are pushed together only at "
             "`[` and popped together only at `]` after the emptiness test; acceptance is `stack.len() == 1` at the end",
             floor=6, what="stack obligations")
    res.rule("ERR-POS", "positions are character indices: the loop is chars().enumerate(), `[` pushes that index, "
             "LoopNotOpened reports it, LoopNotClosed reports the top of the position stack", floor=4, what="position obligations")
    res.rule("COMMENT-INERT", "parser and in-place interpreter dispatch on exactly the eight command characters; every "
             "other character (any non-ASCII byte included) reaches an empty default arm and is not looked at otherwise",
             floor=6, what="dispatch obligations")
    res.files.update([IR, INPLACE])
    # ---- PARSE-CALLERS
    for path, ty in (("src/exec/irint.rs", "IrInterpreter"), ("src/exec/bcint/mod.rs", "BcInterpreter"),
                     ("src/exec/basejit/mod.rs", "BaseJitCompiler"), ("src/exec/llvmjit.rs", "LlvmJitCompiler")):
        if not ast.has(path):
            continue
        res.files.add(path)
        fs = [f for f in ast.find_fns(path, "create") if "impl Executor" in f["container"] and ty in f["container"]]
        key = f"{path}|{ty}::create"
        if len(fs) != 1:
            res.bad("PARSE-CALLERS", key, path, f"{ty}::create: found {len(fs)} definitions")
            continue
        fn = fs[0]["node"]
        w = where(path, fn, f"{ty}::create")
        p0 = [p for p in fn["sig"]["inputs"] if p["t"] == "Arg"][0]["pat"].get("name")
        par = parents(fn)
        calls = [c for c in walk_t(fn["body"], "Call") if path_name(c["func"]) and path_name(c["func"]).endswith("Program::parse")]
        errs = []
        if len(calls) != 1:
            errs.append(f"{len(calls)} calls of Program::parse")
        else:
            c = calls[0]
            if len(c["args"]) != 1 or path_name(strip_paren(c["args"][0])) != p0:
                errs.append(f"parses `{ast.src1(path, c['args'][0])}` instead of the `{p0}` argument")
            if par[id(c)][0]["t"] != "Try":
                errs.append("the parse error is not propagated with `?`")
            rebinds = [l for l in walk_t(fn["body"], "Local") if any(n.get("name") == p0 for n in walk_t(l["pat"], "PIdent"))]
            if rebinds:
                errs.append(f"`{p0}` is re-bound before parsing")
        res.check(not errs, "PARSE-CALLERS", key, w, f"{ty}::create: " + "; ".join(errs))
    # ---- the parser
    try:
        pf = ast.fn(IR, "parse")
    except Missing as m:
        for r in ("STACK-PAIR", "ERR-POS", "COMMENT-INERT"):
            res.missing(r, m)
        pf = None
    if pf is not None:
        fn = pf["node"]
        w0 = where(IR, fn, "parse")
        body = fn["body"]
        loops = [l for l in walk_t(body, "ForLoop")]
        main = None
        cands = []
        for l in loops + [l for l in walk_t(body, "While", "Loop")]:
            for m in walk_t(l["body"], "Match"):
                nlit = sum(1 for a in m["arms"] if a["pat"]["t"] == "PLit" and a["pat"]["lit"]["kind"] == "char")
                if nlit >= 2 and l not in cands:
                    cands.append(l)
        # nested candidates: keep outermost only
        cands = [l for l in cands if not any(o is not l and any(x is l for x in walk(o["body"])) for o in cands)]
        if len(cands) == 1 and cands[0]["t"] == "ForLoop":
            main = cands[0]
        elif len(cands) > 1:
            res.bad("COMMENT-INERT", f"{IR}|parse|single-scan", w0, f"parse dispatches on characters in {len(cands)} separate loops; the source must be scanned by one loop")
        pname = [p for p in fn["sig"]["inputs"] if p["t"] == "Arg"][0]["pat"].get("name")
        if main is None:
            res.bad("ERR-POS", f"{IR}|parse|loop", w0, "parse is not a single `for (i, c) in program.chars().enumerate()` scan whose body dispatches on the character "
                    "(another loop shape can consume characters without dispatching them or lose the character index)")
        else:
            it = ast.src1(IR, main["expr"]).replace(" ", "")
            res.check(it == f"{pname}.chars().enumerate()", "ERR-POS", f"{IR}|parse|iterator", where(IR, main, "parse"),
                      f"the scan must be `{pname}.chars().enumerate()` (character index); found `{it}`")
            pat = main["pat"]
            ivar = cvar = None
            if pat["t"] == "PTuple" and len(pat["elems"]) == 2:
                ivar, cvar = pat["elems"][0].get("name"), pat["elems"][1].get("name")
            ms = [m for m in walk_t(main["body"], "Match") if path_name(strip_paren(m["expr"])) == cvar]
            if len(ms) != 1:
                res.bad("COMMENT-INERT", f"{IR}|parse|match", where(IR, main, "parse"), f"expected one `match {cvar}`, found {len(ms)}")
            else:
                m = ms[0]
                arms = {}
                default = None
                extra = []
                for a in m["arms"]:
                    p = a["pat"]
                    if p["t"] == "PLit" and p["lit"]["kind"] == "char" and a["guard"] is None:
                        arms[p["lit"]["value"]] = a
                    elif p["t"] == "POr" and a["guard"] is None and all(c_["t"] == "PLit" and c_["lit"].get("kind") == "char" for c_ in p["cases"]):
                        for c_ in p["cases"]:        # one arm shared by several command characters
                            arms[c_["lit"]["value"]] = a
                    elif p["t"] == "PWild" and a["guard"] is None:
                        default = a
                    else:
                        extra.append(a)
                res.check(sorted(arms) == sorted(CMDS) and not extra, "COMMENT-INERT", f"{IR}|parse|arms", where(IR, m, "parse"),
                          f"parse must dispatch on exactly the eight command characters; found {sorted(arms)} plus {len(extra)} other arm(s)")
                db = strip_paren(default["body"]) if default else None
                res.check(default is not None and db["t"] == "BlockExpr" and not db["block"]["stmts"], "COMMENT-INERT",
                          f"{IR}|parse|default", where(IR, default or m, "parse"), "the default arm of parse must be empty")
                # nothing else in the loop body looks at the character
                uses = [n for n in walk_t(main["body"], "PathExpr") if n["path"]["name"] == cvar]
                # looking at the character again inside an arm for command characters is harmless (a comment never gets there)
                in_cmd_arms = {id(n_) for a_ in arms.values() for n_ in walk_t(a_["body"], "PathExpr") if n_["path"]["name"] == cvar}
                uses = [n for n in uses if id(n) not in in_cmd_arms]
                res.check(len(uses) == 1, "COMMENT-INERT", f"{IR}|parse|char-uses", where(IR, main, "parse"),
                          f"the character is inspected {len(uses)} times outside the command arms; only the dispatching match may look at it")
                # statements before the match must not return/continue/break (they would skip dispatch for some characters)
                pre = []
                for s in main["body"]["stmts"]:
                    if any(x is m for x in walk(s)):
                        break
                    pre.append(s)
                early = [n for s in pre for n in walk_t(s, "Continue", "Break", "Return", "While", "Loop", "ForLoop")]
                res.check(not early, "COMMENT-INERT", f"{IR}|parse|pre-dispatch", where(IR, main, "parse"),
                          "control flow before the dispatching match can skip or consume characters")
                # ---- ERR-POS / STACK-PAIR inside the arms
                iuses = [n for n in walk_t(main["body"], "PathExpr") if n["path"]["name"] == ivar]
                okuse = True
                par = parents(fn)
                for u in iuses:
                    pn, k = par[id(u)]
                    # a field value inside a struct literal is a {"member","expr"} dict without "t"
                    if "t" not in pn:
                        if pn.get("member") == "position":
                            continue
                        okuse = False
                        continue
                    if pn["t"] == "MethodCall" and pn["method"] == "push" and path_name(pn["receiver"]) and len(pn["args"]) == 1:
                        continue
                    okuse = False
                res.check(okuse and len(iuses) == 2, "ERR-POS", f"{IR}|parse|index-uses", where(IR, main, "parse"),
                          f"the character index `{ivar}` must be used exactly for positions.push({ivar}) and the LoopNotOpened position; found {len(iuses)} uses")
                # names of the two stacks: `positions` is the vector the character index is pushed on, `stack` the
                # vector of blocks (initialised with one block holding a HashMap)
                posn, stkn = "positions", "stack"
                for mc in walk_t(main["body"], "MethodCall"):
                    if mc["method"] == "push" and len(mc["args"]) == 1 and path_name(strip_paren(mc["args"][0])) == ivar and path_name(mc["receiver"]):
                        posn = path_name(mc["receiver"])
                for l_ in body["stmts"]:
                    if l_["t"] == "Local" and l_["pat"]["t"] == "PIdent" and l_["init"] is not None and \
                            ast.src1(IR, l_["init"], 200).replace(" ", "").startswith("vec![(") and "HashMap::new()" in ast.src1(IR, l_["init"], 200):
                        stkn = l_["pat"]["name"]
                # stack discipline
                def calls_on(node, vec, meths):
                    return [x for x in walk_t(node, "MethodCall") if path_name(x["receiver"]) == vec and x["method"] in meths]
                mut = ("push", "pop", "clear", "truncate", "remove", "insert", "drain", "retain", "swap_remove", "extend", "append", "split_off")
                for vec in (stkn, posn):
                    allm = calls_on(body, vec, mut)
                    ino = calls_on(arms["["]["body"], vec, mut) if "[" in arms else []
                    inc = calls_on(arms["]"]["body"], vec, mut) if "]" in arms else []
                    tail = [x for x in allm if before(main, x)]
                    names_o = [x["method"] for x in ino]
                    names_c = [x["method"] for x in inc]
                    other = [x for x in allm if x not in ino and x not in inc and x not in tail]
                    good = names_o == ["push"] and names_c == ["pop"] and not other and \
                        ([x["method"] for x in tail] in ([], ["pop"]) if vec == stkn else not tail)
                    res.check(good, "STACK-PAIR", f"{IR}|parse|{vec}", w0,
                              f"`{vec}`: pushed {names_o} at `[`, {names_c} at `]`, {len(other)} other mutation(s) in the scan; "
                              "expected exactly one push at `[` and one pop at `]`")
                if "[" in arms and strip_paren(arms["["]["body"])["t"] == "BlockExpr":
                    st = strip_paren(arms["["]["body"])["block"]["stmts"]
                    top = all(s["t"] in ("ExprStmt", "Local") and not list(walk_t(s, "If", "Match", "Return")) for s in st)
                    res.check(top, "STACK-PAIR", f"{IR}|parse|open-unconditional", where(IR, arms["["], "parse"),
                              "the pushes at `[` must be unconditional")
                if "]" in arms and strip_paren(arms["]"]["body"])["t"] == "BlockExpr":
                    st = strip_paren(arms["]"]["body"])["block"]["stmts"]
                    first = st[0]["expr"] if st and st[0]["t"] == "ExprStmt" else None

                    def err_struct(block, kind):
                        """the single `return Err(Error { kind: ErrorKind::<kind>, position: P, .. })` of a block -> P node, else None"""
                        rets = [r["expr"] for r in walk_t(block, "Return") if r.get("expr") is not None]
                        st__ = block.get("stmts") or []
                        if not rets and st__ and st__[-1]["t"] == "ExprStmt" and not st__[-1]["semi"]:
                            rets = [st__[-1]["expr"]]       # the value of the block (guard clauses are read as if/else)
                        if len(rets) != 1:
                            return None
                        e_ = strip_paren(rets[0])
                        if not (e_["t"] == "Call" and path_name(e_["func"]) == "Err" and len(e_["args"]) == 1 and strip_paren(e_["args"][0])["t"] == "StructExpr"):
                            return None
                        fl = {x["member"]: x["expr"] for x in strip_paren(e_["args"][0])["fields"]}
                        if path_name(strip_paren(fl.get("kind", {}))) != "ErrorKind::" + kind or "position" not in fl:
                            return None
                        return fl["position"]
                    okf = False
                    pop_in_test = False
                    if first is not None and first["t"] == "If" and first["else"] is None:
                        c_ = strip_paren(first["cond"])
                        pos_ = err_struct(first["then"], "LoopNotOpened")
                        empty_test = pm.match_expr(c_, f"{posn}.is_empty()") is not None
                        pop_in_test = any(pm.match_expr(c_, pt) is not None for pt in (f"{posn}.pop().is_none()", f"!{posn}.pop().is_some()"))
                        okf = (empty_test or pop_in_test) and pos_ is not None and path_name(strip_paren(pos_)) == ivar
                    elif st and st[0]["t"] == "Local" and st[0].get("else") is not None and st[0].get("init") is not None:
                        # let Some(_) = positions.pop() else { return Err(..) };
                        pop_in_test = pm.match_expr(strip_paren(st[0]["init"]), f"{posn}.pop()") is not None and st[0]["pat"]["t"] == "PTupleStruct" and st[0]["pat"]["path"]["name"] == "Some"
                        eb = st[0]["else"]
                        pos_ = err_struct(eb, "LoopNotOpened")
                        okf = pop_in_test and pos_ is not None and path_name(strip_paren(pos_)) == ivar
                        first = st[0]
                    res.check(okf, "ERR-POS", f"{IR}|parse|not-opened", where(IR, arms["]"], "parse"),
                              f"`]` must first test whether the position stack is empty (is_empty(), or pop() giving None) and return LoopNotOpened at position `{ivar}`")
                    pops = [x for x in walk_t(arms["]"]["body"], "MethodCall") if x["method"] == "pop" and path_name(x["receiver"]) in (posn, stkn)]
                    later = [x for x in pops if first is not None and before(first, x)]
                    intest = [x for x in pops if first is not None and inside(x, first)]
                    okp = first is not None and len(pops) == 2 and ((len(later) == 2 and not pop_in_test) or
                                                                    (pop_in_test and len(later) == 1 and path_name(later[0]["receiver"]) == stkn and len(intest) == 1 and path_name(intest[0]["receiver"]) == posn))
                    res.check(okp, "STACK-PAIR", f"{IR}|parse|close-after-test", where(IR, arms["]"], "parse"), "the block stack must be popped only after the emptiness test, and each stack exactly once")
            # tail: LoopNotClosed at the innermost unclosed `[` (the top of the position stack)
            posn_ = posn if main is not None and "posn" in dir() else "positions"
            stkn_ = stkn if main is not None and "stkn" in dir() else "stack"
            tail_ifs = [s["expr"] for s in body["stmts"] if s["t"] == "ExprStmt" and s["expr"]["t"] == "If" and before(main, s)]
            okt, why_t = False, "no test for unclosed loops after the scan"
            top_exprs = (f"*{posn_}.last().unwrap()", f"{posn_}[{posn_}.len() - 1]", f"{posn_}.pop().unwrap()", f"{posn_}.last().copied().unwrap()", f"*{posn_}.last().expect(__e_m)")
            for i in tail_ifs:
                pos_ = err_struct(i["then"], "LoopNotClosed") if "err_struct" in dir() else None
                if pos_ is None:
                    continue
                c_ = strip_paren(i["cond"])
                bound = None
                if c_["t"] == "Let":
                    src_ok = any(pm.match_expr(strip_paren(c_["expr"]), pt) is not None for pt in (f"{posn_}.last()", f"{posn_}.pop()", f"{posn_}.last().copied()", f"{posn_}.last().cloned()"))
                    names_ = [n_["name"] for n_ in walk_t(c_["pat"], "PIdent")]
                    if src_ok and c_["pat"]["t"] == "PTupleStruct" and c_["pat"]["path"]["name"] == "Some" and len(names_) == 1:
                        bound = names_[0]
                    cond_ok = bound is not None
                    if not src_ok:
                        why_t = f"the reported position is taken from `{ast.src1(IR, c_['expr'])}`, not from the top of the position stack (the innermost unclosed `[`)"
                else:
                    cond_ok = any(pm.match_expr(c_, pt) is not None for pt in (f"{stkn_}.len() != 1", f"{stkn_}.len() > 1", f"!{posn_}.is_empty()", f"{posn_}.len() != 0", f"{posn_}.len() > 0"))
                # a local that names the position just before the error is built
                if path_name(strip_paren(pos_)) is not None:
                    defs_ = [l_ for l_ in walk_t(i["then"], "Local") if l_["pat"]["t"] == "PIdent" and not l_["pat"]["mut"] and l_.get("init") is not None
                             and l_["pat"]["name"] == path_name(strip_paren(pos_))]
                    if len(defs_) == 1:
                        pos_ = defs_[0]["init"]
                p_ = strip_paren(pos_)
                while p_["t"] == "Unary" and p_["op"] == "*":
                    p_ = strip_paren(p_["expr"])
                val_ok = (bound is not None and path_name(p_) == bound) or any(pm.match_expr(strip_paren(pos_), pt) is not None for pt in top_exprs)
                if cond_ok and val_ok:
                    okt = True
                elif cond_ok:
                    why_t = f"LoopNotClosed is reported at `{ast.src1(IR, pos_)}`, which is not the top of the position stack"
            res.check(okt, "ERR-POS", f"{IR}|parse|not-closed", w0,
                      "after the scan an unclosed loop must be reported as LoopNotClosed at the top of the position stack (innermost unclosed `[`): " + why_t)
            res.check(okt, "STACK-PAIR", f"{IR}|parse|acceptance", w0, "acceptance must be decided by the stack depth after the scan")
            inits = {l["pat"].get("name"): ast.src1(IR, l["init"], 200).replace(" ", "") for l in body["stmts"] if l["t"] == "Local" and l["init"] is not None}
            posn_ = posn if "posn" in dir() else "positions"
            stkn_ = stkn if "stkn" in dir() else "stack"
            res.check(inits.get(posn_) in ("vec![]", "Vec::new()") and inits.get(stkn_, "").startswith("vec![(") and inits[stkn_].count("HashMap::new()") == 1,
                      "STACK-PAIR", f"{IR}|parse|init", w0, "stack must start with exactly one block and positions empty")
        # non-recursion (explicit stacks)
        rec = [c for c in walk_t(body, "Call") if path_name(c["func"]) and path_name(c["func"]).split("::")[-1] == "parse"]
        res.check(not rec, "STACK-PAIR", f"{IR}|parse|nonrec", w0, "parse must not recurse (nesting depth is bounded by the heap, not the call stack)")
    # ---- the command line names the two bracket errors correctly (reader of the ErrorKind the parser writes)
    HP = "src/bin/hpbf.rs"
    if ast.has(HP):
        res.files.add(HP)
        res.rule("ERR-MSG", "the command line's error reporter prints, for each bracket error kind, a message that names that kind (not the other one)",
                 floor=2, what="error kinds")
        reps = [f_ for f_ in ast.find_fns(HP) if not f_["container"] and len(f_["node"]["sig"]["inputs"]) == 1 and f_["node"]["sig"]["inputs"][0]["t"] == "Arg"
                and f_["node"]["sig"]["inputs"][0]["ty"]["s"].replace(" ", "") in ("Error", "hpbf::Error")]
        if len(reps) != 1:
            res.missing("ERR-MSG", Missing(f"{HP}: the error-reporting function `fn(Error)`"))
        else:
            rp = reps[0]["node"]
            seen = {}
            for m_ in walk_t(rp["body"], "Match"):
                for a_ in m_["arms"]:
                    kinds = [n_["path"]["name"].split("::")[-1] for n_ in walk_t(a_["pat"], "PPath")] + [n_["name"] for n_ in walk_t(a_["pat"], "PIdent")]
                    lits = " ".join(x["value"] for mc in walk_t(a_["body"], "Macro", "MacroExpr") for x in walk(mc) if x.get("t") == "Lit" and x.get("kind") == "str")
                    for k_ in kinds:
                        if k_ in ("LoopNotClosed", "LoopNotOpened"):
                            seen[k_] = (a_, lits.lower())
            for k_, good_, bad_ in (("LoopNotClosed", "closed", "opened"), ("LoopNotOpened", "opened", "closed")):
                if k_ not in seen:
                    res.bad("ERR-MSG", f"{HP}|{reps[0]['name']}|{k_}", where(HP, rp, reps[0]["name"]), f"no arm reports ErrorKind::{k_}")
                    continue
                a_, txt = seen[k_]
                res.check(good_ in txt and bad_ not in txt, "ERR-MSG", f"{HP}|reporter|{k_}", where(HP, a_, reps[0]["name"]),
                          f"ErrorKind::{k_} is reported as \"{txt.strip()[:70]}\": the message must say that the loop is not {good_}")
    # ---- in-place dispatch
    try:
        f = ast.fn(INPLACE, "execute_in", contains="InplaceInterpreter")
        fn = f["node"]
        body = fn["body"]
        inits = {l["pat"].get("name"): ast.src1(INPLACE, l["init"]).replace(" ", "") for l in walk_t(body, "Local") if l["init"] is not None and l["pat"]["t"] == "PIdent"}
        src_bytes = [k for k, v in inits.items() if v == "self.code.as_bytes()"]
        res.check(len(src_bytes) == 1, "COMMENT-INERT", f"{INPLACE}|execute_in|bytes", where(INPLACE, fn, "execute_in"),
                  "the in-place interpreter must scan `self.code.as_bytes()` (every byte of a multi-byte character is >= 0x80 and cannot alias a command)")
        ms = dispatch_matches(body)
        if len(ms) != 1:
            res.bad("COMMENT-INERT", f"{INPLACE}|execute_in|match", where(INPLACE, fn, "execute_in"), f"expected one byte dispatch, found {len(ms)}")
        else:
            m = ms[0]
            lits = sorted(chr(a["pat"]["lit"]["value"]) for a in m["arms"] if a["pat"]["t"] == "PLit" and a["guard"] is None)
            extra = [a for a in m["arms"] if not (a["pat"]["t"] in ("PLit", "PWild") and a["guard"] is None)]
            default = [a for a in m["arms"] if a["pat"]["t"] == "PWild"]
            # further arms are comment arms when they cannot take a command byte and do nothing -- or skip exactly the
            # continuation bytes of the UTF-8 sequence their lead byte starts (the source is a `str`: the bytes skipped
            # are 0x80..=0xBF, never a command, and lie inside the text)
            sc0 = path_name(strip_paren(m["expr"]))
            extra = [a for a in extra if not inert_comment_arm(a, sc0)]
            res.check(lits == sorted(CMDS) and not extra, "COMMENT-INERT", f"{INPLACE}|execute_in|arms", where(INPLACE, m, "execute_in"),
                      f"in-place dispatch must have exactly the eight command bytes; found {lits} plus {len(extra)} other arm(s) that may take a command byte or have an effect")
            db = strip_paren(default[0]["body"]) if default else None
            res.check(bool(default) and db["t"] == "BlockExpr" and not db["block"]["stmts"], "COMMENT-INERT",
                      f"{INPLACE}|execute_in|default", where(INPLACE, m, "execute_in"), "the default arm must be empty")
            sc = strip_paren(m["expr"])
            scn = path_name(sc)
            pcs_ = [b_["__v_pc"] for b_ in (pm.match_expr(l_["cond"], "__v_pc < __v_b.len()", {"__v_b": src_bytes[0]} if src_bytes else {}) for l_ in walk_t(body, "While")) if b_]
            okb = scn is not None and src_bytes and pcs_ and inits.get(scn) == f"{src_bytes[0]}[{pcs_[0]}]"
            res.check(okb, "COMMENT-INERT", f"{INPLACE}|execute_in|scrutinee", where(INPLACE, m, "execute_in"),
                      f"the dispatched value must be the raw byte `{src_bytes[0] if src_bytes else 'code_bytes'}[pc]` (no cast or decoding); found `{inits.get(scn)}`")
        # positions are byte offsets everywhere in this file: a character iteration numbers positions differently after a multi-byte comment
        chars_ = [(fr["name"], m_) for fr in ast.find_fns(INPLACE) if not is_test_item(fr) and fr["node"].get("body")
                  for m_ in walk_t(fr["node"]["body"], "MethodCall") if m_["method"] in ("chars", "char_indices")]
        res.check(not chars_, "COMMENT-INERT", f"{INPLACE}|bytes-only", where(INPLACE, chars_[0][1], chars_[0][0]) if chars_ else INPLACE,
                  "the in-place interpreter addresses its source by byte offset (pc, the loop stack, error positions); "
                  f"`{chars_[0][0] if chars_ else ''}` iterates characters, whose indices differ from byte offsets as soon as a comment contains a multi-byte character")
        # no source text can make the interpreter panic: indices are tested, no unwrap/expect/panicking macro
        res.rule("NO-PANIC", "in the in-place interpreter every index `bytes[i]` is dominated by a still-valid test `i < bytes.len()`, and "
                 "there is no unwrap/expect/panicking macro: no source string can make it panic", floor=2, what="indices and calls")
        index_guards(ast, INPLACE, fn, res, "NO-PANIC", f"{INPLACE}|execute_in")
        pan = [m_["method"] for m_ in walk_t(body, "MethodCall") if m_["method"] in ("unwrap", "expect", "unwrap_unchecked")] + \
            [m_["mac"]["name"] for m_ in walk_t(body, "MacroExpr") if m_["mac"]["name"] in ("panic", "unreachable", "unimplemented", "todo", "assert", "assert_eq")]
        res.check(not pan, "NO-PANIC", f"{INPLACE}|execute_in|panicking", where(INPLACE, fn, "execute_in"), f"execute_in can panic through {pan}")
        # helpers of the interpreter that stayed separate functions are held to the same rule
        for fr in ast.find_fns(INPLACE):
            if is_test_item(fr) or fr["node"] is fn or not fr["node"].get("body") or fr["name"] in ("create", "execute", "execute_limited", "execute_unsafe"):
                continue
            if list(walk_t(fr["node"]["body"], "Index")):
                index_guards(ast, INPLACE, fr["node"], res, "NO-PANIC", f"{INPLACE}|{fr['name']}")
            pan2 = [m_["method"] for m_ in walk_t(fr["node"]["body"], "MethodCall") if m_["method"] in ("unwrap", "expect", "unwrap_unchecked")] + \
                [m_["mac"]["name"] for m_ in walk_t(fr["node"]["body"], "MacroExpr") if m_["mac"]["name"] in ("panic", "unreachable", "unimplemented", "todo", "assert", "assert_eq")]
            if pan2:
                res.bad("NO-PANIC", f"{INPLACE}|{fr['name']}|panicking", where(INPLACE, fr["node"], fr["name"]), f"{fr['name']} can panic through {pan2}")
        rec = [c for c in walk_t(body, "MethodCall") if c["method"] == "execute_in"]
        res.check(not rec, "STACK-PAIR", f"{INPLACE}|execute_in|nonrec", where(INPLACE, fn, "execute_in"), "execute_in must not recurse")
    except Missing as mm:
        res.missing("COMMENT-INERT", mm)


# ----------------------------------------------------------------------------- C04 CMD-TABLE

class MemA:
    """Abstract tape: records moves, reads of the current cell, writes."""


class CmdInterp(Interp):
    cxt_name = "cxt"

    def __init__(self):
        super().__init__()
        self.ev = []

    def eval(self, e, env):
        if e["t"] == "PathExpr" and e["path"]["name"] == self.cxt_name:
            return "cxt"
        if e["t"] == "PathExpr" and e["path"]["name"] == "self":
            return "self"
        return super().eval(e, env)

    def field(self, base, member, node):
        if base == "cxt" and member == "memory":
            return "mem"
        if base == "cxt" and member == "budget":
            return "budget"
        raise Unanalysable(f"field {member}")

    def path_value(self, name, node):
        if name == "C::ONE":
            return Poly.const(1)
        if name == "C::NEG_ONE":
            return Poly.const(-1)
        if name == "C::ZERO":
            return Poly.const(0)
        raise Unanalysable(f"path {name}")

    def call(self, name, targs, args, node):
        if name == "C::from_u8":
            return ("from_u8", args[0])
        raise Unanalysable(f"call {name}")

    def method(self, recv, name, targs, args, node):
        if recv == "mem":
            if name == "mov":
                self.ev.append(("mov", args[0]))
                return UNIT
            if name == "read":
                if args[0] != 0:
                    raise Unanalysable("read of a cell other than the current one")
                return Poly.var("cell")
            if name == "write":
                self.ev.append(("write", args[0], args[1]))
                return UNIT
        if recv == "cxt":
            if name == "output":
                self.ev.append(("output", args[0]))
                return Some(UNIT) if self.io_ok else NONE
            if name == "input":
                self.ev.append(("input",))
                return Some("byte") if self.io_ok else NONE
        if isinstance(recv, Poly):
            if name == "wrapping_add" and isinstance(args[0], Poly):
                return recv + args[0]
            if name == "wrapping_neg":
                return -recv
            if name == "into_u8":
                return ("into_u8", recv)
        raise Unanalysable(f".{name}() on {recv!r}")

    def equal(self, a, b, node):
        if isinstance(a, Poly) and isinstance(b, Poly):
            if a == Poly.var("cell") and b == Poly.const(0):
                return self.cell_zero
        return super().equal(a, b, node)


def run_cmd_table(res, ast):
    res.rule("CMD-TABLE", "in the in-place interpreter `<`/`>` move by -1/+1, `+`/`-` write cell +/- 1 (wrapping), `.` outputs "
             "the low byte of the current cell, `,` stores from_u8(input) in the current cell, `[`/`]` test the current cell "
             "against zero with opposite polarity; the parser maps the same characters to the same signs and operands",
             floor=14, what="command arms")
    res.files.update([INPLACE, IR])
    try:
        f = ast.fn(INPLACE, "execute_in", contains="InplaceInterpreter")
    except Missing as m:
        res.missing("CMD-TABLE", m)
        return
    ms = dispatch_matches(f["node"]["body"])
    if len(ms) != 1:
        res.bad("CMD-TABLE", f"{INPLACE}|execute_in|match", where(INPLACE, f["node"], "execute_in"), "byte dispatch not found")
        return
    arms = {chr(a["pat"]["lit"]["value"]): a for a in ms[0]["arms"] if a["pat"]["t"] == "PLit"}
    # the context parameter, by position (the only non-receiver parameter of execute_in)
    args_ = [p_["pat"]["name"] for p_ in f["node"]["sig"]["inputs"] if p_["t"] == "Arg" and p_["pat"]["t"] == "PIdent"]
    CmdInterp.cxt_name = args_[0] if len(args_) == 1 else "cxt"
    cell = Poly.var("cell")
    want = {
        "<": [("mov", -1)], ">": [("mov", 1)],
        "+": [("write", 0, cell + Poly.const(1))], "-": [("write", 0, cell - Poly.const(1))],
        ".": [("output", ("into_u8", cell))],
        ",": [("input",), ("write", 0, ("from_u8", "byte"))],
    }
    for ch, exp in want.items():
        key = f"{INPLACE}|execute_in|cmd|{ch}"
        if ch not in arms:
            res.bad("CMD-TABLE", key, INPLACE, f"no arm for `{ch}`")
            continue
        w = where(INPLACE, arms[ch], "execute_in")
        it = CmdInterp()
        it.io_ok = True
        it.cell_zero = False
        env = Env()
        try:
            it.eval(arms[ch]["body"], env)
            got = it.ev
            res.evaluations += 1
            res.check(got == exp, "CMD-TABLE", key, w, f"`{ch}` has effect {got}, canonical Brainfuck requires {exp}")
            res.sample({"rule": "CMD-TABLE", "cmd": ch, "effect": repr(got)})
        except ReturnEx:
            res.bad("CMD-TABLE", key, w, f"`{ch}` returns on the success path")
        except (Unanalysable, Reached) as u:
            res.bad("CMD-TABLE", key, w, f"`{ch}` arm cannot be analysed (fail closed): {u}")
        if ch in ".,":
            it = CmdInterp()
            it.io_ok = False
            it.cell_zero = False
            try:
                it.eval(arms[ch]["body"], Env())
                res.bad("CMD-TABLE", key + "|fail", w, f"`{ch}` continues after an I/O failure")
            except ReturnEx:
                good = not any(e[0] == "write" for e in it.ev)
                res.check(good, "CMD-TABLE", key + "|fail", w, f"`{ch}` writes the tape on the I/O failure path")
            except (Unanalysable, Reached) as u:
                res.bad("CMD-TABLE", key + "|fail", w, f"cannot be analysed: {u}")
    # brackets: polarity of the zero test
    import pm
    for ch, op in (("[", "=="), ("]", "!=")):
        key = f"{INPLACE}|execute_in|cmd|{ch}"
        if ch not in arms:
            res.bad("CMD-TABLE", key, INPLACE, f"no arm for `{ch}`")
            continue
        ifs = [pm.canon(i) for i in walk_t(arms[ch]["body"], "If") if pm.find_expr(i["cond"], "__v_c.memory.read(0)")]
        # after canonicalisation an if/else tests `== ZERO`; an else-less `if x != ZERO {..}` stays as written
        want_ops = ("==",) if ch == "[" else ("!=", "==")
        okc = len(ifs) == 1 and any(pm.match_expr(ifs[0]["cond"], "__v_c.memory.read(0) " + o_ + " C::ZERO") is not None for o_ in want_ops)
        if okc and ch == "]" and pm.match_expr(ifs[0]["cond"], "__v_c.memory.read(0) == C::ZERO") is not None:
            # `if cell == 0 {} else { jump back }`: read it as the else-less form
            els_ = ifs[0].get("else")
            ifs = [{**ifs[0], "then": els_["block"] if els_ and els_.get("t") == "BlockExpr" else {"t": "Block", "stmts": [], "sp": ifs[0]["sp"]}, "else": None}]
        extra = ""
        if okc and ch == "[":
            e = ifs[0]["else"]
            okc = e is not None and any(m["method"] == "push" for m in walk_t(e, "MethodCall")) and \
                not any(m["method"] == "push" for m in walk_t(ifs[0]["then"], "MethodCall"))
            extra = " (zero must skip the loop, non-zero must enter it)"
        if okc and ch == "]":
            okc = bool([a_ for a_ in walk_t(ifs[0]["then"], "Assign") if path_name(a_["left"])])
            extra = " (non-zero must jump back)"
        res.check(okc, "CMD-TABLE", key, where(INPLACE, arms[ch], "execute_in"),
                  f"`{ch}` must test `cxt.memory.read(0) {op} C::ZERO`{extra}; found {[ast.src1(INPLACE, i['cond']) for i in ifs]}")
    # sibling: the parser
    try:
        pf = ast.fn(IR, "parse")
        pm = [m for m in walk_t(pf["node"]["body"], "Match") if any(a["pat"]["t"] == "PLit" and a["pat"]["lit"]["kind"] == "char" for a in m["arms"])]
        disp_ = pm[0]
        cvar = path_name(strip_paren(disp_["expr"]))
        import pm

        def fold_char_tests(n_, ch_):
            """an arm shared by several characters (`'+' | '-' => ..`) specialised to one of them: tests of the character are decided"""
            if isinstance(n_, list):
                return [fold_char_tests(x_, ch_) for x_ in n_]
            if not isinstance(n_, dict):
                return n_
            n_ = {k_: (fold_char_tests(v_, ch_) if isinstance(v_, (dict, list)) else v_) for k_, v_ in n_.items()}
            if n_.get("t") == "If" and n_.get("else") is not None and n_["else"].get("t") == "BlockExpr":
                c_ = strip_paren(n_["cond"])
                if c_["t"] == "Binary" and c_["op"] in ("==", "!="):
                    for a_, b_ in ((c_["left"], c_["right"]), (c_["right"], c_["left"])):
                        a_, b_ = strip_paren(a_), strip_paren(b_)
                        while a_["t"] == "Unary" and a_["op"] == "*":
                            a_ = strip_paren(a_["expr"])
                        if path_name(a_) == cvar and b_["t"] == "Lit" and b_.get("kind") == "char":
                            truth = (b_["value"] == ch_) == (c_["op"] == "==")
                            blk_ = n_["then"] if truth else n_["else"]["block"]
                            st_ = blk_["stmts"]
                            if len(st_) == 1 and st_[0]["t"] == "ExprStmt" and not st_[0]["semi"]:
                                return st_[0]["expr"]
                            return {"t": "BlockExpr", "sp": n_["sp"], "label": None, "block": blk_}
            return n_
        parms = {}
        for a in disp_["arms"]:
            if a["pat"]["t"] == "PLit" and a["pat"]["lit"].get("kind") == "char":
                parms[a["pat"]["lit"]["value"]] = a
            elif a["pat"]["t"] == "POr" and all(c_["t"] == "PLit" and c_["lit"].get("kind") == "char" for c_ in a["pat"]["cases"]):
                for c_ in a["pat"]["cases"]:
                    spec = fold_char_tests(a["body"], c_["lit"]["value"])
                    if strip_paren(spec)["t"] == "BlockExpr":
                        b_ = strip_paren(spec)
                        spec = {**b_, "block": {**b_["block"], "stmts": pm.normalize_stmts(b_["block"]["stmts"], light=True)}}
                    parms[c_["lit"]["value"]] = {**a, "body": spec}
        for ch, op in ((">", "+="), ("<", "-=")):
            ok = pm.match_expr(parms[ch]["body"], "{ *__v_shift " + op + " 1; }") is not None
            res.check(ok, "CMD-TABLE", f"{IR}|parse|cmd|{ch}", where(IR, parms[ch], "parse"),
                      f"parser: `{ch}` must be `*shift {op} 1`; found `{ast.src1(IR, parms[ch]['body'])}`")
        for ch, const in (("+", "C::ONE"), ("-", "C::NEG_ONE")):
            ok = pm.match_expr(parms[ch]["body"], "{ let __v_val = __v_buff.entry(*__v_shift).or_insert(C::ZERO); *__v_val = __v_val.wrapping_add(" + const + "); }") is not None
            res.check(ok, "CMD-TABLE", f"{IR}|parse|cmd|{ch}", where(IR, parms[ch], "parse"),
                      f"parser: `{ch}` must add {const} to the pending value of cell `shift`; found `{ast.src1(IR, parms[ch]['body'], 200)}`")
        ok = pm.match_expr(parms["."]["body"], "{ let __v_val = __v_buff.entry(*__v_shift).or_insert(C::ZERO); if *__v_val != C::ZERO { __v_insts.push(Instr::add(*__v_shift, *__v_val)); "
                           "*__v_val = C::ZERO; } __v_insts.push(Instr::Output { src: *__v_shift }); }") is not None
        res.check(ok, "CMD-TABLE", f"{IR}|parse|cmd|.", where(IR, parms["."], "parse"),
                  "parser: `.` must flush the pending add of cell `shift` and then emit Output { src: shift }")
        ok = pm.match_expr(parms[","]["body"], "{ __v_insts.push(Instr::Input { dst: *__v_shift }); __v_buff.insert(*__v_shift, C::ZERO); }") is not None
        res.check(ok, "CMD-TABLE", f"{IR}|parse|cmd|,", where(IR, parms[","], "parse"),
                  "parser: `,` must emit Input { dst: shift } and forget the pending add of that cell")
    except (Missing, KeyError, IndexError) as m:
        res.missing("CMD-TABLE", Missing(f"parser command arms: {m}"))


# ----------------------------------------------------------------------------- C14 CELL-*

WIDTH = {"u8": 8, "u16": 16, "u32": 32, "u64": 64}


def cast_chain(e):
    """`self as i8 as i64` -> ('self', ['i8', 'i64']);  `val as u8` -> ('val', ['u8'])"""
    e = strip_paren(e)
    ch = []
    while e["t"] == "Cast":
        ch.append(e["ty"]["s"])
        e = strip_paren(e["expr"])
    ch.reverse()
    return (path_name(e) if e["t"] == "PathExpr" else None), ch, e


def single_expr(fn):
    st = fn["body"]["stmts"]
    if len(st) == 1 and st[0]["t"] == "ExprStmt" and not st[0]["semi"]:
        return st[0]["expr"]
    return None


def run_cell_rules(res, ast, rules=("CELL-CONSTS", "CELL-CASTS", "CELL-DELEGATE", "CELL-SIBLINGS", "WRAP-BY-TYPE")):
    res.files.add(LIB)
    if "CELL-CONSTS" in rules:
        res.rule("CELL-CONSTS", "BITS = width of the implementing type, ZERO = 0, ONE = 1, NEG_ONE = MAX, for all four impls", floor=16, what="constants")
    if "CELL-CASTS" in rules:
        res.rule("CELL-CASTS", "into_u64 zero-extends with one cast, into_i64 sign-extends through the signed type of the same "
                 "width, from_u64 truncates with one cast; from_u8/into_u8/from_i16/try_into_i16 compose exactly these", floor=16, what="conversions")
    if "CELL-DELEGATE" in rules:
        res.rule("CELL-DELEGATE", "wrapping_add/mul/neg/trailing_zeros delegate to the primitive method of the same name on the "
                 "same operands, bitand is `&`, wrapping_shr/shl are checked_sh{r,l}(by).unwrap_or(0)", floor=28, what="delegations")
    if "CELL-SIBLINGS" in rules:
        res.rule("CELL-SIBLINGS", "the four impl blocks are identical after substituting the width tokens", floor=3, what="impl pairs")
    if "WRAP-BY-TYPE" in rules:
        res.rule("WRAP-BY-TYPE", "CellType has no Add/Sub/Mul/Neg/Shl/Shr supertrait, so generic code cannot apply panicking "
                 "arithmetic to cells", floor=1, what="trait bounds")
    impls = {}
    for it in ast.items(LIB, "Impl"):
        if it["trait"] and it["trait"]["name"] == "CellType" and it["self_ty"]["s"] in WIDTH:
            impls[it["self_ty"]["s"]] = it
    missing = [t for t in WIDTH if t not in impls]
    if missing:
        for r in rules:
            res.missing(r, Missing(f"impl CellType for {missing}"))
        return
    for ty, im in impls.items():
        w = WIDTH[ty]
        items = {x["name"]: x for x in im["items"]}
        sty = f"i{w}"
        if "CELL-CONSTS" in rules:
            exp = {"BITS": str(w), "ZERO": "0", "ONE": "1", "NEG_ONE": f"{ty}::MAX"}
            for c, want in exp.items():
                got = ast.src1(LIB, items[c]["expr"]).replace(" ", "") if c in items and items[c]["t"] == "Const" else None
                alt = {f"{ty}::MAX": [f"{ty}::MAX", f"Self::MAX", f"!0", str(2**w - 1)]}.get(want, [want])
                res.check(got in alt, "CELL-CONSTS", f"{LIB}|impl CellType for {ty}|{c}", where(LIB, items.get(c, im), f"<{ty} as CellType>::{c}"),
                          f"<{ty} as CellType>::{c} = {got}, must be {want}")
        if "CELL-CASTS" in rules:
            def chk(name, want_base, want_chain, what):
                key = f"{LIB}|impl CellType for {ty}|{name}"
                f = items.get(name)
                if f is None or f["t"] != "Fn":
                    res.bad("CELL-CASTS", key, where(LIB, im, f"impl CellType for {ty}"), f"{name} missing")
                    return
                e = single_expr(f)
                pn = [p["pat"]["name"] for p in f["sig"]["inputs"] if p["t"] == "Arg"]
                base_name = "self" if want_base == "self" else (pn[0] if pn else None)
                if e is None:
                    res.bad("CELL-CASTS", key, where(LIB, f, name), f"{name}: body is not a single cast expression (fail closed)")
                    return
                b, ch, _ = cast_chain(e)
                # identity on u64: `self` / `val`
                ok = b == base_name and ch in want_chain
                res.check(ok, "CELL-CASTS", key, where(LIB, f, f"<{ty} as CellType>::{name}"),
                          f"<{ty}>::{name} is `{ast.src1(LIB, e)}`; {what}")
            chk("into_u64", "self", [["u64"]] + ([[]] if ty == "u64" else []), f"must zero-extend with a single `as u64`")
            chk("from_u64", "val", [[ty]] + ([[]] if ty == "u64" else []), f"must truncate with a single `as {ty}`")
            chk("into_i64", "self", [[sty, "i64"]] + ([["i64"]] if ty == "u64" else []),
                f"must sign-extend through the signed type of the same width (`self as {sty} as i64`)")
        if "CELL-DELEGATE" in rules:
            for name, args in (("wrapping_add", 1), ("wrapping_mul", 1), ("wrapping_neg", 0), ("trailing_zeros", 0)):
                key = f"{LIB}|impl CellType for {ty}|{name}"
                f = items.get(name)
                e = single_expr(f) if f and f["t"] == "Fn" else None
                ok = False
                if e is not None and e["t"] == "MethodCall" and e["method"] == name and path_name(e["receiver"]) == "self":
                    pn = [p["pat"]["name"] for p in f["sig"]["inputs"] if p["t"] == "Arg"]
                    ok = [path_name(a) for a in e["args"]] == pn and len(pn) == args
                res.check(ok, "CELL-DELEGATE", key, where(LIB, f or im, f"<{ty} as CellType>::{name}"),
                          f"<{ty}>::{name} must be `self.{name}(..)` on its own parameters (the inherent primitive method); found `{ast.src1(LIB, e) if e else None}`")
            f = items.get("bitand")
            e = single_expr(f) if f else None
            bp_ = [p_["pat"]["name"] for p_ in f["sig"]["inputs"] if p_["t"] == "Arg"] if f else []
            res.check(e is not None and e["t"] == "Binary" and e["op"] == "&" and path_name(e["left"]) == "self" and bp_ and path_name(e["right"]) == bp_[0],
                      "CELL-DELEGATE", f"{LIB}|impl CellType for {ty}|bitand", where(LIB, f or im, f"<{ty}>::bitand"), f"<{ty}>::bitand must be `self & rhs`")
            for name, prim in (("wrapping_shr", "checked_shr"), ("wrapping_shl", "checked_shl")):
                f = items.get(name)
                e = single_expr(f) if f else None
                txt = ast.src1(LIB, e).replace(" ", "") if e else None
                sp_ = [p_["pat"]["name"] for p_ in f["sig"]["inputs"] if p_["t"] == "Arg"] if f else ["by"]
                res.check(txt == f"self.{prim}({sp_[0] if sp_ else 'by'}).unwrap_or(0)", "CELL-DELEGATE", f"{LIB}|impl CellType for {ty}|{name}",
                          where(LIB, f or im, f"<{ty}>::{name}"), f"<{ty}>::{name} must be `self.{prim}(by).unwrap_or(0)` (0 when the shift reaches the width); found `{txt}`")
    if "CELL-SIBLINGS" in rules:
        def norm(ty):
            import re as _re
            s = ast.src(LIB, impls[ty])
            # parameter names are irrelevant: rename them positionally inside each function
            for fn_ in impls[ty]["items"]:
                if fn_["t"] != "Fn":
                    continue
                txt = ast.src(LIB, fn_)
                new_txt = txt
                for i_, p_ in enumerate([q for q in fn_["sig"]["inputs"] if q["t"] == "Arg" and q["pat"]["t"] == "PIdent"]):
                    new_txt = _re.sub(r"(?<![.\w])" + _re.escape(p_["pat"]["name"]) + r"(?!\w)", f"p{i_}", new_txt)
                s = s.replace(txt, new_txt)
            w = WIDTH[ty]
            # `u32` also occurs width-independently (shift amounts, BITS, trailing_zeros): protect those first
            for fixed in ("by: u32", "p0: u32", "-> u32", "BITS: u32"):
                s = s.replace(fixed, fixed.replace("u32", "U32"))
            for fixed in ("into_u64", "from_u64", "into_i64", "val: u64", "p0: u64", "-> u64", "-> i64"):
                s = s.replace(fixed, fixed.replace("u64", "U64").replace("i64", "I64"))
            s = s.replace(f"i{w}", "iW").replace(ty, "uW").replace(f"= {w};", "= W;")
            return " ".join(s.split())
        base = norm("u8")
        for ty in ("u16", "u32"):
            res.check(norm(ty) == base, "CELL-SIBLINGS", f"{LIB}|impl CellType|u8~{ty}", where(LIB, impls[ty], f"impl CellType for {ty}"),
                      f"impl CellType for {ty} differs from the u8 impl beyond the width tokens")
        # u64 differs legitimately in the identity conversions; compare everything else
        def strip_conv(s):
            import re
            return re.sub(r"fn (into_U64|from_U64|into_I64)\(.*?\}\s", "", s)
        res.check(strip_conv(norm("u64")) == strip_conv(base), "CELL-SIBLINGS", f"{LIB}|impl CellType|u8~u64", where(LIB, impls["u64"], "impl CellType for u64"),
                  "impl CellType for u64 differs from the u8 impl beyond the width tokens and the three conversions")
    # trait: default conversions and bounds
    tr = ast.item(LIB, "Trait", "CellType")
    titems = {x["name"]: x for x in tr["items"]}
    if "CELL-CASTS" in rules:
        import pm
        exp = {
            "from_u8": "Self::from_u64(__v_x as u64)",
            "into_u8": "self.into_u64() as u8",
            "from_i16": "Self::from_u64(__v_x as i64 as u64)",
            "try_into_i16": "self.into_i64().try_into().ok()",
        }
        for name, want in exp.items():
            f = titems.get(name)
            e = single_expr(f) if f and f.get("body") else None
            got = " ".join(ast.src(LIB, e).split()) if e else None
            pn_ = [p_["pat"]["name"] for p_ in f["sig"]["inputs"] if p_["t"] == "Arg"] if f else []
            okx = e is not None and pm.match_expr(e, want, {"__v_x": pn_[0]} if pn_ else {}) is not None
            res.check(okx, "CELL-CASTS", f"{LIB}|trait CellType|{name}", where(LIB, f or tr, f"CellType::{name}"),
                      f"CellType::{name} is `{got}`, must be `{want.replace('__v_x', 'val')}` (zero/sign extension and truncation as documented)")
        for ty in WIDTH:
            for name in exp:
                ov = [x for x in impls[ty]["items"] if x["name"] == name]
                res.check(not ov, "CELL-CASTS", f"{LIB}|impl CellType for {ty}|{name}|override", where(LIB, impls[ty], f"impl CellType for {ty}"),
                          f"impl for {ty} overrides the default conversion {name}")
    if "WRAP-BY-TYPE" in rules:
        bad = [b for b in tr["supertraits"] if any(k in b for k in ("Add", "Sub", "Mul", "Neg", "Shl", "Shr", "Div", "Rem"))]
        res.check(not bad, "WRAP-BY-TYPE", f"{LIB}|trait CellType|supertraits", where(LIB, tr, "trait CellType"),
                  f"CellType has arithmetic supertraits {bad}: generic code could use panicking operators on cells")
