"""Template rules for the non-arithmetic parts of the baseline JIT (codegen.rs, basejit/mod.rs):

CALL-SAVE    emit_pre_call / emit_post_call save and restore exactly the live caller-saved
             temporaries, in LIFO order, keeping the stack 16-byte aligned (all live bitmaps).
CALL-PROTO   every runtime call site: pre_call .. args .. call .. post_call with the same `live`,
             context in rdi, the right shim, argument count = shim arity, no stack-slot operand
             while rsp is displaced.
JIT-TERM     the failure branch of Inp/Out targets the termination label after post_call.
PROBE-SEQ    the Mov arm's bounds probe / extend sequence is the Memory protocol (symbolic).
PROBE-DIR    probe = min_accessed iff shift < 0.
LIM-JIT      emit_limit_check loads, tests (64 bit, unsigned), decrements and stores the budget field.
FRAME        prologue/epilogue push/pop pairing, alignment, stack room for temporaries, ABI registers.
ABI-OFFSETS  displacements off the context register equal the repr(C) offsets of the fields they are used as.
"""
from common import *
from rusteval import *
from sel import (SelModel, SelInterp, SelfV, InstrV, LocV, IdxV, TmpV, ImmV, LiveV, RegV, RegMemV, Opaque, LinT,
                 CODEGEN, PHYS, fmt_seq)

BASEJIT = "src/exec/basejit/mod.rs"
RUNTIME = "src/runtime.rs"
SYSV_ARGS = ["rdi", "rsi", "rdx", "rcx", "r8", "r9"]
SYSV_CALLEE_SAVED = {"rbx", "rbp", "rsp", "r12", "r13", "r14", "r15"}
WIDTHS = (8, 16, 32, 64)


class LinS:
    """k * symbol (+ c): a scalar known only symbolically (shift, min_accessed, temps, ..)."""

    def __init__(self, k, name, c=0):
        self.k, self.name, self.c = k, name, c

    def __repr__(self):
        return f"{self.k}*{self.name}" + (f"+{self.c}" if self.c else "")


class FnPtr:
    def __init__(self, name):
        self.name = name

    def __repr__(self):
        return f"&{self.name}"


class FieldV:
    def __init__(self, name):
        self.name = name


class JitInterp(SelInterp):
    """Adds what the non-arithmetic templates use: program fields, widths, relocation events."""

    def __init__(self, model, inp):
        super().__init__(model, inp)

    def path_value(self, name, node):
        if name == "C::BITS":
            return self.inp["width"]
        if name.startswith("hpbf_context_"):
            return FnPtr(name)
        return super().path_value(name, node)

    def field(self, base, member, node):
        if isinstance(base, SelfV):
            return FieldV(member)
        if isinstance(base, Opaque) and base.what == "program":
            return LinS(1, member)
        return super().field(base, member, node)

    def method(self, recv, name, targs, args, node):
        if isinstance(recv, FieldV):
            if name == "len":
                return Opaque(f"{recv.name}.len")
            if name == "push":
                self.seq.append((f"@{recv.name}.push", args, node["sp"][0]))
                return UNIT
            raise Unanalysable(f"self.{recv.name}.{name}()")
        if isinstance(recv, int) and not isinstance(recv, bool):
            if name == "ilog2":
                return recv.bit_length() - 1
            if name == "trailing_zeros":
                return (recv & -recv).bit_length() - 1 if recv else self.inp.get("intbits", 16)
            if name == "leading_zeros":
                return self.inp.get("intbits", 16) - recv.bit_length()
            if name == "count_ones":
                return bin(recv).count("1")
            if name == "is_odd":
                return recv % 2 == 1
        if isinstance(recv, Opaque):
            return Opaque(f"{recv.what}.{name}()")
        if isinstance(recv, (LinS,)) and name in ("into",):
            return recv
        return super().method(recv, name, targs, args, node)

    def call(self, name, targs, args, node):
        if name == "Reg::tmp" and isinstance(args[0], int):
            i = args[0]
            return Some(RegV(self.m.tmp_regs[i])) if 0 <= i < len(self.m.tmp_regs) else NONE
        return super().call(name, targs, args, node)

    def binary(self, op, l, r, node):
        if isinstance(l, LinS) and isinstance(r, int) and op in ("<", ">=", ">", "<=") and l.name == "shift" and r == 0 and l.k == 1:
            neg = self.inp["shift_neg"]
            return {"<": neg, ">=": not neg, ">": not neg and self.inp.get("shift_pos", True), "<=": neg}[op]
        if op == "*" and isinstance(l, int) and isinstance(r, LinS):
            return LinS(l * r.k, r.name, l * r.c)
        if op == "*" and isinstance(r, int) and isinstance(l, LinS):
            return LinS(r * l.k, l.name, r * l.c)
        if op == "+" and isinstance(l, LinS) and isinstance(r, int):
            return LinS(l.k, l.name, l.c + r)
        if op == "%" and isinstance(l, LinS) and r == 2 and l.name == "temps":
            return 0 if self.inp["temps_even"] else 1
        if isinstance(l, Opaque) or isinstance(r, Opaque):
            return Opaque(f"({l!r}{op}{r!r})")
        return super().binary(op, l, r, node)

    def unary(self, op, v, node):
        if op == "-" and isinstance(v, LinS):
            return LinS(-v.k, v.name, -v.c)
        return super().unary(op, v, node)

    def cast(self, v, ty, node):
        if isinstance(v, (LinS, FnPtr, Opaque)):
            return v
        return super().cast(v, ty, node)

    def assign_place(self, place, value, env, node):
        place = strip_paren(place)
        if place["t"] == "Index" and place["expr"]["t"] == "Field":
            self.seq.append((f"@{place['expr']['member']}[]=", [value], node["sp"][0]))
            return
        if place["t"] == "Field" and path_name(place["base"]) == "self":
            self.seq.append((f"@{place['member']}=", [value], node["sp"][0]))
            return
        return super().assign_place(place, value, env, node)


def jit_eval(model, instr, inp, fn=None, args=None):
    """Emitted event sequence of the `match instr` arm (or of a whole helper fn) under inp."""
    it = JitInterp(model, inp)
    env = Env()
    env.bind("self", SelfV())
    if fn is None:
        nm = model.names
        env.bind(nm["instr"], instr)
        env.bind(nm["live"], LiveV())
        env.bind(nm["program"], Opaque("program"))
        env.bind(nm["i"], Opaque("i"))
        env.bind(nm["limited"], inp.get("limited", False))
        env.bind(nm["safe"], inp.get("safe", True))
        it.eval(model.match, env)
    else:
        params = [p for p in fn["node"]["sig"]["inputs"] if p["t"] == "Arg"]
        for p, a in zip(params, args):
            it.match(p["pat"], a, env)
        try:
            it.exec_block(fn["node"]["body"], env)
        except ReturnEx:
            pass
    return it.seq


# ----------------------------------------------------------------------------- layout (E1, repr(C))

def reprc_layout(ast):
    """Offsets of Memory / Context fields from the declarations (repr(C), x86-64: pointers and usize are 8 bytes)."""
    mem = ast.item(RUNTIME, "Struct", "Memory")
    cxt = ast.item(RUNTIME, "Struct", "Context")
    out = {}
    for st in (mem, cxt):
        if not any(a["path"] == "repr" and "C" in a["s"] for a in st["attrs"]):
            raise Missing(f"struct {st['name']} is not #[repr(C)]: the JIT's hard-coded displacements have no meaning")
    off = 0
    for f in mem["fields"]["fields"]:
        t = f["ty"]["s"]
        if not (t.startswith("* mut") or t.startswith("* const") or t in ("usize", "isize")):
            raise Missing(f"Memory field {f['name']}: type {t} is not pointer-sized; layout not derivable")
        out[("Memory", f["name"])] = off
        off += 8
    memsize = off
    off = 0
    for f in cxt["fields"]["fields"]:
        t = f["ty"]["s"]
        out[("Context", f["name"])] = off
        if t.startswith("Memory"):
            for (s, n), o in list(out.items()):
                if s == "Memory":
                    out[("Context", "memory." + n)] = off + o
            off += memsize
        elif t in ("usize", "isize"):
            off += 8
        else:
            break   # only the prefix the JIT uses needs to be derivable
    return out


# ----------------------------------------------------------------------------- symbolic machine for sequences

class M2:
    """Register/stack/context machine over polynomials for the probe and limit templates."""

    def __init__(self, fields):
        self.fields = fields       # disp -> field name
        self.st = {}
        self.log = []

    def reg(self, r):
        if not isinstance(r, RegV) or not isinstance(r.name, str):
            raise Unanalysable(f"register expected, got {r!r}")
        return ("r", r.name)

    def imm(self, v):
        if isinstance(v, bool):
            raise Unanalysable("bool immediate")
        if isinstance(v, int):
            return Poly.const(v)
        if isinstance(v, LinS):
            return Poly.var(v.name) * Poly.const(v.k) + Poly.const(v.c)
        raise Unanalysable(f"immediate {v!r}")

    def rm(self, x):
        if isinstance(x, RegMemV) and x.kind == "reg":
            return self.reg(x.reg)
        if isinstance(x, RegMemV) and x.kind == "mem" and isinstance(x.base, RegV) and x.base.name == "rbx" \
                and x.index is None and isinstance(x.disp, int):
            if x.disp not in self.fields:
                raise Unanalysable(f"displacement {x.disp} off the context register is not the offset of a known field")
            return ("f", self.fields[x.disp])
        raise Unanalysable(f"operand {x!r}")

    def get(self, loc):
        if loc not in self.st:
            self.st[loc] = Poly.var(f"{loc[0]}_{loc[1]}")
        return self.st[loc]

    def addr(self, x):
        if not (isinstance(x, RegMemV) and x.kind == "mem"):
            raise Unanalysable("address operand")
        v = self.imm(x.disp)
        if x.base is not None:
            v = v + self.get(self.reg(x.base))
        if x.index is not None:
            v = v + self.get(self.reg(x.index)) * Poly.const(x.scale)
        return v


def poly_div(p, k):
    out = {}
    for m, c in p.t.items():
        if c % k:
            return None
        out[m] = c // k
    return Poly(out)


# ----------------------------------------------------------------------------- the rules

def run_jit_rules(res, ast, which):
    """which: subset of rule ids to register under the current property."""
    res.files.update([CODEGEN, BASEJIT, RUNTIME])
    try:
        model = SelModel(ast)
    except Missing as m:
        for r in which:
            res.rule(r, "(anchor missing)")
            res.missing(r, m)
        return
    arms = {}
    for i, a in enumerate(model.match["arms"]):
        p = a["pat"]
        n = p["path"]["name"] if p["t"] in ("PTupleStruct", "PPath") else None
        if n:
            arms.setdefault(n, []).append(a)
    if "CALL-SAVE" in which:
        rule_call_save(res, ast, model)
    if "CALL-PROTO" in which or "JIT-TERM" in which:
        rule_call_proto(res, ast, model, which)
    if "PROBE-SEQ" in which or "PROBE-DIR-JIT" in which or "ABI-OFFSETS" in which:
        rule_probe(res, ast, model, which)
    if "LIM-JIT" in which:
        rule_lim_jit(res, ast, model)
    if "FRAME" in which:
        rule_frame(res, ast, model)
    if "BR-JIT" in which:
        rule_branches(res, ast, model)
    if "MC-ADDR" in which:
        rule_mc_addr(res, ast, model)
    if "SHIM-EFFECT" in which:
        rule_shim_effect(res, ast)
    if "REG-COUNT" in which:
        rule_reg_count(res, ast)


def base_inp(width=8, **kw):
    d = {"tcls": {}, "icls": {}, "interval": {}, "live": {}, "fits": True, "width": width, "shift_neg": False,
         "safe": True, "limited": False, "temps_even": True}
    d.update(kw)
    return d


def rule_call_save(res, ast, model):
    res.rule("CALL-SAVE", "for every live bitmap, emit_pre_call pushes every live caller-saved temporary register "
             "and keeps rsp 16-byte aligned, and emit_post_call restores exactly those registers in LIFO order",
             floor=128, what="live bitmaps")
    try:
        pre = ast.fn(CODEGEN, "emit_pre_call", container="impl CodeGen")
        post = ast.fn(CODEGEN, "emit_post_call", container="impl CodeGen")
    except Missing as m:
        res.missing("CALL-SAVE", m)
        return
    nreg = len(model.tmp_regs)
    caller_saved = [i for i, r in enumerate(model.tmp_regs) if r not in SYSV_CALLEE_SAVED]
    lows = [i for i in range(nreg) if i not in caller_saved]
    import itertools
    n = 0
    for bits in range(1 << len(caller_saved)):
        for lowmask in (0, (1 << len(lows)) - 1 if lows else 0):
            live = lowmask and sum(1 << i for i in lows) or 0
            for j, i in enumerate(caller_saved):
                if bits >> j & 1:
                    live |= 1 << i
            n += 1
            key = f"{CODEGEN}|emit_pre_call+emit_post_call|live={live:#06x}"
            w = where(CODEGEN, pre["node"], "emit_pre_call/emit_post_call")
            try:
                s1 = jit_eval(model, None, base_inp(), pre, [live])
                s2 = jit_eval(model, None, base_inp(), post, [live])
            except (Unanalysable, Reached) as u:
                res.bad("CALL-SAVE", key, w, f"live={live:#06x}: template cannot be analysed (fail closed): {u}")
                continue
            res.evaluations += 1
            stack = []
            regs = {}
            errs = []

            def step(name, args):
                if name == "emit_push_r64":
                    stack.append(("reg", args[0].name))
                elif name == "emit_pop_r64":
                    if not stack:
                        errs.append("pop from an empty frame")
                        return
                    regs[args[0].name] = stack.pop()
                elif name in ("emit_sub_rm64_i32", "emit_add_rm64_i32") and isinstance(args[0], RegMemV) \
                        and args[0].kind == "reg" and args[0].reg.name == "rsp" and isinstance(args[1], int) and args[1] % 8 == 0:
                    k = args[1] // 8
                    if name == "emit_sub_rm64_i32":
                        stack.extend([("pad", None)] * k)
                    else:
                        for _ in range(k):
                            if not stack or stack.pop()[0] != "pad":
                                errs.append("add rsp releases a slot that holds a saved register")
                else:
                    errs.append(f"unexpected instruction {name} in the save/restore template")
            for name, args, _ in s1:
                step(name, args)
            depth = len(stack)
            saved = {v[1] for v in stack if v[0] == "reg"}
            for i in caller_saved:
                if live >> i & 1 and model.tmp_regs[i] not in saved:
                    errs.append(f"live caller-saved temporary {i} ({model.tmp_regs[i]}) is not saved before the call")
            if depth % 2:
                errs.append(f"{depth} slots pushed before the call: rsp is not 16-byte aligned at the call")
            for name, args, _ in s2:
                step(name, args)
            if stack:
                errs.append(f"{len(stack)} slot(s) left on the stack after emit_post_call")
            for r, v in regs.items():
                if v != ("reg", r):
                    errs.append(f"{r} is restored from the slot of {v[1] if v[0] == 'reg' else 'padding'}")
            for r in saved:
                if r not in regs:
                    errs.append(f"{r} is pushed but never popped")
            if errs:
                res.bad("CALL-SAVE", key, w, f"live={live:#06x}: " + "; ".join(errs[:3]),
                        ["pre: " + "; ".join(fmt_seq(s1)), "post: " + "; ".join(fmt_seq(s2))])
            else:
                res.ok("CALL-SAVE", key, w)
                if live == 0x7f0 & ((1 << nreg) - 1):
                    res.sample({"rule": "CALL-SAVE", "live": hex(live), "pre": fmt_seq(s1), "post": fmt_seq(s2)})


def shim_sigs(ast):
    out = {}
    for name in ("hpbf_context_extend", "hpbf_context_input", "hpbf_context_output"):
        f = ast.fn(BASEJIT, name)
        sig = f["node"]["sig"]
        out[name] = {"abi": sig["abi"], "nargs": len([p for p in sig["inputs"] if p["t"] == "Arg"]),
                     "ret": sig["output"]["s"] if sig["output"] else None, "node": f["node"]}
    return out


def rule_call_proto(res, ast, model, which):
    if "CALL-PROTO" in which:
        res.rule("CALL-PROTO", "every runtime call site is pre_call(live) .. context in rdi, arguments, shim address .. "
                 "call .. post_call(live); argument registers = shim arity (sysv64); no stack-slot operand while rsp is "
                 "displaced", floor=12, what="(call site, width) pairs")
    if "JIT-TERM" in which:
        res.rule("JIT-TERM", "the I/O failure flag is tested after emit_post_call and the failure branch is a rel32 "
                 "jump recorded in reloc_term (stack balanced at the termination label)", floor=8, what="(I/O arm, width) pairs")
    try:
        sigs = shim_sigs(ast)
    except Missing as m:
        for r in ("CALL-PROTO", "JIT-TERM"):
            if r in which:
                res.missing(r, m)
        return
    cases = [("Mov", "hpbf_context_extend", InstrV("Mov", [LinS(1, "shift")])),
             ("Inp", "hpbf_context_input", InstrV("Inp", [IdxV(0, "dst")])),
             ("Out", "hpbf_context_output", InstrV("Out", [IdxV(0, "src")]))]
    for op, shim, instr in cases:
        for wd in WIDTHS:
            for neg in ((False, True) if op == "Mov" else (False,)):
                key = f"{CODEGEN}|emit_program|Instr::{op}|w{wd}" + ("|neg" if neg else "")
                w = f"{CODEGEN} (emit_program, arm Instr::{op})"
                try:
                    seq = jit_eval(model, instr, base_inp(wd, shift_neg=neg, safe=True))
                except (Unanalysable, Reached) as u:
                    for r in ("CALL-PROTO", "JIT-TERM"):
                        if r in which and not (r == "JIT-TERM" and op == "Mov"):
                            res.bad(r, key, w, f"arm cannot be analysed (fail closed): {u}")
                    continue
                res.evaluations += 1
                names = [s[0] for s in seq]
                errs = []
                ipre = [i for i, n in enumerate(names) if n == "emit_pre_call"]
                icall = [i for i, n in enumerate(names) if n == "emit_call_ind"]
                ipost = [i for i, n in enumerate(names) if n == "emit_post_call"]
                if not (len(ipre) == len(icall) == len(ipost) == 1 and ipre[0] < icall[0] < ipost[0]):
                    errs.append("expected exactly one emit_pre_call < emit_call_ind < emit_post_call")
                else:
                    a, c, b = ipre[0], icall[0], ipost[0]
                    if not (isinstance(seq[a][1][0], LiveV) and isinstance(seq[b][1][0], LiveV)):
                        errs.append("pre_call/post_call are not given the instruction's `live` bitmap")
                    written = {}
                    for i in range(a + 1, c):
                        n, args, ln = seq[i]
                        dst = None
                        if n in ("emit_mov_rm64_r64",) and isinstance(args[0], RegMemV) and args[0].kind == "reg":
                            dst, src = args[0].reg.name, ("reg", args[1].name)
                        elif n in ("emit_mov_r64_rm64",) and isinstance(args[1], RegMemV) and args[1].kind == "reg":
                            dst, src = args[0].name, ("reg", args[1].reg.name)
                        elif n == "emit_mov_r64_i64":
                            dst, src = args[0].name, ("imm", args[1])
                        elif n == "emit_load":
                            dst, src = args[1].name, ("cell", args[0])
                        elif n == "emit_lea":
                            dst, src = args[0].name, ("lea", args[1])
                        else:
                            errs.append(f"unexpected {n} between pre_call and the call")
                        if dst is not None:
                            written[dst] = src
                        for x in args:
                            if isinstance(x, RegMemV) and x.kind == "mem" and isinstance(x.base, RegV) and x.base.name == "rsp":
                                errs.append(f"{n} uses a stack-slot operand while rsp is displaced by pre_call")
                    for i in range(c + 1, b):
                        errs.append(f"unexpected {seq[i][0]} between the call and post_call")
                    if written.get("rdi") != ("reg", "rbx"):
                        errs.append("rdi is not loaded with the context register before the call")
                    tgt = seq[c][1][0]
                    treg = tgt.reg.name if isinstance(tgt, RegMemV) and tgt.kind == "reg" else None
                    src = written.get(treg)
                    if not (src and src[0] == "imm" and isinstance(src[1], FnPtr) and src[1].name == shim):
                        errs.append(f"call target is not the address of {shim}")
                    if treg in SYSV_ARGS or treg in model.tmp_regs:
                        errs.append(f"call target register {treg} is an argument or temporary register")
                    argregs = [r for r in SYSV_ARGS if r in written]
                    want = SYSV_ARGS[:sigs[shim]["nargs"]]
                    if argregs != want:
                        errs.append(f"argument registers loaded {argregs}, {shim} takes {sigs[shim]['nargs']} arguments ({want})")
                    if sigs[shim]["abi"] != "sysv64":
                        errs.append(f"{shim} is not extern \"sysv64\"")
                    if op == "Out":
                        v = written.get("rsi")
                        if not (v and v[0] == "cell" and isinstance(v[1], IdxV)):
                            errs.append("second argument is not the cell operand of the instruction")
                    if op == "Inp":
                        v = written.get("rsi")
                        if not (v and v[0] == "lea" and isinstance(v[1], RegMemV) and v[1].kind == "cell"):
                            errs.append("second argument is not the address of the destination cell")
                    if op == "Mov":
                        if not (written.get("rsi") == ("imm", 0) and written.get("rdx") == ("imm", 1)):
                            errs.append("extend is not asked for the range [0, 1) around the probed cell")
                if "CALL-PROTO" in which:
                    res.check(not errs, "CALL-PROTO", key, w, f"Instr::{op} (width {wd}): " + "; ".join(errs),
                              detail=["emitted: " + "; ".join(fmt_seq(seq))])
                if "JIT-TERM" in which and op in ("Inp", "Out"):
                    e2 = []
                    if ipost:
                        tail = seq[ipost[0] + 1:]
                        tn = [t[0] for t in tail]
                        try:
                            it = tn.index("emit_test_rm8_r8")
                            ij = tn.index("emit_jcc_rel32")
                            ir = tn.index("@reloc_term.push")
                            ta = tail[it][1]
                            if not (isinstance(ta[0], RegMemV) and ta[0].kind == "reg" and ta[0].reg.name == "rax" and ta[1].name == "rax"):
                                e2.append("the tested register is not the shim's return value (al)")
                            if not (it < ij < ir):
                                e2.append("test, jcc, reloc_term.push are not in this order")
                            if not (isinstance(tail[ij][1][0], Opaque) and tail[ij][1][0].what == "JmpPred::NotEqual"):
                                e2.append("failure branch is not taken on a non-zero flag")
                            if op == "Inp" and any(n.startswith("emit_store") for n in tn[:ij]):
                                e2.append("the cell is written before the failure test")
                        except ValueError:
                            e2.append("no test of the failure flag with a reloc_term jump after emit_post_call")
                        if any(n == "@reloc_term.push" for n in names[:ipost[0]]):
                            e2.append("a jump to the termination label is emitted before emit_post_call (stack unbalanced at the label)")
                    else:
                        e2.append("no emit_post_call")
                    # shim return type
                    if sigs[shim]["ret"] != "bool":
                        e2.append(f"{shim} does not return the failure flag as bool")
                    res.check(not e2, "JIT-TERM", key, w, f"Instr::{op} (width {wd}): " + "; ".join(e2),
                              detail=["emitted: " + "; ".join(fmt_seq(seq))])


def rule_probe(res, ast, model, which):
    if "PROBE-SEQ" in which:
        res.rule("PROBE-SEQ", "the checked Mov template computes the probe cell's index from buffer, compares it "
                 "unsigned with size, and on the slow path stores it as offset, extends, and recomputes the tape "
                 "pointer from the new buffer/offset (symbolic evaluation, all widths, both directions)",
                 floor=8, what="(width, direction) pairs")
    if "PROBE-DIR-JIT" in which:
        res.rule("PROBE-DIR-JIT", "the Mov template probes min_accessed iff shift < 0, else max_accessed",
                 floor=8, what="(width, direction) pairs")
    if "ABI-OFFSETS" in which:
        res.rule("ABI-OFFSETS", "every displacement off the context register equals the repr(C) offset of the "
                 "Memory/Context field it is used as", floor=5, what="displacement uses")
    try:
        lay = reprc_layout(ast)
    except Missing as m:
        for r in ("PROBE-SEQ", "ABI-OFFSETS"):
            if r in which:
                res.missing(r, m)
        return
    fields = {lay[("Context", "memory.buffer")]: "buffer", lay[("Context", "memory.size")]: "size",
              lay[("Context", "memory.offset")]: "offset", lay[("Context", "budget")]: "budget"}
    for wd in WIDTHS:
        for neg in (False, True):
            key = f"{CODEGEN}|emit_program|Instr::Mov|w{wd}|{'neg' if neg else 'pos'}"
            w = f"{CODEGEN} (emit_program, arm Instr::Mov)"
            try:
                seq = jit_eval(model, InstrV("Mov", [LinS(1, "shift")]), base_inp(wd, shift_neg=neg, safe=True))
                useq = jit_eval(model, InstrV("Mov", [LinS(1, "shift")]), base_inp(wd, shift_neg=neg, safe=False))
            except (Unanalysable, Reached) as u:
                for r in ("PROBE-SEQ", "PROBE-DIR-JIT"):
                    if r in which:
                        res.bad(r, key, w, f"arm cannot be analysed (fail closed): {u}")
                continue
            res.evaluations += 1
            B = wd // 8
            m = M2(fields)
            errs = []
            p0 = Poly.var("buffer") + Poly.const(B) * Poly.var("p")   # rbp = buffer + B*p
            m.st[("r", "rbp")] = p0
            m.st[("f", "buffer")] = Poly.var("buffer")
            m.st[("f", "size")] = Poly.var("size")
            m.st[("f", "offset")] = Poly.var("offset_old")
            probe_name = None
            cmp_seen = jb_seen = False
            called = False
            stored_offset = None
            used_disps = []
            try:
                for n, args, ln in seq:
                    for a in args:
                        if isinstance(a, RegMemV) and a.kind == "mem" and isinstance(a.base, RegV) and a.base.name == "rbx":
                            used_disps.append((a.disp, n, ln))
                    if n == "emit_add_rm64_i32":
                        d = m.rm(args[0])
                        m.st[d] = m.get(d) + m.imm(args[1])
                    elif n == "emit_lea":
                        m.st[m.reg(args[0])] = m.addr(args[1])
                        for v in m.addr(args[1]).vars():
                            if v in ("min_accessed", "max_accessed"):
                                probe_name = probe_name or v
                    elif n == "emit_sub_r64_rm64":
                        d = m.reg(args[0])
                        m.st[d] = m.get(d) - m.get(m.rm(args[1]))
                    elif n == "emit_sar_r64_i8":
                        d = m.rm(args[0])
                        q = poly_div(m.get(d), 1 << args[1])
                        if q is None:
                            errs.append(f"sar by {args[1]} of a value that is not a multiple of {1 << args[1]}: `{m.get(d)}`")
                            q = Poly.var("garbage")
                        m.st[d] = q
                    elif n == "emit_cmp_r64_rm64":
                        cmp_seen = (m.get(m.reg(args[0])), m.get(m.rm(args[1])))
                    elif n == "emit_jcc_rel8":
                        jb_seen = args[0].what if isinstance(args[0], Opaque) else None
                    elif n == "emit_mov_rm64_r64":
                        d = m.rm(args[0])
                        m.st[d] = m.get(m.reg(args[1]))
                        if d == ("f", "offset"):
                            stored_offset = m.st[d]
                    elif n == "emit_mov_r64_rm64":
                        m.st[m.reg(args[0])] = m.get(m.rm(args[1]))
                    elif n == "emit_mov_r64_i64":
                        m.st[m.reg(args[0])] = m.imm(args[1]) if not isinstance(args[1], FnPtr) else Poly.var("fn")
                    elif n == "emit_call_ind":
                        called = True
                        # Memory::make_accessible contract: buffer/size change, the logical position is kept:
                        # offset' is the new index of the cell whose old index was stored.
                        m.st[("f", "buffer")] = Poly.var("buffer_new")
                        m.st[("f", "size")] = Poly.var("size_new")
                        m.st[("f", "offset")] = Poly.var("offset_new")
                        for r in ("rax", "rcx", "rdx", "rsi", "rdi", "r8", "r9", "r10", "r11"):
                            m.st[("r", r)] = Poly.var(f"clobbered_{r}")
                    elif n in ("emit_pre_call", "emit_post_call") or n.startswith("@"):
                        pass
                    else:
                        errs.append(f"unexpected {n} in the Mov template")
            except Unanalysable as u:
                errs.append(f"cannot be analysed: {u}")
            moved = Poly.var("p") + (Poly.var("shift"))
            want_probe = "min_accessed" if neg else "max_accessed"
            if not errs:
                idx = moved + Poly.var(probe_name or want_probe)
                if not cmp_seen:
                    errs.append("no comparison of the probe index with size")
                else:
                    if cmp_seen[0] != idx:
                        errs.append(f"compared value is `{cmp_seen[0]}`, expected the probe cell index `{idx}`")
                    if cmp_seen[1] != Poly.var("size"):
                        errs.append(f"compared against `{cmp_seen[1]}`, expected the size field")
                if jb_seen != "JmpPred::Below":
                    errs.append(f"fast-path branch predicate is {jb_seen}, expected unsigned Below")
                if stored_offset != idx:
                    errs.append(f"offset field is set to `{stored_offset}` before extending, expected `{idx}`")
                if not called:
                    errs.append("no call of the extend shim")
                final = m.get(("r", "rbp"))
                exp = Poly.var("buffer_new") + Poly.const(B) * (Poly.var("offset_new") - Poly.var(probe_name or want_probe))
                if final != exp:
                    errs.append(f"tape pointer after extending is `{final}`, expected `{exp}`")
                # the unchecked template must be the pointer addition alone
                if [s[0] for s in useq] != ["emit_add_rm64_i32"] or seq[0][0] != "emit_add_rm64_i32" \
                        or repr(useq[0][1]) != repr(seq[0][1]):
                    errs.append("the unchecked template is not exactly the pointer addition of the checked one")
            if "PROBE-SEQ" in which:
                res.check(not errs, "PROBE-SEQ", key, w, f"Mov width {wd} shift{'<0' if neg else '>=0'}: " + "; ".join(errs[:3]),
                          detail=["emitted: " + "; ".join(fmt_seq(seq))])
            if "PROBE-DIR-JIT" in which:
                res.check(probe_name == want_probe, "PROBE-DIR-JIT", key, w,
                          f"Mov with shift{'<0' if neg else '>=0'} probes {probe_name}, expected {want_probe}")
            if "ABI-OFFSETS" in which and wd == 8 and not neg:
                for disp, n, ln in used_disps:
                    k = f"{CODEGEN}|emit_program|Instr::Mov|cxt+{disp}|{n}"
                    res.check(disp in fields, "ABI-OFFSETS", k, f"{CODEGEN}:{ln} (emit_program)",
                              f"displacement {disp} off the context register is not a field offset ({fields})")
    if "PROBE-SEQ" in which and len(res.samples) < 30:
        try:
            seq = jit_eval(model, InstrV("Mov", [LinS(1, "shift")]), base_inp(16, shift_neg=True, safe=True))
            res.sample({"rule": "PROBE-SEQ", "width": 16, "direction": "left", "emitted": fmt_seq(seq),
                        "layout": {str(k): v for k, v in fields.items()}})
        except Exception:
            pass


def rule_lim_jit(res, ast, model):
    res.rule("LIM-JIT", "emit_limit_check loads the 64-bit budget field, leaves to the termination label when it is "
             "below a constant >= 1 (unsigned), otherwise decrements it by one and stores it back; emit_program "
             "emits it before every BrZ/BrNZ exactly when `limited`", floor=3, what="template obligations")
    try:
        lay = reprc_layout(ast)
        f = ast.fn(CODEGEN, "emit_limit_check", container="impl CodeGen")
    except Missing as m:
        res.missing("LIM-JIT", m)
        return
    bud = lay[("Context", "budget")]
    w = where(CODEGEN, f["node"], "emit_limit_check")
    key = f"{CODEGEN}|emit_limit_check"
    try:
        seq = jit_eval(model, None, base_inp(), f, [])
    except (Unanalysable, Reached) as u:
        res.bad("LIM-JIT", key + "|template", w, f"cannot be analysed (fail closed): {u}")
        return
    errs = []
    names = [s[0] for s in seq]

    def is_budget(x):
        return isinstance(x, RegMemV) and x.kind == "mem" and isinstance(x.base, RegV) and x.base.name == "rbx" \
            and x.index is None and x.disp == bud
    reg = None
    stage = 0
    K = None
    for n, args, ln in seq:
        if stage == 0:
            if n == "emit_mov_r64_rm64" and is_budget(args[1]):
                reg = args[0].name
                stage = 1
            else:
                errs.append(f"first instruction is {n}, expected a 64-bit load of the budget field (context+{bud})")
                break
        elif stage == 1:
            if n == "emit_cmp_rm64_i8" and isinstance(args[0], RegMemV) and args[0].kind == "reg" and args[0].reg.name == reg \
                    and isinstance(args[1], int):
                K = args[1]
                stage = 2
            else:
                errs.append(f"{n}: expected a 64-bit compare of the loaded budget with a constant")
                break
        elif stage == 2:
            if n == "emit_jcc_rel32" and isinstance(args[0], Opaque) and args[0].what == "JmpPred::Below":
                stage = 3
            else:
                errs.append(f"{n}: expected jb (unsigned below) to the termination label")
                break
        elif stage == 3:
            if n == "@reloc_term.push":
                stage = 4
            else:
                errs.append("the budget exit is not recorded in reloc_term")
                break
        elif stage == 4:
            if (n == "emit_sub_rm64_i32" and args[1] == 1 or n == "emit_dec_rm64" or n == "emit_add_rm64_i32" and args[1] == -1) \
                    and isinstance(args[0], RegMemV) and args[0].kind == "reg" and args[0].reg.name == reg:
                stage = 5
            else:
                errs.append(f"{n}: expected a decrement by one of the loaded budget")
                break
        elif stage == 5:
            if n == "emit_mov_rm64_r64" and is_budget(args[0]) and args[1].name == reg:
                stage = 6
            else:
                errs.append(f"{n}: expected a 64-bit store back to the budget field")
                break
        else:
            errs.append(f"unexpected trailing {n}")
    if not errs and stage != 6:
        errs.append("template incomplete")
    if K is not None and K < 1:
        errs.append(f"exit threshold {K} allows the budget to wrap below zero")
    if reg in model.tmp_regs:
        errs.append(f"budget is held in {reg}, a temporary register")
    res.check(not errs, "LIM-JIT", key + "|template", w, "emit_limit_check: " + "; ".join(errs),
              detail=["emitted: " + "; ".join(fmt_seq(seq))])
    res.sample({"rule": "LIM-JIT", "emitted": fmt_seq(seq), "budget_offset": bud})
    # placement in emit_program: the statements before the dispatching match are evaluated for
    # limited x {BrZ, BrNZ, another instruction}: emit_limit_check must be emitted exactly for limited branches
    fn = model.emit_program["node"]
    ok_place = False
    why = "the loop body of emit_program could not be located"
    for l in walk_t(fn["body"], "ForLoop"):
        stmts = l["body"]["stmts"]
        idx = [i for i, st in enumerate(stmts) if st["t"] == "ExprStmt" and st["expr"].get("sp") == model.match["sp"] and st["expr"]["t"] == "Match"]
        if not idx:
            continue
        pre = stmts[:idx[0]]
        ok_place = True
        why = ""
        for limited in (True, False):
            for kind, ins in (("BrZ", InstrV("BrZ", [IdxV(0, "cond"), LinS(1, "off")])), ("BrNZ", InstrV("BrNZ", [IdxV(0, "cond"), LinS(1, "off")])),
                              ("Out", InstrV("Out", [IdxV(0, "src")])), ("Noop", InstrV("Noop", []))):
                it = JitInterp(model, base_inp(limited=limited))
                env = Env()
                env.bind("self", SelfV())
                nm = model.names
                env.bind(nm["instr"], ins)
                env.bind(nm["live"], LiveV())
                env.bind(nm["program"], Opaque("program"))
                env.bind(nm["i"], Opaque("i"))
                env.bind(nm["limited"], limited)
                env.bind(nm["safe"], True)
                try:
                    it.exec_block({"t": "Block", "stmts": pre, "sp": l["body"]["sp"]}, env)
                except (Unanalysable, Reached, ReturnEx) as u:
                    ok_place = False
                    why = f"statements before the dispatch cannot be analysed (fail closed): {u}"
                    break
                n = sum(1 for s_ in it.seq if s_[0] == "emit_limit_check")
                want = 1 if (limited and kind in ("BrZ", "BrNZ")) else 0
                if n != want:
                    ok_place = False
                    why = f"with limited = {limited} the budget check is emitted {n} time(s) before Instr::{kind}, expected {want}"
            if not ok_place:
                break
    res.check(ok_place, "LIM-JIT", key + "|placement", where(CODEGEN, fn, "emit_program"), why)
    # no other caller / no unguarded use
    callers = [(f2["name"], m) for f2 in ast.find_fns(CODEGEN) for m in walk_t(f2["node"].get("body") or {}, "MethodCall")
               if m["method"] == "emit_limit_check"]
    res.check(len(callers) == 1 and callers[0][0] == "emit_program", "LIM-JIT", key + "|callers", w,
              f"emit_limit_check is called from {[c[0] for c in callers]}, expected only the guarded site in emit_program")
    # the termination label reports `not finished`: term = position of `mov rax, 0`
    return


def rule_frame(res, ast, model):
    res.rule("FRAME", "prologue and epilogue: same callee-saved registers pushed and popped in LIFO order, every "
             "callee-saved register the code uses is saved, rsp stays 16-byte aligned, the frame has room for every "
             "stack temporary, context/tape pointers are taken from the sysv64 argument registers, and the two exits "
             "return 1 (finished) / 0 (terminated)", floor=6, what="frame obligations")
    try:
        pro = ast.fn(CODEGEN, "emit_prologue", container="impl CodeGen")
        epi = ast.fn(CODEGEN, "emit_epilogue", container="impl CodeGen")
        entry = ast.item(BASEJIT, "TypeAlias", "HpbfEntry")
    except Missing as m:
        res.missing("FRAME", m)
        return
    w = where(CODEGEN, pro["node"], "emit_prologue/emit_epilogue")
    for even in (True, False):
        key = f"{CODEGEN}|frame|temps_{'even' if even else 'odd'}"
        try:
            s1 = jit_eval(model, None, base_inp(temps_even=even), pro, [LinS(1, "temps")])
            s2 = jit_eval(model, None, base_inp(temps_even=even), epi, [LinS(1, "temps")])
        except (Unanalysable, Reached) as u:
            res.bad("FRAME", key, w, f"cannot be analysed (fail closed): {u}")
            continue
        errs = []
        pushes = [a[0].name for n, a, _ in s1 if n == "emit_push_r64"]
        pops = [a[0].name for n, a, _ in s2 if n == "emit_pop_r64"]
        if pops != pushes[::-1]:
            errs.append(f"pops {pops} are not the reverse of pushes {pushes}")
        used_callee = {"rbx", "rbp"} | {r for r in model.tmp_regs if r in SYSV_CALLEE_SAVED}
        if not used_callee <= set(pushes):
            errs.append(f"callee-saved registers {sorted(used_callee - set(pushes))} are used but not saved")
        sub = [a for n, a, _ in s1 if n == "emit_sub_rm64_i32" and isinstance(a[0], RegMemV) and a[0].kind == "reg" and a[0].reg.name == "rsp"]
        add = [a for n, a, _ in s2 if n == "emit_add_rm64_i32" and isinstance(a[0], RegMemV) and a[0].kind == "reg" and a[0].reg.name == "rsp"]
        if len(sub) != 1 or len(add) != 1 or repr(sub[0][1]) != repr(add[0][1]):
            errs.append("frame allocation and release differ")
        else:
            amt = sub[0][1]
            if not (isinstance(amt, LinS) and amt.name == "temps" and amt.k == 8):
                errs.append(f"frame size {amt!r} is not 8 bytes per temporary")
            else:
                slots_minus_temps = amt.c // 8          # slots = temps + c/8
                if slots_minus_temps < 0:
                    errs.append("frame is smaller than the number of temporaries")
                # parity: pushes + return address + slots must be even
                par = (len(pushes) + 1 + (0 if even else 1) + slots_minus_temps) % 2
                if par:
                    errs.append("rsp is not 16-byte aligned in the body (pushes + return address + frame slots is odd)")
        movs = {a[0].name: a[1] for n, a, _ in s1 if n == "emit_mov_r64_rm64"}
        if not (isinstance(movs.get("rbx"), RegMemV) and movs["rbx"].kind == "reg" and movs["rbx"].reg.name == "rdi"):
            errs.append("context register is not initialised from rdi (first argument)")
        if not (isinstance(movs.get("rbp"), RegMemV) and movs["rbp"].kind == "reg" and movs["rbp"].reg.name == "rsi"):
            errs.append("tape pointer register is not initialised from rsi (second argument)")
        # epilogue exits
        names = [n for n, _, _ in s2]
        try:
            i1 = next(i for i, (n, a, _) in enumerate(s2) if n == "emit_mov_r64_i64" and a[0].name == "rax" and a[1] == 1)
            ij = names.index("emit_jmp_rel8")
            it = names.index("@term=")
            i0 = next(i for i, (n, a, _) in enumerate(s2) if n == "emit_mov_r64_i64" and a[0].name == "rax" and a[1] == 0)
            ipatch = names.index("@code[]=")
            iadd = names.index("emit_add_rm64_i32")
            if not (i1 < ij < it <= i0 < ipatch < iadd):
                errs.append("epilogue order is not: rax=1; jmp over; term label; rax=0; patch; release frame")
            if names[-1] != "emit_ret":
                errs.append("epilogue does not end with ret")
        except (StopIteration, ValueError):
            errs.append("epilogue lacks one of: rax=1, jmp rel8, term label assignment, rax=0, jump patch")
        res.check(not errs, "FRAME", key, w, "; ".join(errs), detail=["prologue: " + "; ".join(fmt_seq(s1)), "epilogue: " + "; ".join(fmt_seq(s2))])
    # entry type
    ty = entry["ty"]
    okabi = ty["t"] == "TyBareFn" and ty["abi"] and "sysv64" in ty["abi"] and len(ty["inputs"]) == 2 and ty["output"] and ty["output"]["s"] == "bool"
    res.check(okabi, "FRAME", f"{BASEJIT}|HpbfEntry", where(BASEJIT, entry, "HpbfEntry"),
              "HpbfEntry must be extern \"sysv64\" fn(cxt, mem) -> bool")
    # Reg::tmp table: distinct, disjoint from the reserved registers
    regs = model.tmp_regs
    reserved = {"rax", "rcx", "rsp", "rbp", "rbx"}
    res.check(len(set(regs)) == len(regs) and not (set(regs) & reserved), "FRAME", f"{CODEGEN}|Reg::tmp|distinct",
              f"{CODEGEN} (Reg::tmp)", f"Reg::tmp must list distinct registers disjoint from {sorted(reserved)}; found {regs}")
    for name, want in (("cxt", "rbx"), ("mem", "rbp"), ("scr0", "rax"), ("scr1", "rcx")):
        b = model.helpers[name]["node"]["body"]["stmts"]
        got = path_name(b[0]["expr"]) if len(b) == 1 and b[0]["t"] == "ExprStmt" else None
        res.check(got is not None and got.startswith("Reg::") and PHYS.get(got[5:]) not in set(regs) | ({"rsp"}),
                  "FRAME", f"{CODEGEN}|Reg::{name}", f"{CODEGEN} (Reg::{name})",
                  f"Reg::{name}() = {got} clashes with a temporary register or rsp")
    s0 = path_name(model.helpers["scr0"]["node"]["body"]["stmts"][0]["expr"])
    s1_ = path_name(model.helpers["scr1"]["node"]["body"]["stmts"][0]["expr"])
    c0 = path_name(model.helpers["cxt"]["node"]["body"]["stmts"][0]["expr"])
    m0 = path_name(model.helpers["mem"]["node"]["body"]["stmts"][0]["expr"])
    res.check(len({s0, s1_, c0, m0}) == 4, "FRAME", f"{CODEGEN}|Reg::roles", f"{CODEGEN} (impl Reg)",
              f"scr0/scr1/cxt/mem must be four different registers; found {s0}, {s1_}, {c0}, {m0}")


def rule_branches(res, ast, model):
    res.rule("BR-JIT", "BrZ/BrNZ templates compare the condition cell with zero at the cell width and jump with the "
             "matching predicate to a reloc_br entry for instruction i + off", floor=8, what="(branch, width) pairs")
    for op, pred in (("BrZ", "JmpPred::Equal"), ("BrNZ", "JmpPred::NotEqual")):
        for wd in WIDTHS:
            key = f"{CODEGEN}|emit_program|Instr::{op}|w{wd}"
            w = f"{CODEGEN} (emit_program, arm Instr::{op})"
            try:
                seq = jit_eval(model, InstrV(op, [IdxV(0, "cond"), LinS(1, "off")]), base_inp(wd))
            except (Unanalysable, Reached) as u:
                res.bad("BR-JIT", key, w, f"arm cannot be analysed (fail closed): {u}")
                continue
            names = [s[0] for s in seq]
            errs = []
            if names != ["emit_cmp_zero", "emit_jcc_rel32", "@reloc_br.push"]:
                errs.append(f"template is {names}, expected cmp_zero; jcc rel32; reloc_br.push")
            else:
                if not (isinstance(seq[0][1][0], IdxV) and seq[0][1][0].name == "cond"):
                    errs.append("compares a cell other than the condition operand")
                if not (isinstance(seq[1][1][0], Opaque) and seq[1][1][0].what == pred):
                    errs.append(f"jump predicate is {seq[1][1][0]!r}, expected {pred}")
            res.check(not errs, "BR-JIT", key, w, f"Instr::{op} width {wd}: " + "; ".join(errs))
    # target index expression: i.wrapping_add_signed(off)
    n = 0
    for a in model.match["arms"]:
        p = a["pat"]
        if p["t"] == "PTupleStruct" and p["path"]["name"] in ("Instr::BrZ", "Instr::BrNZ"):
            offname = p["elems"][1].get("name")
            pushes = [m for m in walk_t(a["body"], "MethodCall") if m["method"] == "push" and
                      m["receiver"]["t"] == "Field" and m["receiver"]["member"] == "reloc_br"]
            ok = False
            if len(pushes) == 1 and pushes[0]["args"][0]["t"] == "Tuple" and len(pushes[0]["args"][0]["elems"]) == 2:
                t = strip_paren(pushes[0]["args"][0]["elems"][1])
                ok = (t["t"] == "MethodCall" and t["method"] == "wrapping_add_signed" and path_name(t["receiver"]) == model.names["i"]
                      and path_name(t["args"][0]) == offname)
            res.check(ok, "BR-JIT", f"{CODEGEN}|emit_program|{p['path']['name']}|target", where(CODEGEN, a, "emit_program"),
                      "branch target recorded in reloc_br is not i.wrapping_add_signed(off)")
            n += 1


def rule_mc_addr(res, ast, model):
    res.rule("MC-ADDR", "the machine code the JIT emits (and --print-jit-mc prints) contains no process-dependent value: no function or "
             "data address is embedded as an immediate", floor=3, what="templates with runtime calls")
    cases = [("Mov", InstrV("Mov", [LinS(1, "shift")])), ("Inp", InstrV("Inp", [IdxV(0, "dst")])), ("Out", InstrV("Out", [IdxV(0, "src")]))]
    for op, instr in cases:
        w = f"{CODEGEN} (emit_program, arm Instr::{op})"
        try:
            seq = jit_eval(model, instr, base_inp(8, safe=True))
        except (Unanalysable, Reached) as u:
            res.bad("MC-ADDR", f"{CODEGEN}|emit_program|Instr::{op}|unanalysable", w, f"arm cannot be analysed (fail closed): {u}")
            continue
        ptrs = sorted({a.name for n, args, _ in seq for a in args if isinstance(a, FnPtr)})
        if not ptrs:
            res.ok("MC-ADDR", f"{CODEGEN}|emit_program|Instr::{op}", w)
        for pn in ptrs:
            res.bad("MC-ADDR", f"{CODEGEN}|emit_program|Instr::{op}|{pn}", w,
                    f"Instr::{op}: the absolute address of {pn} is embedded as an immediate: printed machine code differs between processes (ASLR)")


def rule_reg_count(res, ast):
    """The bytecode generator is told how many temporaries are registers; the JIT's own register table must have exactly that many
    entries (writer's and reader's tables agree): with more, `Reg::tmp(k).unwrap()` panics in the call save/restore code for a live %k;
    with fewer, a temporary the bytecode treats as spilled lives in a caller-saved register."""
    import pm
    res.rule("REG-COUNT", "the register count BaseJitCompiler::create passes to bc::CodeGen::translate equals the number of entries of the JIT's "
             "temporary-register table (Reg::tmp) and fits the 16-bit live bitmap; the table has no duplicate and excludes the context, tape and "
             "scratch registers", floor=3, what="obligations")
    try:
        tmp = ast.fn(CODEGEN, "tmp", contains="impl Reg")["node"]
        cr = [f for f in ast.find_fns(BASEJIT, "create") if "BaseJitCompiler" in f["container"]]
        if len(cr) != 1:
            raise Missing("BaseJitCompiler::create")
        cr = cr[0]["node"]
    except Missing as m:
        res.missing("REG-COUNT", m)
        return
    arrs = [a for a in walk_t(tmp["body"], "Array")]
    regs = None
    if len(arrs) == 1:
        regs = [path_name(strip_paren(x)) for x in arrs[0]["elems"]]
    else:
        # match form: `match tmp { 0 => Some(Reg::..), .. _ => None }`
        ms = [m for m in walk_t(tmp["body"], "Match")]
        if len(ms) == 1:
            regs = []
            for a in ms[0]["arms"]:
                if a["pat"]["t"] == "PLit":
                    c_ = strip_paren(a["body"])
                    regs.append(path_name(strip_paren(c_["args"][0])) if c_["t"] == "Call" and path_name(c_["func"]) == "Some" and c_["args"] else None)
    w = where(CODEGEN, tmp, "Reg::tmp")
    if not regs or None in regs:
        res.bad("REG-COUNT", f"{CODEGEN}|Reg::tmp|table", w, "the temporary-register table of Reg::tmp is not a literal array / match of registers (fail closed)")
        return
    special = set()
    for nm in ("cxt", "mem", "scr0", "scr1"):
        try:
            f_ = ast.fn(CODEGEN, nm, contains="impl Reg")["node"]
            st_ = f_["body"]["stmts"]
            if st_ and st_[-1]["t"] == "ExprStmt":
                special.add(path_name(strip_paren(st_[-1]["expr"])))
        except Missing:
            pass
    special |= {"Reg::Rsp"}
    res.check(len(set(regs)) == len(regs) and not (set(regs) & special), "REG-COUNT", f"{CODEGEN}|Reg::tmp|distinct", w,
              f"the temporary registers {regs} must be pairwise distinct and differ from the reserved registers {sorted(x for x in special if x)}")
    calls_ = [c for c in walk_t(cr["body"], "Call") if (path_name(strip_paren(c["func"])) or "").endswith("CodeGen::translate")]
    n = int_lit(calls_[0]["args"][1]) if len(calls_) == 1 and len(calls_[0]["args"]) == 3 else None
    res.check(n == len(regs), "REG-COUNT", f"{BASEJIT}|create|num_regs", where(BASEJIT, cr, "BaseJitCompiler::create"),
              f"create tells the bytecode generator that {n} temporaries are registers, the JIT's table has {len(regs)}: "
              + ("Reg::tmp(k).unwrap() panics when %k is live across a runtime call" if n is not None and n > len(regs) else "the bytecode's spill/liveness assumptions do not match the JIT's registers"))
    res.check(len(regs) <= 16, "REG-COUNT", f"{CODEGEN}|Reg::tmp|bitmap", w, "more than 16 register temporaries do not fit the u16 live bitmap")
    # can_use_as_scratch(live, k): true exactly for a register temporary whose live bit is clear.  For k beyond the table the selector would go on
    # to `Reg::tmp(k).unwrap()` (a panic while compiling); for a live register it would clobber a value that is still needed.
    try:
        cs = ast.fn(CODEGEN, "can_use_as_scratch")["node"]
        import receval
        from rusteval import Env as _Env, ReturnEx as _Ret, Unanalysable as _Un, Reached as _Re
        ps_ = [p_["pat"]["name"] for p_ in cs["sig"]["inputs"] if p_["t"] == "Arg" and p_["pat"]["t"] == "PIdent"]
        bad_ = []
        for k in range(0, 20):
            for live in ((0, 0xFFFF) if k >= 16 else (0, 1 << k, 0xFFFF ^ (1 << k))):
                try:
                    if len(ps_) != 2:
                        raise _Un("can_use_as_scratch(&self, live, tmp): unexpected parameters")
                    it = receval.RecInterp(ast, CODEGEN, receval.Rec())
                    env_ = _Env()
                    env_.bind(ps_[0], live)
                    env_.bind(ps_[1], k)
                    try:
                        v_ = it.exec_block(cs["body"], env_)
                    except _Ret as r_:
                        v_ = r_.value
                except (_Un, _Re, KeyError, TypeError, IndexError) as u_:
                    bad_.append(f"cannot be analysed (fail closed): {u_}")
                    break
                want = k < len(regs) and not (live >> k) & 1
                if v_ is not want:
                    bad_.append(f"temporary {k} with live bitmap {live:#06x}: answers {v_!r}, must be {want} "
                                + ("(a stack temporary has no register: Reg::tmp(k).unwrap() panics while compiling)" if k >= len(regs) else "(the register's live bit decides)"))
            if bad_ and bad_[-1].startswith("cannot"):
                break
        res.check(not bad_, "REG-COUNT", f"{CODEGEN}|can_use_as_scratch|bound", where(CODEGEN, cs, "can_use_as_scratch"),
                  "can_use_as_scratch must agree with the register table: " + "; ".join(bad_[:2]))
    except Missing as m:
        res.missing("REG-COUNT", m)


def rule_shim_effect(res, ast):
    """the three runtime functions the machine code calls, evaluated (lib/receval.py) on the outcome classes of the context call they wrap"""
    import receval
    from receval import Rec
    from rusteval import Env as _Env, ReturnEx as _Ret, Unanalysable as _Un, Reached as _Re, NONE as _NONE, Some as _Some, UNIT as _UNIT
    res.rule("SHIM-EFFECT", "hpbf_context_input stores C::from_u8(byte) into the whole cell *dst and returns false when the context delivers a byte, stores nothing and "
             "returns true otherwise; hpbf_context_output hands value.into_u8() to the context once and returns true exactly when the context reports failure; "
             "hpbf_context_extend forwards (min, max) to Memory::make_accessible", floor=5, what="shim x outcome scenarios")

    class Obj:
        def __init__(self, name):
            self.name = name

        def __repr__(self):
            return self.name

    def run(fname, scenario):
        fn = ast.fn(BASEJIT, fname)["node"]
        log = []
        CXT, MEMO, VAL, BYTE, PTR = Obj("cxt"), Obj("cxt.memory"), Obj("value"), Obj("byte"), Obj("dst-pointer")

        class SI(receval.RecInterp):
            def field(self, base, member, node):
                if base is CXT and member == "memory":
                    return MEMO
                return super().field(base, member, node)

            def method(self, recv, name, targs, args, node):
                if recv is CXT and name == "input" and not args:
                    log.append(("input",))
                    return _Some(BYTE) if scenario == "some" else _NONE
                if recv is CXT and name == "output" and len(args) == 1:
                    log.append(("output", args[0]))
                    return _Some(_UNIT) if scenario == "some" else _NONE
                if recv is MEMO and name == "make_accessible":
                    log.append(("make_accessible",) + tuple(args))
                    return _UNIT
                if recv is VAL and name == "into_u8" and not args:
                    return ("low byte of", VAL)
                return super().method(recv, name, targs, args, node)
            def assign_place(self, place, value, env, node):
                pl = strip_paren(place)
                if pl["t"] == "Unary" and pl["op"] == "*" and strip_paren(pl["expr"])["t"] == "Cast":
                    raise _Re(f"the store goes through `{ast.src1(BASEJIT, strip_paren(pl['expr']))}`: not the whole cell is written", node)
                return super().assign_place(place, value, env, node)
        it = SI(ast, BASEJIT, Rec(), scripted={"C::from_u8": lambda it_, v_: ("cell from byte", v_)})
        ps = [p_["pat"]["name"] for p_ in fn["sig"]["inputs"] if p_["t"] == "Arg" and p_["pat"]["t"] == "PIdent"]
        env = _Env()
        vals = {"hpbf_context_input": [CXT, PTR], "hpbf_context_output": [CXT, VAL], "hpbf_context_extend": [CXT, -5, 9]}[fname]
        if len(ps) != len(vals):
            raise _Un(f"{fname}: unexpected parameters")
        for n_, v_ in zip(ps, vals):
            env.bind(n_, v_)
        try:
            r = it.exec_block(fn["body"], env)
        except _Ret as r_:
            r = r_.value
        return r, log, (env.get(ps[1]) if len(ps) > 1 else None), PTR, BYTE, VAL
    for fname, scenario in (("hpbf_context_input", "some"), ("hpbf_context_input", "none"), ("hpbf_context_output", "some"), ("hpbf_context_output", "none"),
                            ("hpbf_context_extend", "-")):
        probs = []
        try:
            r, log, second, PTR, BYTE, VAL = run(fname, scenario)
            if fname == "hpbf_context_input":
                if log != [("input",)]:
                    probs.append(f"the context is asked {len(log)} times")
                elif scenario == "some":
                    if second != ("cell from byte", BYTE):
                        probs.append(f"*dst receives {second!r}, it must receive C::from_u8(byte) - the whole cell" if second is not PTR else "nothing is stored to *dst")
                    if r is not False:
                        probs.append(f"returns {r!r} after a successful read, the machine code treats true as failure")
                else:
                    if second is not PTR:
                        probs.append("a value is stored although no byte was delivered")
                    if r is not True:
                        probs.append(f"returns {r!r} when the context delivers nothing: the failure is swallowed")
            elif fname == "hpbf_context_output":
                if log != [("output", ("low byte of", VAL))]:
                    probs.append(f"the context receives {log!r}, expected one output of value.into_u8()")
                if r is not (scenario == "none"):
                    probs.append(f"returns {r!r} when the context reports {'success' if scenario == 'some' else 'failure'}")
            else:
                if log != [("make_accessible", -5, 9)]:
                    probs.append(f"forwards {log!r}, expected make_accessible(min, max)")
        except Missing as m_:
            probs.append(f"anchor missing (fail closed): {m_}")
        except (_Un, _Re, KeyError, TypeError, IndexError, AttributeError) as u_:
            probs.append(f"cannot be analysed (fail closed): {u_}")
        res.evaluations += 1
        try:
            w_ = where(BASEJIT, ast.fn(BASEJIT, fname)["node"], fname)
        except Missing:
            w_ = BASEJIT
        res.check(not probs, "SHIM-EFFECT", f"{BASEJIT}|{fname}|{scenario}", w_, f"{fname} ({'byte delivered / accepted' if scenario == 'some' else 'nothing delivered / refused' if scenario == 'none' else 'forwarding'}): " + "; ".join(probs[:2]))
