"""RecInterp: itereval plus mutable records (`self` and struct values as Python dicts with field read/write), methods of `self`
followed into the functions of the same file.  Used to evaluate small bookkeeping methods (live-range records, value-number
tables) over *order classes* of their integer inputs: every combination of "before / at / after the threshold" is enumerated,
the concrete numbers only stand for those classes."""
from common import strip_paren, path_name
from rusteval import Env, Unanalysable, ReturnEx, Opt, UNIT, NONE, Some
import itereval


class Rec(dict):
    def __repr__(self):
        return "{" + ", ".join(f"{k}: {v!r}" for k, v in self.items()) + "}"

    __hash__ = object.__hash__


class Variant:
    """a struct-like enum value: `Path::Name { field: value, .. }`"""
    def __init__(self, name, fields):
        self.name, self.fields = name, Rec(fields)

    def __repr__(self):
        return f"{self.name} {self.fields!r}"


class MapV(dict):
    """a map / set (HashMap, HashSet, BTreeMap) keyed by hashable abstract values"""
    __hash__ = object.__hash__


class EntryV:
    """map.entry(k)"""
    def __init__(self, m, k):
        self.m, self.k = m, k


class LogList(list):
    """a list that reports every push to a shared event log"""
    def __init__(self, items, log, name):
        super().__init__(items)
        self.log, self.name = log, name

    def append(self, v):
        self.log.append((self.name, v))
        super().append(v)


class LogMap(MapV):
    def __init__(self, items, log, name):
        super().__init__(items)
        self.log, self.name = log, name

    def __setitem__(self, k, v):
        self.log.append((self.name, k, v))
        super().__setitem__(k, v)


class RecInterp(itereval.IterInterp):
    def __init__(self, ast, path, self_rec, scripted=None):
        super().__init__()
        self.ast, self.path, self.self_rec = ast, path, self_rec
        self.fns = {}
        for f in ast.find_fns(path):
            if f["node"].get("body") is not None and "mod tests" not in f["container"]:
                self.fns.setdefault(f["name"], []).append(f["node"])
        self.scripted = scripted or {}
        self.calls = []

    def eval(self, e, env):
        if e.get("t") == "PathExpr" and e["path"]["name"] == "self":
            return self.self_rec
        if e.get("t") == "Index" and strip_paren(e["index"]).get("t") == "Range":
            return self.eval_range_index(e, env)
        if e.get("t") == "ForLoop" and not e.get("__keys"):
            it_ = self.eval(e["expr"], env)
            if isinstance(it_, MapV):
                it_ = list(it_.keys())
            scope = env.child()
            scope.bind("__iter", it_)
            e2 = dict(e)
            e2["__keys"] = True
            e2["expr"] = {"t": "PathExpr", "qself": None, "sp": e["expr"].get("sp"),
                          "path": {"t": "Path", "global": False, "name": "__iter", "s": "__iter", "sp": e["expr"].get("sp"), "segs": [{"id": "__iter", "args": None}]}}
            return super().eval(e2, scope)
        if e.get("t") == "MethodCall":
            recv = self.eval(e["receiver"], env)
            if recv is self.self_rec:
                name = e["method"]
                args = [self.eval(a, env) for a in e["args"]]
                self.calls.append((name, tuple(args)))
                if name in self.scripted:
                    return self.scripted[name](self, *args)
                if name in self.fns and len(self.fns[name]) == 1:
                    return self.call_method(self.fns[name][0], args)
                raise Unanalysable(f"self.{name}() is not a function of {self.path}")
            if isinstance(recv, Rec) and recv is not self.self_rec and e["method"] in self.fns and len(self.fns[e["method"]]) == 1 \
                    and self.fns[e["method"]][0]["sig"]["inputs"] and self.fns[e["method"]][0]["sig"]["inputs"][0]["t"] == "Receiver":
                # a method of the file called on another record: that record is `self` inside it
                args = [self.eval(a, env) for a in e["args"]]
                saved = self.self_rec
                self.self_rec = recv
                try:
                    return self.call_method(self.fns[e["method"]][0], args)
                finally:
                    self.self_rec = saved
            if isinstance(recv, Opt) and e["method"] in ("get_or_insert", "get_or_insert_with", "insert", "take", "replace"):
                # methods that change the Option in place: the receiver is a place and gets the new value
                args = [self.eval(a, env) for a in e["args"]]
                m = e["method"]
                place = strip_paren(e["receiver"])
                while place.get("t") == "Reference":
                    place = strip_paren(place["expr"])
                if m in ("get_or_insert", "get_or_insert_with"):
                    if recv.some:
                        return recv.v
                    v = args[0] if m == "get_or_insert" else self.apply(args[0], [])
                    self.assign_place(place, Some(v), env, e)
                    return v
                if m == "insert":
                    self.assign_place(place, Some(args[0]), env, e)
                    return args[0]
                if m == "take":
                    self.assign_place(place, NONE, env, e)
                    return recv
                if m == "replace":
                    self.assign_place(place, Some(args[0]), env, e)
                    return recv
            if isinstance(recv, list) and e["method"] in ("get", "first", "last", "skip", "take"):
                args = [self.eval(a, env) for a in e["args"]]
                m = e["method"]
                if m == "get" and len(args) == 1 and isinstance(args[0], int):
                    return Some(recv[args[0]]) if 0 <= args[0] < len(recv) else NONE
                if m == "first":
                    return Some(recv[0]) if recv else NONE
                if m == "last":
                    return Some(recv[-1]) if recv else NONE
                if m == "skip" and isinstance(args[0], int):
                    return recv[args[0]:]
                if m == "take" and isinstance(args[0], int):
                    return recv[:args[0]]
            if isinstance(recv, Opt) and e["method"] in ("is_none", "is_some", "unwrap", "is_some_and", "is_none_or", "map_or", "unwrap_or"):
                args = [self.eval(a, env) for a in e["args"]]
                m = e["method"]
                if m == "is_none":
                    return not recv.some
                if m == "is_some":
                    return recv.some
                if m == "unwrap":
                    if not recv.some:
                        from rusteval import Reached
                        raise Reached("unwrap() on None", e)
                    return recv.v
                if m == "is_some_and":
                    return recv.some and self.apply(args[0], [recv.v]) is True
                if m == "is_none_or":
                    return (not recv.some) or self.apply(args[0], [recv.v]) is True
                if m == "map_or":
                    return self.apply(args[1], [recv.v]) if recv.some else args[0]
                if m == "unwrap_or":
                    return recv.v if recv.some else args[0]
            # hand the call on with the receiver already evaluated (evaluating it a second time would repeat its effects)
            scope = env.child()
            scope.bind("__recv", recv)
            e2 = dict(e)
            e2["receiver"] = {"t": "PathExpr", "qself": None, "sp": e["receiver"].get("sp"),
                              "path": {"t": "Path", "global": False, "name": "__recv", "s": "__recv", "sp": e["receiver"].get("sp"), "segs": [{"id": "__recv", "args": None}]}}
            return super().eval(e2, scope)
        return super().eval(e, env)

    def struct_expr(self, name, fields, node):
        return Rec(fields)

    MUTATORS = ("insert", "push", "remove", "pop", "clear", "extend", "push_str", "retain", "drain", "swap_remove", "take", "replace", "entry",
                "or_default", "or_insert", "or_insert_with", "get_or_insert", "get_or_insert_with", "truncate", "resize", "append", "sort", "dedup")

    def macro(self, name, mac, env, node):
        base = name.split("::")[-1]
        if base in ("debug_assert", "debug_assert_eq", "debug_assert_ne"):
            # not evaluated in release builds: a condition that changes state makes the two profiles differ
            from common import walk
            for a_ in mac.get("args") or []:
                for n_ in walk(a_):
                    if n_.get("t") == "MethodCall" and n_["method"] in self.MUTATORS:
                        from rusteval import Reached
                        raise Reached(f"`.{n_['method']}(..)` inside {base}!: the effect does not happen in release builds", node)
                    if n_.get("t") in ("Assign",) or (n_.get("t") == "Binary" and n_["op"].endswith("=") and n_["op"] not in ("==", "!=", "<=", ">=")):
                        from rusteval import Reached
                        raise Reached(f"assignment inside {base}!: the effect does not happen in release builds", node)
            if mac.get("args") is None:
                raise Unanalysable(f"{base}! with arguments that cannot be parsed")
            return UNIT
        if base in ("assert", "assert_eq", "assert_ne"):
            args = mac.get("args")
            if args is None:
                raise Unanalysable(f"{base}! with arguments that cannot be parsed")
            try:
                if base == "assert":
                    ok = self.cond(args[0], env)
                else:
                    eq = self.equal(self.eval(args[0], env), self.eval(args[1], env), node)
                    ok = eq if base == "assert_eq" else not eq
            except Unanalysable:
                return UNIT          # a check the domain cannot decide: no effect on the state either way
            if not ok:
                from rusteval import Reached
                raise Reached(f"{base}! fails", node)
            return UNIT
        return super().macro(name, mac, env, node)

    def call_method(self, fn, args):
        env = Env()
        ps = [p_ for p_ in fn["sig"]["inputs"] if p_["t"] == "Arg"]
        if len(ps) != len(args):
            raise Unanalysable("arity")
        for p_, a_ in zip(ps, args):
            if not self.match(p_["pat"], a_, env):
                raise Unanalysable("parameter pattern")
        self.depth += 1
        if self.depth > 6:
            raise Unanalysable("recursion")
        try:
            return self.exec_block(fn["body"], env)
        except ReturnEx as r:
            return r.value
        finally:
            self.depth -= 1

    def field(self, base, member, node):
        if isinstance(base, Rec):
            if member not in base:
                raise Unanalysable(f"field .{member} of a record the rule did not provide")
            return base[member]
        return super().field(base, member, node)

    def assign_place(self, place, value, env, node):
        pl = strip_paren(place)
        if pl["t"] == "Field":
            base = self.eval(pl["base"], env)
            if isinstance(base, Rec):
                base[pl["member"]] = value
                return
            raise Unanalysable("assignment to a field of something that is not a record")
        super().assign_place(place, value, env, node)

    def call(self, name, targs, args, node):
        if name == "Some" and len(args) == 1:
            return Some(args[0])
        if name.split("::<")[0] in self.scripted:
            self.calls.append((name.split("::<")[0], tuple(args)))
            return self.scripted[name.split("::<")[0]](self, *args)
        base = name.split("::<")[0]
        if base.split("::")[-1] in ("min", "max") and len(args) == 2 and all(isinstance(a_, int) and not isinstance(a_, bool) for a_ in args) and \
                (len(base.split("::")) == 1 or base.split("::")[-2] in ("isize", "usize", "i64", "u64", "i32", "u32", "cmp", "Ord")):
            return min(args) if base.endswith("min") else max(args)
        if base.startswith("Self::") and base.count("::") == 1 and base[6:] in self.fns and len(self.fns[base[6:]]) == 1:
            fn_ = self.fns[base[6:]][0]
            if not (fn_["sig"]["inputs"] and fn_["sig"]["inputs"][0]["t"] == "Receiver"):
                return self.call_method(fn_, args)
        if base.split("::")[-1] in ("new", "with_capacity", "default") and len(base.split("::")) >= 2:
            ty = base.split("::")[-2]
            if ty in ("Vec", "SmallVec", "VecDeque"):
                return []
            if ty in ("HashMap", "HashSet", "BTreeMap", "BTreeSet"):
                return MapV()
        last = name.split("::<")[0].split("::")[-1]
        if "::" in name and last[:1].isupper():
            return itereval.Ctor(name.split("::<")[0], args)         # an enum constructor
        return super().call(name, targs, args, node)

    def path_value(self, name, node):
        if name == "None":
            return NONE
        import re as _re
        m_ = _re.fullmatch(r"(?:std::|core::)?([ui])(8|16|32|64|128|size)::(BITS|MAX|MIN)", name)
        if m_:
            bits = 64 if m_.group(2) == "size" else int(m_.group(2))
            signed = m_.group(1) == "i"
            return {"BITS": bits, "MAX": (1 << (bits - 1 if signed else bits)) - 1, "MIN": -(1 << (bits - 1)) if signed else 0}[m_.group(3)]
        last = name.split("::")[-1]
        if "::" in name and last[:1].isupper():
            return itereval.Ctor(name, [])
        return super().path_value(name, node)

    def match(self, pat, val, env):
        if pat["t"] == "PStruct":
            if not isinstance(val, Variant):
                raise Unanalysable(f"struct pattern against {val!r}")
            if pat["path"]["name"].split("::")[-1] != val.name.split("::")[-1]:
                return False
            for f_ in pat["fields"]:
                if f_["member"] not in val.fields:
                    raise Unanalysable(f"field {f_['member']} of {val.name}")
                if not self.match(f_["pat"], val.fields[f_["member"]], env):
                    return False
            return True
        return super().match(pat, val, env)

    def equal(self, a, b, node):
        if isinstance(a, bool) or isinstance(b, bool):
            return a is b
        return super().equal(a, b, node)

    def method(self, recv, name, targs, args, node):
        if isinstance(recv, int) and not isinstance(recv, bool) and name in ("min", "max") and len(args) == 1 and isinstance(args[0], int):
            return min(recv, args[0]) if name == "min" else max(recv, args[0])
        if isinstance(recv, MapV) and name == "entry" and len(args) == 1:
            return EntryV(recv, args[0])
        if isinstance(recv, EntryV):
            if name in ("or_default", "or_insert", "or_insert_with"):
                if recv.k not in recv.m:
                    recv.m[recv.k] = MapV() if name == "or_default" else args[0] if name == "or_insert" else self.apply(args[0], [])
                return recv.m[recv.k]
            raise Unanalysable(f"entry .{name}()")
        if isinstance(recv, MapV):
            if name in ("remove", "insert", "clear", "get", "contains_key", "contains", "len", "is_empty", "retain"):
                if name == "remove":
                    return Some(recv.pop(args[0])) if args[0] in recv else NONE
                if name == "insert":
                    old = recv.get(args[0])
                    recv[args[0]] = args[1] if len(args) > 1 else True
                    return NONE if old is None else Some(old)
                if name == "clear":
                    recv.clear()
                    return UNIT
                if name == "get":
                    return Some(recv[args[0]]) if args[0] in recv else NONE
                if name in ("contains_key", "contains"):
                    return args[0] in recv
                if name == "len":
                    return len(recv)
                if name == "is_empty":
                    return not recv
                if name == "retain":
                    from rusteval import Tup
                    for k in list(recv):
                        keep = self.apply(args[0], [k, recv[k]]) if len(args[0].node["inputs"]) == 2 else self.apply(args[0], [k])
                        if keep is not True:
                            del recv[k]
                    return UNIT
            if name in ("iter", "keys"):
                return list(recv.keys())
        if isinstance(recv, list) and name == "swap_remove" and isinstance(args[0], int):
            v = recv[args[0]]
            recv[args[0]] = recv[-1]
            recv.pop()
            return v
        if isinstance(recv, list) and name == "drain":
            if isinstance(args[0], list):
                out = list(args[0])
                raise Unanalysable("drain")
        return super().method(recv, name, targs, args, node)

    def index(self, base, idx, node):
        if isinstance(base, list) and isinstance(idx, list):
            # a range index: xs[a..b] evaluated as the list of positions
            return [base[i] for i in idx]
        if isinstance(base, list) and isinstance(idx, int) and not isinstance(idx, bool):
            if not 0 <= idx < len(base):
                from rusteval import Reached
                raise Reached(f"index {idx} out of bounds (len {len(base)})", node)
            return base[idx]
        return super().index(base, idx, node)

    def eval_range_index(self, e, env):
        """`xs[a..]`, `xs[..b]`, `xs[a..b]`"""
        base = self.eval(e["expr"], env)
        r = strip_paren(e["index"])
        if not isinstance(base, list):
            raise Unanalysable("range index on a non-list")
        lo = self.eval(r["start"], env) if r.get("start") else 0
        hi = self.eval(r["end"], env) if r.get("end") else len(base)
        if not isinstance(lo, int) or not isinstance(hi, int):
            raise Unanalysable("range bounds")
        if r.get("closed"):
            hi += 1
        if not 0 <= lo <= hi <= len(base):
            from rusteval import Reached
            raise Reached(f"range {lo}..{hi} out of bounds (len {len(base)})", e)
        return base[lo:hi]
