"""Pointer-movement protocol of the bytecode interpreter and the window/probe rules shared by
C02, C06 and C10.

PROBE-DIR    left-moving ops probe the lower window edge (checkl -> min_accessed), right-moving ops
             the upper (checkr -> max_accessed); the probe is applied to the already moved pointer
             and its result replaces `mem`.
UNSAFE-TWIN  the SAFE and !SAFE variants of scanl/scanr/movl/movr differ only by the probe: same
             shift operand, same (shared) loop condition.
WIN-ENTRY    every entry into unchecked straight-line code, and every re-establishment after a probe
             miss, calls make_accessible(min_accessed, max_accessed + 1) on the same context.
BC-BRANCH    brz / brnz take the branch on zero / non-zero of the condition cell.
SAFE-MAP     execute / execute_limited / execute_unsafe select (limited, safe) as documented
             (iolim.run_mode_map).
"""
from common import *

OPS = "src/exec/bcint/ops.rs"
BCMOD = "src/exec/bcint/mod.rs"
BASEJIT = "src/exec/basejit/mod.rs"
LLVM = "src/exec/llvmjit.rs"


def T(ast, path, n, limit=400):
    return ast.src1(path, n, limit).replace(" ", "")


def run_moves(res, ast, rules=("PROBE-DIR", "UNSAFE-TWIN", "WIN-ENTRY", "BC-BRANCH")):
    res.files.add(OPS)
    if "PROBE-DIR" in rules:
        res.rule("PROBE-DIR", "scanl/movl probe with checkl (lower edge, min_accessed), scanr/movr with checkr (upper edge, "
                 "max_accessed); the probe sees the moved pointer and its result becomes the tape pointer", floor=6, what="probe sites")
    if "UNSAFE-TWIN" in rules:
        res.rule("UNSAFE-TWIN", "scanl/scanr/movl/movr evaluated in both modes (pointers as entry + offset, loops by affine induction): the same cells are "
                 "tested (entry + cond + k*shift), the same pointer is handed on (entry + K*shift, resp. entry + shift), no stale pointer is used after a "
                 "probe; the unchecked mode performs no probe", floor=4, what="ops")
    if "WIN-ENTRY" in rules:
        res.rule("WIN-ENTRY", "enter_ops, checkl, checkr, enter_jit_code (and the LLVM twin) call "
                 "make_accessible(min_accessed, max_accessed + 1) before unchecked code runs", floor=4, what="entry sites")
    if "BC-BRANCH" in rules:
        res.rule("BC-BRANCH", "brz branches iff the condition cell is zero, brnz iff it is non-zero; the untaken side falls "
                 "through to the next op", floor=2, what="branch ops")
    # ---- movers: abstract evaluation with affine induction (lib/scanops.py)
    import pm
    import scanops
    scanops.run_scan_effect(res, ast, OPS, rules=tuple(r for r in ("UNSAFE-TWIN", "PROBE-DIR") if r in rules))
    # ---- checkers
    for name, edge in (("checkl", "min_accessed"), ("checkr", "max_accessed")):
        try:
            fn = ast.fn(OPS, name)["node"]
        except Missing as m:
            if "PROBE-DIR" in rules:
                res.missing("PROBE-DIR", m)
            continue
        w = where(OPS, fn, name)
        pat = ("if !(*__v_cxt).context.memory.check_ptr(__v_mem.wrapping_offset((*__v_cxt).__v_edge)) { "
               "(*__v_cxt).context.memory.set_current_ptr(__v_mem); "
               "(*__v_cxt).context.memory.make_accessible((*__v_cxt).min_accessed, (*__v_cxt).max_accessed + 1); "
               "(*__v_cxt).context.memory.current_ptr() } else { __v_mem }")
        b_ = pm.match_stmts(fn["body"]["stmts"], pat)
        if "PROBE-DIR" in rules:
            res.check(b_ is not None and b_.get("__v_edge") == edge, "PROBE-DIR", f"{OPS}|{name}|edge", w,
                      f"{name} must test `!check_ptr(mem.wrapping_offset((*cxt).{edge}))` and return `mem` unchanged on a hit; probes `{b_.get('__v_edge') if b_ else '?'}`")
        if "WIN-ENTRY" in rules:
            res.check(b_ is not None, "WIN-ENTRY", f"{OPS}|{name}|reestablish", w,
                      f"{name}: on a miss it must set_current_ptr(mem), make_accessible(min_accessed, max_accessed + 1) and return current_ptr()")
    # ---- entries
    if "WIN-ENTRY" in rules:
        try:
            fn = ast.fn(OPS, "enter_ops")["node"]
            hit = pm.find_expr(fn["body"], "(*__v_cxt).context.memory.make_accessible((*__v_cxt).min_accessed, (*__v_cxt).max_accessed + 1)")
            res.check(len(hit) == 1, "WIN-ENTRY", f"{OPS}|enter_ops", where(OPS, fn, "enter_ops"), "enter_ops must make [min_accessed, max_accessed] accessible before entering the ops")
        except Missing as m:
            res.missing("WIN-ENTRY", m)
        for path, ty in ((BASEJIT, "BaseJitCompiler"), (LLVM, "LlvmJitCompiler")):
            if not ast.has(path):
                continue
            res.files.add(path)
            try:
                fn = ast.fn(path, "enter_jit_code")["node"]
                calls = [m for m in walk_t(fn["body"], "MethodCall") if m["method"] == "make_accessible"]
                ok = False
                if len(calls) == 1:
                    a0, a1 = [T(ast, path, a) for a in calls[0]["args"]]
                    ok = a0 in ("self.bytecode.min_accessed", "self.min_accessed") and a1 in ("self.bytecode.max_accessed+1", "self.max_accessed+1")
                    # before the entry call
                    entry = [c for c in walk_t(fn["body"], "Call") if path_name(c["func"]) in ("entry",)] + \
                            [m for m in walk_t(fn["body"], "MethodCall") if m["method"] in ("call",)]
                    ok = ok and all(before(calls[0], e) for e in entry)
                res.check(ok, "WIN-ENTRY", f"{path}|enter_jit_code", where(path, fn, "enter_jit_code"),
                          f"{ty}::enter_jit_code must call make_accessible(min_accessed, max_accessed + 1) before entering the machine code")
            except Missing as m:
                res.missing("WIN-ENTRY", m)
    # ---- branches
    if "BC-BRANCH" in rules:
        for name, op in (("brz", "=="), ("brnz", "!=")):
            try:
                fn = ast.fn(OPS, name)["node"]
            except Missing as m:
                res.missing("BC-BRANCH", m)
                continue
            pat = ("let __v_cond = (*__v_ip.add(1)).off; if *__v_mem.offset(__v_cond) " + op + " C::ZERO { let __v_off = (*__v_ip.add(2)).off; "
                   "noop(__v_cxt, __v_mem, __v_ip.offset(__v_off), __v_r0, __v_r1) } else { noop(__v_cxt, __v_mem, __v_ip.add(3), __v_r0, __v_r1) }")
            ok = pm.match_stmts(fn["body"]["stmts"], pat) is not None
            res.check(ok, "BC-BRANCH", f"{OPS}|{name}|polarity", where(OPS, fn, name),
                      f"{name} must jump (ip.offset(off)) exactly when `*mem.offset(cond) {op} C::ZERO` and fall through to ip.add(3) otherwise")


# ----------------------------------------------------------------------------- PREALLOC-PAIR (C10)

def run_prealloc(res, ast):
    res.rule("PREALLOC-PAIR", "every call of Executable::execute_unsafe is preceded, in the same function, by "
             "memory.make_accessible on the same context; executors without unchecked code inherit execute_unsafe = execute",
             floor=2, what="call sites and defaults")
    n = 0
    for path in sorted(ast.files):
        if not path.startswith("src/") or path.endswith("testdef.rs"):
            continue
        for f in ast.find_fns(path):
            if is_test_item(f) or not f["node"].get("body"):
                continue
            calls = [m for m in walk_t(f["node"]["body"], "MethodCall") if m["method"] == "execute_unsafe"]
            for c in calls:
                n += 1
                ctxarg = T(ast, path, c["args"][0]) if c["args"] else ""
                cname = ctxarg.replace("&mut", "")
                pre = [m for m in walk_t(f["node"]["body"], "MethodCall") if m["method"] == "make_accessible" and before(m, c)
                       and T(ast, path, m["receiver"]).startswith(cname + ".memory")]
                # the default trait method forwards to execute (no unchecked code)
                res.check(bool(pre), "PREALLOC-PAIR", f"{path}|{f['name']}|execute_unsafe", where(path, c, f["name"]),
                          f"{f['name']}: execute_unsafe({ctxarg}) is not preceded by {cname}.memory.make_accessible(..) in this function")
                # the requested range must be a real one around the start cell: make_accessible(start, end) with start <= 0 < end
                for m_ in pre:
                    if len(m_["args"]) == 2:
                        lo, hi = int_lit(m_["args"][0]), int_lit(m_["args"][1])
                        if lo is not None and hi is not None:
                            res.check(lo <= 0 < hi, "PREALLOC-PAIR", f"{path}|{f['name']}|range", where(path, m_, f["name"]),
                                      f"{f['name']}: the region pre-allocated for unchecked execution is [{lo}, {hi}): it must be a non-empty range around the start cell "
                                      "(start <= 0 < end); swapped or same-signed bounds allocate nothing")
                res.files.add(path)
    # default method
    try:
        tr = ast.item("src/exec/mod.rs", "Trait", "Executable")
        d = [x for x in tr["items"] if x["name"] == "execute_unsafe"]
        ok = len(d) == 1 and d[0].get("body") is not None and T(ast, "src/exec/mod.rs", d[0]["body"]) == "{self.execute(context)}" and d[0]["sig"]["unsafe"]
        res.check(ok, "PREALLOC-PAIR", "src/exec/mod.rs|Executable::execute_unsafe|default", where("src/exec/mod.rs", tr, "trait Executable"),
                  "the default execute_unsafe must be `unsafe fn` forwarding to the checked execute")
    except Missing as m:
        res.missing("PREALLOC-PAIR", m)
    if n == 0:
        res.bad("PREALLOC-PAIR", "no-call-sites", "-", "no execute_unsafe call site found (anchor moved)")
