"""Pointer-movement protocol of the bytecode interpreter and the window/probe rules shared by
C02, C06 and C10.

PROBE-DIR    left-moving ops probe the lower window edge (checkl -> min_accessed), right-moving ops
             the upper (checkr -> max_accessed); the probe is applied to the already moved pointer
             and its result replaces `mem`.
UNSAFE-TWIN  the SAFE and !SAFE variants of scanl/scanr/movl/movr differ only by the probe: same
             shift operand, same (shared) loop condition.
WIN-ENTRY    every entry into unchecked straight-line code, and every re-establishment after a probe
             miss, calls make_accessible(min_accessed, max_accessed + 1) on the same context.
BC-BRANCH    brz / brnz take the branch on zero / non-zero of the condition cell.
SAFE-MAP     execute / execute_limited / execute_unsafe select (limited, safe) as documented
             (iolim.run_mode_map).
"""
from common import *

OPS = "src/exec/bcint/ops.rs"
BCMOD = "src/exec/bcint/mod.rs"
BASEJIT = "src/exec/basejit/mod.rs"
LLVM = "src/exec/llvmjit.rs"


def T(ast, path, n, limit=400):
    return ast.src1(path, n, limit).replace(" ", "")


def run_moves(res, ast, rules=("PROBE-DIR", "UNSAFE-TWIN", "WIN-ENTRY", "BC-BRANCH")):
    res.files.add(OPS)
    if "PROBE-DIR" in rules:
        res.rule("PROBE-DIR", "scanl/movl probe with checkl (lower edge, min_accessed), scanr/movr with checkr (upper edge, "
                 "max_accessed); the probe sees the moved pointer and its result becomes the tape pointer", floor=6, what="probe sites")
    if "UNSAFE-TWIN" in rules:
        res.rule("UNSAFE-TWIN", "in scanl/scanr/movl/movr the unchecked variant is the checked one minus the probe: one "
                 "shared loop condition, the same shift word, `mem.offset(shift)` instead of `check?(cxt, mem.wrapping_offset(shift))`",
                 floor=4, what="ops")
    if "WIN-ENTRY" in rules:
        res.rule("WIN-ENTRY", "enter_ops, checkl, checkr, enter_jit_code (and the LLVM twin) call "
                 "make_accessible(min_accessed, max_accessed + 1) before unchecked code runs", floor=4, what="entry sites")
    if "BC-BRANCH" in rules:
        res.rule("BC-BRANCH", "brz branches iff the condition cell is zero, brnz iff it is non-zero; the untaken side falls "
                 "through to the next op", floor=2, what="branch ops")
    # ---- movers
    for name, chk, looped in (("scanl", "checkl", True), ("scanr", "checkr", True), ("movl", "checkl", False), ("movr", "checkr", False)):
        try:
            fn = ast.fn(OPS, name)["node"]
        except Missing as m:
            for r in ("PROBE-DIR", "UNSAFE-TWIN"):
                if r in rules:
                    res.missing(r, m)
            continue
        w = where(OPS, fn, name)
        body = fn["body"]
        st = body["stmts"]
        lets = {l["pat"]["name"]: T(ast, OPS, l["init"]) for l in st if l["t"] == "Local" and l["pat"]["t"] == "PIdent" and l["init"] is not None}
        shift_word = 2 if looped else 1
        errs_twin, errs_dir = [], []
        if lets.get("shift") != f"(*ip.add({shift_word})).off":
            errs_twin.append(f"`shift` is not word {shift_word} of the op")
        if looped and lets.get("cond") != "(*ip.add(1)).off":
            errs_twin.append("`cond` is not word 1 of the op")
        ctl = [s["expr"] for s in st if s["t"] == "ExprStmt" and s["expr"]["t"] in ("While", "If", "Loop", "ForLoop")]
        mover = None
        if looped:
            if len(ctl) != 1 or ctl[0]["t"] != "While":
                errs_twin.append("the op is not a single `while` around the move (checked and unchecked variants must share the loop)")
            else:
                c = T(ast, OPS, ctl[0]["cond"])
                if c != "*mem.offset(cond)!=C::ZERO":
                    errs_twin.append(f"loop condition is `{c}`, expected `*mem.offset(cond) != C::ZERO` tested before every move")
                inner = ctl[0]["body"]["stmts"]
                if len(inner) == 1 and inner[0]["t"] == "ExprStmt" and inner[0]["expr"]["t"] == "If":
                    mover = inner[0]["expr"]
                else:
                    errs_twin.append("loop body is not the single `if SAFE { probe } else { move }`")
        else:
            if len(ctl) != 1 or ctl[0]["t"] != "If":
                errs_twin.append("the op is not a single `if SAFE { probe } else { move }`")
            else:
                mover = ctl[0]
        if mover is not None:
            if T(ast, OPS, mover["cond"]) != "SAFE" or mover["else"] is None:
                errs_twin.append("the probe is not selected by `if SAFE {..} else {..}`")
            else:
                t1 = T(ast, OPS, mover["then"])
                t2 = T(ast, OPS, mover["else"])
                want_unsafe = "{mem=mem.offset(shift);}"
                if t2 != want_unsafe:
                    errs_twin.append(f"unchecked branch is `{t2}`, expected `{want_unsafe}`")
                okp = False
                for c in ("checkl", "checkr"):
                    if t1 == "{mem=%s(cxt,mem.wrapping_offset(shift));}" % c:
                        okp = True
                        if c != chk:
                            errs_dir.append(f"{name} moves {'left' if chk == 'checkl' else 'right'} but probes with {c}")
                if not okp:
                    errs_dir.append(f"checked branch is `{t1}`, expected `mem = {chk}(cxt, mem.wrapping_offset(shift));` (probe of the moved pointer, result kept)")
        # nothing else assigns mem
        others = [a for a in walk_t(body, "Assign") if path_name(a["left"]) == "mem" and (mover is None or not any(x is a for x in walk(mover)))]
        if others:
            errs_twin.append("the tape pointer is assigned outside the SAFE/!SAFE pair")
        if "UNSAFE-TWIN" in rules:
            res.check(not errs_twin, "UNSAFE-TWIN", f"{OPS}|{name}|twin", w, f"{name}: " + "; ".join(errs_twin))
        if "PROBE-DIR" in rules:
            res.check(not errs_dir and not [e for e in errs_twin if "probe" in e], "PROBE-DIR", f"{OPS}|{name}|probe", w, f"{name}: " + "; ".join(errs_dir or errs_twin))
    # ---- checkers
    for name, edge in (("checkl", "min_accessed"), ("checkr", "max_accessed")):
        try:
            fn = ast.fn(OPS, name)["node"]
        except Missing as m:
            if "PROBE-DIR" in rules:
                res.missing("PROBE-DIR", m)
            continue
        w = where(OPS, fn, name)
        st = fn["body"]["stmts"]
        e = st[0]["expr"] if len(st) == 1 and st[0]["t"] == "ExprStmt" and st[0]["expr"]["t"] == "If" else None
        ok = False
        win = False
        if e is not None:
            c = T(ast, OPS, e["cond"], 300)
            ok = c == f"!(*cxt).context.memory.check_ptr(mem.wrapping_offset((*cxt).{edge}))"
            tt = T(ast, OPS, e["then"], 600)
            win = ("(*cxt).context.memory.set_current_ptr(mem);" in tt
                   and "(*cxt).context.memory.make_accessible((*cxt).min_accessed,(*cxt).max_accessed+1);" in tt
                   and tt.rstrip("}").endswith("(*cxt).context.memory.current_ptr()")
                   and tt.index("set_current_ptr") < tt.index("make_accessible") < tt.rindex("current_ptr()"))
            ok = ok and e["else"] is not None and T(ast, OPS, e["else"]) == "{mem}"
        if "PROBE-DIR" in rules:
            res.check(ok, "PROBE-DIR", f"{OPS}|{name}|edge", w, f"{name} must test `!check_ptr(mem.wrapping_offset((*cxt).{edge}))` and return `mem` unchanged on a hit")
        if "WIN-ENTRY" in rules:
            res.check(win, "WIN-ENTRY", f"{OPS}|{name}|reestablish", w,
                      f"{name}: on a miss it must set_current_ptr(mem), make_accessible(min_accessed, max_accessed + 1) and return current_ptr()")
    # ---- entries
    if "WIN-ENTRY" in rules:
        try:
            fn = ast.fn(OPS, "enter_ops")["node"]
            t = T(ast, OPS, fn["body"], 800)
            res.check("(*cxt).context.memory.make_accessible((*cxt).min_accessed,(*cxt).max_accessed+1);" in t, "WIN-ENTRY",
                      f"{OPS}|enter_ops", where(OPS, fn, "enter_ops"), "enter_ops must make [min_accessed, max_accessed] accessible before entering the ops")
        except Missing as m:
            res.missing("WIN-ENTRY", m)
        for path, ty in ((BASEJIT, "BaseJitCompiler"), (LLVM, "LlvmJitCompiler")):
            if not ast.has(path):
                continue
            res.files.add(path)
            try:
                fn = ast.fn(path, "enter_jit_code")["node"]
                calls = [m for m in walk_t(fn["body"], "MethodCall") if m["method"] == "make_accessible"]
                ok = False
                if len(calls) == 1:
                    a0, a1 = [T(ast, path, a) for a in calls[0]["args"]]
                    ok = a0 in ("self.bytecode.min_accessed", "self.min_accessed") and a1 in ("self.bytecode.max_accessed+1", "self.max_accessed+1")
                    # before the entry call
                    entry = [c for c in walk_t(fn["body"], "Call") if path_name(c["func"]) in ("entry",)] + \
                            [m for m in walk_t(fn["body"], "MethodCall") if m["method"] in ("call",)]
                    ok = ok and all(calls[0]["sp"][0] < e["sp"][0] for e in entry)
                res.check(ok, "WIN-ENTRY", f"{path}|enter_jit_code", where(path, fn, "enter_jit_code"),
                          f"{ty}::enter_jit_code must call make_accessible(min_accessed, max_accessed + 1) before entering the machine code")
            except Missing as m:
                res.missing("WIN-ENTRY", m)
    # ---- branches
    if "BC-BRANCH" in rules:
        for name, op in (("brz", "=="), ("brnz", "!=")):
            try:
                fn = ast.fn(OPS, name)["node"]
            except Missing as m:
                res.missing("BC-BRANCH", m)
                continue
            ifs = [s["expr"] for s in fn["body"]["stmts"] if s["t"] == "ExprStmt" and s["expr"]["t"] == "If"]
            ok = False
            if len(ifs) == 1 and ifs[0]["else"] is not None:
                c = T(ast, OPS, ifs[0]["cond"])
                thn = T(ast, OPS, ifs[0]["then"])
                els = T(ast, OPS, ifs[0]["else"])
                ok = c == f"*mem.offset(cond){op}C::ZERO" and "ip.offset(off)" in thn and "ip.add(3)" in els and "ip.offset" not in els
            res.check(ok, "BC-BRANCH", f"{OPS}|{name}|polarity", where(OPS, fn, name),
                      f"{name} must jump (ip.offset(off)) exactly when `*mem.offset(cond) {op} C::ZERO` and fall through to ip.add(3) otherwise")


# ----------------------------------------------------------------------------- PREALLOC-PAIR (C10)

def run_prealloc(res, ast):
    res.rule("PREALLOC-PAIR", "every call of Executable::execute_unsafe is preceded, in the same function, by "
             "memory.make_accessible on the same context; executors without unchecked code inherit execute_unsafe = execute",
             floor=2, what="call sites and defaults")
    n = 0
    for path in sorted(ast.files):
        if not path.startswith("src/") or path.endswith("testdef.rs"):
            continue
        for f in ast.find_fns(path):
            if is_test_item(f) or not f["node"].get("body"):
                continue
            calls = [m for m in walk_t(f["node"]["body"], "MethodCall") if m["method"] == "execute_unsafe"]
            for c in calls:
                n += 1
                ctxarg = T(ast, path, c["args"][0]) if c["args"] else ""
                cname = ctxarg.replace("&mut", "")
                pre = [m for m in walk_t(f["node"]["body"], "MethodCall") if m["method"] == "make_accessible" and m["sp"][0] < c["sp"][0]
                       and T(ast, path, m["receiver"]).startswith(cname + ".memory")]
                # the default trait method forwards to execute (no unchecked code)
                res.check(bool(pre), "PREALLOC-PAIR", f"{path}|{f['name']}|execute_unsafe", where(path, c, f["name"]),
                          f"{f['name']}: execute_unsafe({ctxarg}) is not preceded by {cname}.memory.make_accessible(..) in this function")
                res.files.add(path)
    # default method
    try:
        tr = ast.item("src/exec/mod.rs", "Trait", "Executable")
        d = [x for x in tr["items"] if x["name"] == "execute_unsafe"]
        ok = len(d) == 1 and d[0].get("body") is not None and T(ast, "src/exec/mod.rs", d[0]["body"]) == "{self.execute(context)}" and d[0]["sig"]["unsafe"]
        res.check(ok, "PREALLOC-PAIR", "src/exec/mod.rs|Executable::execute_unsafe|default", where("src/exec/mod.rs", tr, "trait Executable"),
                  "the default execute_unsafe must be `unsafe fn` forwarding to the checked execute")
    except Missing as m:
        res.missing("PREALLOC-PAIR", m)
    if n == 0:
        res.bad("PREALLOC-PAIR", "no-call-sites", "-", "no execute_unsafe call site found (anchor moved)")
