"""Engine E2: facts from the type-checked program (MIR, resolved callees, full types, layouts,
Freeze, const-evaluated associated constants), produced by tools/mirfacts - a rustc_private driver
run as RUSTC_WORKSPACE_WRAPPER under `cargo +nightly check` into a fresh temporary target
directory.  The crate is type-checked, never executed."""
import json, os, subprocess, tempfile, shutil, glob
from common import REPO, VERIF, CheckerError

DRIVER = os.path.join(VERIF, "target", "mirfacts", "release", "mirfacts")
_cache = {}


class Facts:
    def __init__(self, docs):
        self.docs = docs
        self.lib = [d for d in docs if "Rlib" in d["crate_types"] or "rlib" in str(d["crate_types"]).lower()]
        self.fns = {}
        for d in docs:
            kind = "lib" if d in self.lib else "bin:" + d["crate"]
            for f in d["functions"]:
                f["_unit"] = kind
                self.fns.setdefault((kind, f["name"]), f)

    def lib_doc(self):
        if len(self.lib) != 1:
            raise CheckerError(f"expected exactly one library crate in the facts, found {len(self.lib)}")
        return self.lib[0]

    def functions(self, unit="lib"):
        return [f for (u, n), f in self.fns.items() if u == unit]

    def all_functions(self):
        return list(self.fns.values())

    def fn(self, suffix, unit="lib"):
        """Function whose path ends with `suffix` (generic arguments stripped), exactly one."""
        r = [f for f in self.functions(unit) if strip_generics(f["name"]).endswith(suffix)]
        if len(r) != 1:
            from common import Missing
            raise Missing(f"MIR of function *{suffix}: found {len(r)}")
        return r[0]


def strip_generics(name):
    out, depth = [], 0
    i = 0
    while i < len(name):
        c = name[i]
        if c == "<" and name[i - 2:i] == "::" and depth == 0 and name[i + 1:i + 6] == "impl ":
            # `core::num::<impl u8>::wrapping_add`: part of the path, keep verbatim up to the matching `>`
            j = name.index(">", i)
            out.append(name[i:j + 1])
            i = j + 1
            continue
        if c == "<" and name[i - 2:i] == "::":
            # turbofish-like `::<C>`: drop it including the `::`
            depth += 1
            out = out[:-2]
        elif c == "<" and depth > 0:
            depth += 1
        elif c == ">" and depth > 0:
            depth -= 1
        elif depth == 0:
            out.append(c)
        i += 1
    return "".join(out)


def load_facts(root=None, release=False):
    root = root or REPO
    key = (root, release)
    if key in _cache:
        return _cache[key]
    if not os.path.exists(DRIVER):
        raise CheckerError(f"{DRIVER} not built; run the MANIFEST setup_cmd")
    sysroot = subprocess.run(["rustc", "+nightly", "--print", "sysroot"], capture_output=True, text=True).stdout.strip()
    tdir = tempfile.mkdtemp(prefix="hpbf-mir-")
    try:
        out = os.path.join(tdir, "out")
        os.makedirs(out)
        env = dict(os.environ, LD_LIBRARY_PATH=os.path.join(sysroot, "lib") + ":" + os.environ.get("LD_LIBRARY_PATH", ""),
                   MIRFACTS_OUT=out, RUSTFLAGS="-Zmir-opt-level=0 -Awarnings", RUSTC_WORKSPACE_WRAPPER=DRIVER,
                   CARGO_TARGET_DIR=os.path.join(tdir, "target"), CARGO_NET_OFFLINE="true")
        cmd = ["cargo", "+nightly", "check", "--offline", "--lib", "--bins", "--quiet"] + (["--release"] if release else [])
        p = subprocess.run(cmd, cwd=root, env=env, capture_output=True, text=True)
        files = sorted(glob.glob(os.path.join(out, "*.json")))
        if p.returncode != 0 or not files:
            raise CheckerError("type-checking /repo with the facts driver failed: " + p.stderr.strip()[-600:])
        docs = []
        for f in files:
            with open(f) as fh:
                docs.append(json.load(fh))
        fx = Facts(docs)
        fx.lib_doc()
        look_through_mir(fx)
        _cache[key] = fx
        return fx
    finally:
        shutil.rmtree(tdir, ignore_errors=True)


# ----------------------------------------------------------------------------- helper look-through (MIR inlining)

def _shift(node, loff, boff, ret_target, dest):
    """deep copy of a MIR JSON fragment with locals shifted by loff and block ids by boff"""
    if isinstance(node, list):
        return [_shift(x, loff, boff, ret_target, dest) for x in node]
    if not isinstance(node, dict):
        return node
    out = {}
    for k, v in node.items():
        if k == "local" and isinstance(v, int):
            out[k] = v + loff
        elif k in ("target", "otherwise") and isinstance(v, int) and node.get("k") in ("goto", "call", "assert", "switch", "drop", "tailcall"):
            out[k] = v + boff
        elif k == "targets" and node.get("k") == "switch":
            out[k] = [[x[0], x[1] + boff] for x in v]
        else:
            out[k] = _shift(v, loff, boff, ret_target, dest)
    return out


def inline_call(F, bi, G):
    """splice the body of G into F at the call terminating block bi (in place)"""
    t = F["blocks"][bi]["term"]
    loff, boff = len(F["locals"]), len(F["blocks"])
    F["locals"].extend([dict(l, inlined_from=G["name"]) for l in G["locals"]])
    line = t.get("line")
    # arguments -> parameter locals
    pre = []
    for i, a in enumerate(t["args"]):
        pre.append({"k": "assign", "place": {"local": loff + 1 + i, "proj": []}, "rv": {"k": "use", "op": a}, "line": line, "inlined_arg": True})
    F["blocks"][bi]["stmts"].extend(pre)
    # continuation: dest = return value; goto target
    cont = len(F["blocks"]) + len(G["blocks"])
    for b in G["blocks"]:
        nb = _shift(b, loff, boff, None, None)
        if nb["term"]["k"] == "return":
            nb["term"] = {"k": "goto", "target": cont}
        elif nb["term"]["k"] == "tailcall":
            raise ValueError("tail call in an inlined helper")
        F["blocks"].append(nb)
    after = {"cleanup": False, "stmts": [{"k": "assign", "place": t["dest"], "rv": {"k": "use", "op": {"k": "move", "place": {"local": loff, "proj": []}}}, "line": line, "inlined_ret": True}],
             "term": {"k": "goto", "target": t["target"]} if t.get("target") is not None else {"k": "unreachable"}}
    F["blocks"].append(after)
    F["blocks"][bi]["term"] = {"k": "goto", "target": boff, "inlined_call": G["name"], "line": line}
    F.setdefault("inlined", []).append(G["name"])


def look_through_mir(fx):
    """Library functions that are not in the vocabulary the rules were confirmed against (lib/vocab.json, key `mir:lib`) are
    inlined into their callers, so that the dominance / provenance rules see the same control flow after a helper was extracted."""
    if os.environ.get("HPBF_NO_LOOKTHROUGH"):
        return
    vp = os.path.join(os.path.dirname(os.path.abspath(__file__)), "vocab.json")
    with open(vp) as fh:
        vocab = json.load(fh)
    known = set(vocab.get("mir:lib", []))
    if not known:
        raise CheckerError("lib/vocab.json has no MIR vocabulary (tools/gen_vocab.py)")
    byname = {}
    for f in fx.functions("lib"):
        byname.setdefault(f["name"], f)
    new = {n for n, f in byname.items() if strip_generics(n) not in known and f["kind"] in ("Fn", "AssocFn") and "::tests::" not in n}
    fx.looked_through = {"new": sorted(new), "inlined": []}
    if not new:
        return
    for rnd in range(3):
        changed = False
        for f in fx.functions("lib"):
            if "::tests::" in f["name"]:
                continue
            for bi in range(len(f["blocks"])):
                t = f["blocks"][bi]["term"]
                if t["k"] != "call":
                    continue
                tgt = t["func"].get("resolved") or t["func"].get("fn")
                if tgt in new and tgt != f["name"] and tgt in byname:
                    g = byname[tgt]
                    if any(b["term"]["k"] == "call" and (b["term"]["func"].get("resolved") or b["term"]["func"].get("fn")) == tgt for b in g["blocks"]):
                        continue    # recursive helper: leave it
                    try:
                        inline_call(f, bi, g)
                        fx.looked_through["inlined"].append((f["name"], tgt))
                        changed = True
                    except ValueError:
                        pass
        if not changed:
            break


# ----------------------------------------------------------------------------- CFG utilities

def succs(block):
    t = block["term"]
    k = t["k"]
    if k == "goto":
        return [t["target"]]
    if k == "switch":
        return [x[1] for x in t["targets"]] + [t["otherwise"]]
    if k in ("call",):
        return [t["target"]] if t["target"] is not None else []
    if k in ("drop", "assert"):
        return [t["target"]]
    return []


def dominators(fn):
    """Immediate-dominator-free formulation: dom[b] = set of blocks dominating b (entry = 0)."""
    blocks = fn["blocks"]
    n = len(blocks)
    preds = [[] for _ in range(n)]
    for i, b in enumerate(blocks):
        for s in succs(b):
            preds[s].append(i)
    reach = reachable(fn, 0)
    full = set(reach)
    dom = {b: set(full) for b in reach}
    dom[0] = {0}
    changed = True
    order = sorted(reach)
    while changed:
        changed = False
        for b in order:
            if b == 0:
                continue
            ps = [p for p in preds[b] if p in dom]
            new = set.intersection(*[dom[p] for p in ps]) if ps else set()
            new = new | {b}
            if new != dom[b]:
                dom[b] = new
                changed = True
    return dom


def reachable(fn, start, stop=()):
    seen = set()
    st = [start]
    while st:
        b = st.pop()
        if b in seen or b in stop:
            continue
        seen.add(b)
        st.extend(succs(fn["blocks"][b]))
    return seen


def place_locals(p):
    out = {p["local"]}
    for e in p["proj"]:
        if e["k"] == "index":
            out.add(e["local"])
    return out


def operand_locals(o):
    if o["k"] in ("copy", "move"):
        return place_locals(o["place"])
    return set()


def rvalue_operands(rv):
    k = rv["k"]
    if k in ("use", "cast", "repeat"):
        return [rv["op"]]
    if k == "binary":
        return [rv["l"], rv["r"]]
    if k == "unary":
        return [rv["v"]]
    if k == "aggregate":
        return rv["ops"]
    return []


def rvalue_locals(rv):
    out = set()
    for o in rvalue_operands(rv):
        out |= operand_locals(o)
    if rv["k"] in ("ref", "rawptr", "discriminant"):
        out |= place_locals(rv["place"])
    return out


def callee(term):
    """(declared callee path, resolved callee path or None) of a call terminator."""
    f = term["func"]
    return f.get("fn"), f.get("resolved")


def calls(fn):
    for i, b in enumerate(fn["blocks"]):
        t = b["term"]
        if t["k"] in ("call", "tailcall"):
            yield i, t


def file_line(s):
    """'src/runtime.rs:80' -> ('src/runtime.rs', 80) with the path made relative to the crate root."""
    p, _, l = s.rpartition(":")
    i = p.find("src/")
    if i >= 0:
        p = p[i:]
    try:
        return p, int(l)
    except ValueError:
        return p, 0
