"""Engine E2: facts from the type-checked program (MIR, resolved callees, full types, layouts,
Freeze, const-evaluated associated constants), produced by tools/mirfacts - a rustc_private driver
run as RUSTC_WORKSPACE_WRAPPER under `cargo +nightly check` into a fresh temporary target
directory.  The crate is type-checked, never executed."""
import json, os, subprocess, tempfile, shutil, glob
from common import REPO, VERIF, CheckerError

DRIVER = os.path.join(VERIF, "target", "mirfacts", "release", "mirfacts")
_cache = {}


class Facts:
    def __init__(self, docs):
        self.docs = docs
        self.lib = [d for d in docs if "Rlib" in d["crate_types"] or "rlib" in str(d["crate_types"]).lower()]
        self.fns = {}
        for d in docs:
            kind = "lib" if d in self.lib else "bin:" + d["crate"]
            for f in d["functions"]:
                f["_unit"] = kind
                self.fns.setdefault((kind, f["name"]), f)

    def lib_doc(self):
        if len(self.lib) != 1:
            raise CheckerError(f"expected exactly one library crate in the facts, found {len(self.lib)}")
        return self.lib[0]

    def functions(self, unit="lib"):
        return [f for (u, n), f in self.fns.items() if u == unit]

    def all_functions(self):
        return list(self.fns.values())

    def fn(self, suffix, unit="lib"):
        """Function whose path ends with `suffix` (generic arguments stripped), exactly one."""
        r = [f for f in self.functions(unit) if strip_generics(f["name"]).endswith(suffix)]
        if len(r) != 1:
            from common import Missing
            raise Missing(f"MIR of function *{suffix}: found {len(r)}")
        return r[0]


def strip_generics(name):
    out, depth = [], 0
    i = 0
    while i < len(name):
        c = name[i]
        if c == "<" and name[i - 2:i] == "::" and depth == 0 and name[i + 1:i + 6] == "impl ":
            # `core::num::<impl u8>::wrapping_add`: part of the path, keep verbatim up to the matching `>`
            j = name.index(">", i)
            out.append(name[i:j + 1])
            i = j + 1
            continue
        if c == "<" and name[i - 2:i] == "::":
            # turbofish-like `::<C>`: drop it including the `::`
            depth += 1
            out = out[:-2]
        elif c == "<" and depth > 0:
            depth += 1
        elif c == ">" and depth > 0:
            depth -= 1
        elif depth == 0:
            out.append(c)
        i += 1
    return "".join(out)


def load_facts(root=None, release=False):
    root = root or REPO
    key = (root, release)
    if key in _cache:
        return _cache[key]
    if not os.path.exists(DRIVER):
        raise CheckerError(f"{DRIVER} not built; run the MANIFEST setup_cmd")
    sysroot = subprocess.run(["rustc", "+nightly", "--print", "sysroot"], capture_output=True, text=True).stdout.strip()
    tdir = tempfile.mkdtemp(prefix="hpbf-mir-")
    try:
        out = os.path.join(tdir, "out")
        os.makedirs(out)
        env = dict(os.environ, LD_LIBRARY_PATH=os.path.join(sysroot, "lib") + ":" + os.environ.get("LD_LIBRARY_PATH", ""),
                   MIRFACTS_OUT=out, RUSTFLAGS="-Zmir-opt-level=0 -Awarnings", RUSTC_WORKSPACE_WRAPPER=DRIVER,
                   CARGO_TARGET_DIR=os.path.join(tdir, "target"), CARGO_NET_OFFLINE="true")
        cmd = ["cargo", "+nightly", "check", "--offline", "--lib", "--bins", "--quiet"] + (["--release"] if release else [])
        p = subprocess.run(cmd, cwd=root, env=env, capture_output=True, text=True)
        files = sorted(glob.glob(os.path.join(out, "*.json")))
        if p.returncode != 0 or not files:
            raise CheckerError("type-checking /repo with the facts driver failed: " + p.stderr.strip()[-600:])
        docs = []
        for f in files:
            with open(f) as fh:
                docs.append(json.load(fh))
        fx = Facts(docs)
        fx.lib_doc()
        _cache[key] = fx
        return fx
    finally:
        shutil.rmtree(tdir, ignore_errors=True)


# ----------------------------------------------------------------------------- CFG utilities

def succs(block):
    t = block["term"]
    k = t["k"]
    if k == "goto":
        return [t["target"]]
    if k == "switch":
        return [x[1] for x in t["targets"]] + [t["otherwise"]]
    if k in ("call",):
        return [t["target"]] if t["target"] is not None else []
    if k in ("drop", "assert"):
        return [t["target"]]
    return []


def dominators(fn):
    """Immediate-dominator-free formulation: dom[b] = set of blocks dominating b (entry = 0)."""
    blocks = fn["blocks"]
    n = len(blocks)
    preds = [[] for _ in range(n)]
    for i, b in enumerate(blocks):
        for s in succs(b):
            preds[s].append(i)
    reach = reachable(fn, 0)
    full = set(reach)
    dom = {b: set(full) for b in reach}
    dom[0] = {0}
    changed = True
    order = sorted(reach)
    while changed:
        changed = False
        for b in order:
            if b == 0:
                continue
            ps = [p for p in preds[b] if p in dom]
            new = set.intersection(*[dom[p] for p in ps]) if ps else set()
            new = new | {b}
            if new != dom[b]:
                dom[b] = new
                changed = True
    return dom


def reachable(fn, start, stop=()):
    seen = set()
    st = [start]
    while st:
        b = st.pop()
        if b in seen or b in stop:
            continue
        seen.add(b)
        st.extend(succs(fn["blocks"][b]))
    return seen


def place_locals(p):
    out = {p["local"]}
    for e in p["proj"]:
        if e["k"] == "index":
            out.add(e["local"])
    return out


def operand_locals(o):
    if o["k"] in ("copy", "move"):
        return place_locals(o["place"])
    return set()


def rvalue_operands(rv):
    k = rv["k"]
    if k in ("use", "cast", "repeat"):
        return [rv["op"]]
    if k == "binary":
        return [rv["l"], rv["r"]]
    if k == "unary":
        return [rv["v"]]
    if k == "aggregate":
        return rv["ops"]
    return []


def rvalue_locals(rv):
    out = set()
    for o in rvalue_operands(rv):
        out |= operand_locals(o)
    if rv["k"] in ("ref", "rawptr", "discriminant"):
        out |= place_locals(rv["place"])
    return out


def callee(term):
    """(declared callee path, resolved callee path or None) of a call terminator."""
    f = term["func"]
    return f.get("fn"), f.get("resolved")


def calls(fn):
    for i, b in enumerate(fn["blocks"]):
        t = b["term"]
        if t["k"] in ("call", "tailcall"):
            yield i, t


def file_line(s):
    """'src/runtime.rs:80' -> ('src/runtime.rs', 80) with the path made relative to the crate root."""
    p, _, l = s.rpartition(":")
    i = p.find("src/")
    if i >= 0:
        p = p[i:]
    try:
        return p, int(l)
    except ValueError:
        return p, 0
