"""A small abstract interpreter for loop-free Rust bodies over the JSON syntax tree.

It understands exactly the constructs the analysed templates use (`let`, `if`, `if let`,
`match` with guards and first-match semantics, tuples, `Some/None/Ok/Err`, method and path
calls, early `return`). Anything else raises `Unanalysable` - the calling rule turns that
into a fail-closed violation, never into a silent skip. Domain knowledge (what `Reg::tmp`
or `self.emit_mov_r64_rm64` mean) is supplied by a subclass through the hook methods.
Nothing of hpbf is executed: the interpreter walks syntax under an abstract input.
"""
from common import strip_paren, path_name, int_lit


class Unanalysable(Exception):
    pass


class Reached(Exception):
    """An `unimplemented!`/`panic!`/`unreachable!` style macro was reached."""

    def __init__(self, what, node):
        super().__init__(what)
        self.what, self.node = what, node


class ReturnEx(Exception):
    def __init__(self, value):
        self.value = value


class BreakEx(Exception):
    def __init__(self, value=None):
        self.value = value


class ContinueEx(Exception):
    pass


class Opt:
    __slots__ = ("v", "some")

    def __init__(self, some, v=None):
        self.some, self.v = some, v

    def __repr__(self):
        return f"Some({self.v!r})" if self.some else "None"

    def __eq__(self, o):
        return isinstance(o, Opt) and self.some == o.some and self.v == o.v

    def __hash__(self):
        return hash((self.some, self.v))


NONE = Opt(False)


def Some(v):
    return Opt(True, v)


class Res:
    __slots__ = ("ok", "v")

    def __init__(self, ok, v=None):
        self.ok, self.v = ok, v

    def __repr__(self):
        return f"Ok({self.v!r})" if self.ok else f"Err({self.v!r})"


class Tup:
    __slots__ = ("elems",)

    def __init__(self, elems):
        self.elems = list(elems)

    def __repr__(self):
        return "(" + ", ".join(map(repr, self.elems)) + ")"

    def __eq__(self, o):
        return isinstance(o, Tup) and self.elems == o.elems

    def __hash__(self):
        return hash(tuple(self.elems))


class UnitT:
    def __repr__(self):
        return "()"


UNIT = UnitT()


class Env:
    def __init__(self, parent=None):
        self.vars = {}
        self.parent = parent

    def get(self, name):
        e = self
        while e is not None:
            if name in e.vars:
                return e.vars[name]
            e = e.parent
        raise KeyError(name)

    def has(self, name):
        try:
            self.get(name)
            return True
        except KeyError:
            return False

    def bind(self, name, v):
        self.vars[name] = v

    def assign(self, name, v):
        e = self
        while e is not None:
            if name in e.vars:
                e.vars[name] = v
                return
            e = e.parent
        raise Unanalysable(f"assignment to unknown variable {name}")

    def child(self):
        return Env(self)


class Interp:
    """Generic control flow; subclasses provide the hooks."""

    loop_cap = 70

    def __init__(self):
        self.trace = []   # branch decisions taken: list of strings (the path condition)

    # ------------------------------------------------------------------ hooks
    def call(self, name, targs, args, node):
        raise Unanalysable(f"call of {name} is not in the rule's table")

    def method(self, recv, name, targs, args, node):
        raise Unanalysable(f"method .{name}() is not in the rule's table")

    def path_value(self, name, node):
        raise Unanalysable(f"path {name} is not in the rule's table")

    def equal(self, a, b, node):
        if isinstance(a, (int, bool, str)) and isinstance(b, (int, bool, str)):
            return a == b
        if isinstance(a, Opt) and isinstance(b, Opt):
            if a.some != b.some:
                return False
            return True if not a.some else self.equal(a.v, b.v, node)
        if isinstance(a, Res) and isinstance(b, Res) and a.ok != b.ok:
            return False
        raise Unanalysable(f"comparison of {a!r} and {b!r} undecided")

    def match_ctor(self, name, elems, val, env, node):
        """Match a tuple-struct pattern `name(elems..)`; return True/False."""
        raise Unanalysable(f"pattern {name}(..) is not in the rule's table")

    def match_path(self, name, val, node):
        raise Unanalysable(f"pattern path {name} is not in the rule's table")

    def macro(self, name, mac, env, node):
        if name == "matches" and mac.get("matches"):
            # matches!(e, PAT [if guard]) is a one-arm match yielding a bool
            v = self.eval(mac["matches"]["expr"], env)
            scope = env.child()
            ok = self.match(mac["matches"]["pat"], v, scope)
            if ok and mac["matches"]["guard"] is not None:
                ok = self.cond(mac["matches"]["guard"], scope)
            return bool(ok)
        if name in ("unimplemented", "panic", "unreachable", "todo"):
            raise Reached(name + "!", node)
        raise Unanalysable(f"macro {name}! is not in the rule's table")

    def field(self, base, member, node):
        if isinstance(base, Tup) and member.isdigit():
            return base.elems[int(member)]
        raise Unanalysable(f"field .{member} is not in the rule's table")

    def cast(self, v, ty, node):
        if isinstance(v, bool):
            return int(v)
        if isinstance(v, int):
            return v
        raise Unanalysable(f"cast of {v!r} to {ty['s']} is not in the rule's table")

    def assign_place(self, place, value, env, node):
        place = strip_paren(place)
        if place["t"] == "PathExpr" and len(place["path"]["segs"]) == 1:
            env.assign(place["path"]["name"], value)
            return
        if place["t"] == "Tuple" and isinstance(value, Tup) and len(value.elems) == len(place["elems"]):
            for p, v in zip(place["elems"], value.elems):
                self.assign_place(p, v, env, node)
            return
        raise Unanalysable("assignment to a place the rule does not model")

    # ------------------------------------------------------------------ statements
    def exec_block(self, block, env):
        env = env.child()
        last = UNIT
        stmts = block["stmts"]
        for i, st in enumerate(stmts):
            t = st["t"]
            if t == "Local":
                if st["init"] is None:
                    self.bind_pat_uninit(st["pat"], env)
                    continue
                v = self.eval(st["init"], env)
                if not self.match(st["pat"], v, env):
                    if st["else"] is not None:
                        self.eval(st["else"], env)
                        raise Unanalysable("let-else fell through")
                    raise Unanalysable("irrefutable let pattern did not match")
                last = UNIT
            elif t == "ExprStmt":
                v = self.eval(st["expr"], env)
                last = UNIT if st["semi"] else v
                if not st["semi"] and i != len(stmts) - 1:
                    last = UNIT
            elif t == "MacroStmt":
                v = self.macro(st["mac"]["name"], st["mac"], env, st)
                last = UNIT if st["semi"] else v
            elif t in ("Fn", "Use", "Const", "Struct", "Enum", "ItemMacro"):
                self.local_item(st, env)
            else:
                raise Unanalysable(f"statement kind {t} not modelled")
        return last

    def local_item(self, st, env):
        pass

    def bind_pat_uninit(self, pat, env):
        if pat["t"] == "PIdent":
            env.bind(pat["name"], None)
        elif pat["t"] == "PType":
            self.bind_pat_uninit(pat["pat"], env)
        else:
            raise Unanalysable("uninitialised let with a pattern")

    # ------------------------------------------------------------------ patterns
    def match(self, pat, val, env):
        t = pat["t"]
        if t == "PWild":
            return True
        if t == "PIdent":
            n = pat["name"]
            if n == "None":
                if not isinstance(val, Opt):
                    raise Unanalysable(f"None pattern against {val!r}")
                return not val.some
            if pat["sub"] is not None:
                if not self.match(pat["sub"], val, env):
                    return False
            env.bind(n, val)
            return True
        if t == "PType":
            return self.match(pat["pat"], val, env)
        if t == "PRef":
            return self.match(pat["pat"], val, env)
        if t == "PTuple":
            if not isinstance(val, Tup) or len(val.elems) != len(pat["elems"]):
                raise Unanalysable(f"tuple pattern against {val!r}")
            for p, v in zip(pat["elems"], val.elems):
                if not self.match(p, v, env):
                    return False
            return True
        if t == "POr":
            for c in pat["cases"]:
                e2 = env.child()
                if self.match(c, val, e2):
                    env.vars.update(e2.vars)
                    return True
            return False
        if t == "PLit":
            lv = self.lit(pat["lit"])
            return self.equal(val, lv, pat)
        if t == "PTupleStruct":
            name = pat["path"]["name"]
            if name in ("Some", "Option::Some"):
                if not isinstance(val, Opt):
                    raise Unanalysable(f"Some(..) pattern against {val!r}")
                return val.some and self.match(pat["elems"][0], val.v, env)
            if name in ("Ok", "Result::Ok"):
                if not isinstance(val, Res):
                    raise Unanalysable(f"Ok(..) pattern against {val!r}")
                return val.ok and self.match(pat["elems"][0], val.v, env)
            if name in ("Err", "Result::Err"):
                if not isinstance(val, Res):
                    raise Unanalysable(f"Err(..) pattern against {val!r}")
                return (not val.ok) and self.match(pat["elems"][0], val.v, env)
            return self.match_ctor(name, pat["elems"], val, env, pat)
        if t == "PPath":
            name = pat["path"]["name"]
            if name in ("None", "Option::None"):
                return isinstance(val, Opt) and not val.some
            return self.match_path(name, val, pat)
        if t == "PRange":
            lo = self.eval(pat["start"], env) if pat["start"] else None
            hi = self.eval(pat["end"], env) if pat["end"] else None
            if not isinstance(val, int):
                raise Unanalysable("range pattern on a non-integer")
            if lo is not None and val < lo:
                return False
            if hi is not None and (val > hi if pat["closed"] else val >= hi):
                return False
            return True
        raise Unanalysable(f"pattern kind {t} not modelled")

    # ------------------------------------------------------------------ expressions
    def lit(self, l):
        k = l["kind"]
        if k == "int":
            return int(l["digits"])
        if k == "bool":
            return l["value"]
        if k in ("str", "char"):
            return l["value"]
        if k == "byte":
            return l["value"]
        raise Unanalysable(f"literal kind {k}")

    def cond(self, c, env):
        """Evaluate an `if`/`while`/guard condition; may bind (if let). Returns bool."""
        c = strip_paren(c)
        if c["t"] == "Let":
            v = self.eval(c["expr"], env)
            return self.match(c["pat"], v, env)
        if c["t"] == "Binary" and c["op"] == "&&":
            return self.cond(c["left"], env) and self.cond(c["right"], env)
        v = self.eval(c, env)
        if not isinstance(v, bool):
            raise Unanalysable(f"condition did not evaluate to a boolean: {v!r}")
        return v

    def eval(self, e, env):
        t = e["t"]
        if t == "Lit":
            return self.lit(e)
        if t == "Paren":
            return self.eval(e["expr"], env)
        if t == "PathExpr":
            segs = e["path"]["segs"]
            name = e["path"]["name"]
            if len(segs) == 1 and env.has(name):
                return env.get(name)
            if name == "None":
                return NONE
            return self.path_value(name, e)
        if t == "Tuple":
            if not e["elems"]:
                return UNIT
            return Tup([self.eval(x, env) for x in e["elems"]])
        if t == "If":
            scope = env.child()
            if self.cond(e["cond"], scope):
                self.trace.append(("if", e["cond"]["sp"][0], True))
                return self.exec_block(e["then"], scope)
            self.trace.append(("if", e["cond"]["sp"][0], False))
            if e["else"] is None:
                return UNIT
            return self.eval(e["else"], env)
        if t == "BlockExpr":
            return self.exec_block(e["block"], env)
        if t == "Unsafe":
            return self.exec_block(e["block"], env)
        if t == "Match":
            v = self.eval(e["expr"], env)
            for i, arm in enumerate(e["arms"]):
                scope = env.child()
                if self.match(arm["pat"], v, scope):
                    if arm["guard"] is not None and not self.cond(arm["guard"], scope):
                        continue
                    self.trace.append(("match", arm["sp"][0], i))
                    return self.eval(arm["body"], scope)
            raise Unanalysable("no match arm matched")
        if t == "Call":
            f = strip_paren(e["func"])
            args = [self.eval(a, env) for a in e["args"]]
            if f["t"] == "PathExpr":
                name = f["path"]["name"]
                targs = f["path"]["segs"][-1]["args"]
                if name in ("Some", "Option::Some"):
                    return Some(args[0])
                if name in ("Ok", "Result::Ok"):
                    return Res(True, args[0])
                if name in ("Err", "Result::Err"):
                    return Res(False, args[0])
                if len(f["path"]["segs"]) == 1 and env.has(name):
                    return self.call_value(env.get(name), args, e)
                return self.call(name, targs, args, e)
            raise Unanalysable("call through a non-path callee")
        if t == "MethodCall":
            recv = self.eval(e["receiver"], env)
            args = [self.eval(a, env) for a in e["args"]]
            name = e["method"]
            if isinstance(recv, Opt):
                if name == "unwrap":
                    if not recv.some:
                        raise Reached("unwrap() on None", e)
                    return recv.v
                if name == "is_some":
                    return recv.some
                if name == "is_none":
                    return not recv.some
                if name in ("cloned", "copied"):
                    return recv
            if isinstance(recv, Res):
                if name == "unwrap":
                    if not recv.ok:
                        raise Reached("unwrap() on Err", e)
                    return recv.v
                if name == "is_ok":
                    return recv.ok
                if name == "is_err":
                    return not recv.ok
                if name == "ok":
                    return Some(recv.v) if recv.ok else NONE
            return self.method(recv, name, e["turbofish"], args, e)
        if t == "While":
            n = 0
            while True:
                scope = env.child()
                if not self.cond(e["cond"], scope):
                    break
                n += 1
                if n > self.loop_cap:
                    raise Unanalysable(f"loop exceeds {self.loop_cap} iterations under this abstract input")
                try:
                    self.exec_block(e["body"], scope)
                except BreakEx:
                    break
                except ContinueEx:
                    continue
            return UNIT
        if t == "ForLoop":
            it = self.eval(e["expr"], env)
            if not isinstance(it, list):
                raise Unanalysable("for loop over a value the rule does not model")
            for v in it:
                scope = env.child()
                if not self.match(e["pat"], v, scope):
                    raise Unanalysable("for pattern")
                try:
                    self.exec_block(e["body"], scope)
                except BreakEx:
                    break
                except ContinueEx:
                    continue
            return UNIT
        if t == "Binary" and e["op"] in ("+=", "-=", "*=", "/=", "&=", "|=", "^=", "<<=", ">>=", "%="):
            cur = self.eval(e["left"], env)
            r = self.eval(e["right"], env)
            v = self.binary(e["op"][:-1], cur, r, e)
            self.assign_place(e["left"], v, env, e)
            return UNIT
        if t == "Binary":
            op = e["op"]
            if op == "&&":
                return self.cond(e["left"], env) and self.cond(e["right"], env)
            if op == "||":
                l = self.eval(e["left"], env)
                if not isinstance(l, bool):
                    raise Unanalysable("|| on non-boolean")
                return l or self.cond(e["right"], env)
            l = self.eval(e["left"], env)
            r = self.eval(e["right"], env)
            return self.binary(op, l, r, e)
        if t == "Unary":
            v = self.eval(e["expr"], env)
            return self.unary(e["op"], v, e)
        if t == "Try":
            v = self.eval(e["expr"], env)
            if isinstance(v, Opt):
                if not v.some:
                    raise ReturnEx(NONE)
                return v.v
            if isinstance(v, Res):
                if not v.ok:
                    raise ReturnEx(v)
                return v.v
            raise Unanalysable(f"`?` on {v!r}")
        if t == "Index":
            return self.index(self.eval(e["expr"], env), self.eval(e["index"], env), e)
        if t == "Return":
            raise ReturnEx(self.eval(e["expr"], env) if e["expr"] else UNIT)
        if t == "Break":
            raise BreakEx(self.eval(e["expr"], env) if e.get("expr") is not None else None)
        if t == "Loop":
            n = 0
            while True:
                n += 1
                if n > self.loop_cap:
                    raise Unanalysable(f"loop exceeds {self.loop_cap} iterations under this abstract input")
                try:
                    self.exec_block(e["body"], env.child())
                except BreakEx as b_:
                    return b_.value if b_.value is not None else UNIT
                except ContinueEx:
                    continue
        if t == "Continue":
            raise ContinueEx()
        if t == "MacroExpr":
            return self.macro(e["mac"]["name"], e["mac"], env, e)
        if t == "Field":
            return self.field(self.eval(e["base"], env), e["member"], e)
        if t == "Cast":
            return self.cast(self.eval(e["expr"], env), e["ty"], e)
        if t == "Reference":
            return self.eval(e["expr"], env)
        if t == "Assign":
            v = self.eval(e["right"], env)
            self.assign_place(e["left"], v, env, e)
            return UNIT
        if t == "Array":
            return [self.eval(x, env) for x in e["elems"]]
        if t == "StructExpr":
            return self.struct_expr(e["path"]["name"], {f["member"]: self.eval(f["expr"], env) for f in e["fields"]}, e)
        raise Unanalysable(f"expression kind {t} not modelled")

    def struct_expr(self, name, fields, node):
        raise Unanalysable(f"struct literal {name} is not in the rule's table")

    def index(self, base, idx, node):
        if isinstance(base, list) and isinstance(idx, int) and not isinstance(idx, bool) and 0 <= idx < len(base):
            return base[idx]
        raise Unanalysable(f"indexing {base!r}[{idx!r}]")

    def call_value(self, f, args, node):
        raise Unanalysable("call of a local value")

    def binary(self, op, l, r, node):
        if op == "==":
            return self.equal(l, r, node)
        if op == "!=":
            return not self.equal(l, r, node)
        if isinstance(l, int) and isinstance(r, int) and not isinstance(l, bool):
            if op == "+":
                return l + r
            if op == "-":
                return l - r
            if op == "*":
                return l * r
            if op == "/":
                return l // r
            if op == "%":
                return l % r
            if op == "<":
                return l < r
            if op == "<=":
                return l <= r
            if op == ">":
                return l > r
            if op == ">=":
                return l >= r
            if op == "&":
                return l & r
            if op == "|":
                return l | r
            if op == "^":
                return l ^ r
            if op == "<<":
                return l << r
            if op == ">>":
                return l >> r
        raise Unanalysable(f"binary {op} on {l!r}, {r!r}")

    def unary(self, op, v, node):
        if op == "!" and isinstance(v, bool):
            return not v
        if op == "-" and isinstance(v, int):
            return -v
        if op == "*":
            return v
        raise Unanalysable(f"unary {op} on {v!r}")


# --------------------------------------------------------------------------- polynomials

class Poly:
    """Polynomial over Z with symbolic variables: {monomial(tuple of sorted names): coeff}."""
    __slots__ = ("t",)

    def __init__(self, terms=None):
        self.t = {k: v for k, v in (terms or {}).items() if v != 0}

    @staticmethod
    def var(name):
        return Poly({(name,): 1})

    @staticmethod
    def const(c):
        return Poly({(): c})

    def __add__(self, o):
        d = dict(self.t)
        for k, v in o.t.items():
            d[k] = d.get(k, 0) + v
        return Poly(d)

    def __neg__(self):
        return Poly({k: -v for k, v in self.t.items()})

    def __sub__(self, o):
        return self + (-o)

    def __mul__(self, o):
        d = {}
        for k1, v1 in self.t.items():
            for k2, v2 in o.t.items():
                k = tuple(sorted(k1 + k2))
                d[k] = d.get(k, 0) + v1 * v2
        return Poly(d)

    def __eq__(self, o):
        return isinstance(o, Poly) and self.t == o.t

    def __hash__(self):
        return hash(tuple(sorted(self.t.items())))

    def vars(self):
        return {x for k in self.t for x in k}

    def __repr__(self):
        if not self.t:
            return "0"
        parts = []
        for k, v in sorted(self.t.items()):
            m = "*".join(k)
            if not k:
                parts.append(str(v))
            elif v == 1:
                parts.append(m)
            elif v == -1:
                parts.append("-" + m)
            else:
                parts.append(f"{v}*{m}")
        return " + ".join(parts).replace("+ -", "- ")
