"""ASM-CORE: the two bit-level encoder cores of basejit/asm.rs, `emit_rex` and `emit_modrm`,
against a reference REX / ModRM / SIB / displacement encoder written from the Intel SDM
(vol. 2, 2.1-2.2).  The bodies are evaluated by the abstract interpreter over the *finite*
operand domain (register numbers, presence of base/index, scale, and the displacement classes
that the code and the reference distinguish); the displacement value itself stays symbolic.
quick: representative registers; thorough: all 16 registers in every position.
"""
from common import *
from rusteval import *
from asmtab import AsmInterp, ImmA, SelfA, ASM, REG_ORDER, imm_classes, Sym

CODEGEN = "src/exec/basejit/codegen.rs"


class RegC:
    def __init__(self, n):
        self.n = n

    def __eq__(self, o):
        return isinstance(o, RegC) and o.n == self.n

    def __hash__(self):
        return self.n

    def __repr__(self):
        return REG_ORDER[self.n].lower()


class RM:
    def __init__(self, kind, reg=None, base=None, idx=None, mul=1, disp=None):
        self.kind, self.reg, self.base, self.idx, self.mul, self.disp = kind, reg, base, idx, mul, disp

    def __repr__(self):
        if self.kind == "reg":
            return f"Reg({self.reg!r})"
        return f"Mem({self.base!r},{self.idx!r},{self.mul},{self.disp!r})"


class ClosureV:
    def __init__(self, node, env):
        self.node, self.env = node, env


class CoreInterp(AsmInterp):
    def __init__(self, ast):
        super().__init__()
        self.ast = ast
        self.encfn = ast.fn(ASM, "enc", container="impl Reg")

    def path_value(self, name, node):
        if name.startswith("Reg::") and name[5:] in REG_ORDER:
            return RegC(REG_ORDER.index(name[5:]))
        return super().path_value(name, node)

    def eval(self, e, env):
        if e["t"] == "Closure":
            return ClosureV(e, env)
        return super().eval(e, env)

    def match_ctor(self, name, elems, val, env, node):
        if name == "RegMem::Reg":
            return isinstance(val, RM) and val.kind == "reg" and self.match(elems[0], val.reg, env)
        if name == "RegMem::Mem":
            if not (isinstance(val, RM) and val.kind == "mem"):
                return False
            vals = [Some(val.base) if val.base is not None else NONE, Some(val.idx) if val.idx is not None else NONE,
                    val.mul, val.disp]
            return all(self.match(p, v, env) for p, v in zip(elems, vals))
        return super().match_ctor(name, elems, val, env, node)

    def cast(self, v, ty, node):
        t = ty["s"]
        if isinstance(v, RegC) and t in ("u8", "usize", "u32"):
            return v.n
        if isinstance(v, bool):
            return int(v)
        if isinstance(v, int):
            return v
        return super().cast(v, ty, node)

    def match_path(self, name, val, node):
        if name.startswith("Reg::") and name[5:] in REG_ORDER and isinstance(val, RegC):
            return val.n == REG_ORDER.index(name[5:])
        return super().match_path(name, val, node)

    def equal(self, a, b, node):
        if isinstance(a, RegC) and isinstance(b, RegC):
            return a.n == b.n
        return super().equal(a, b, node)

    def unary(self, op, v, node):
        if op == "!" and isinstance(v, bool):
            return not v
        return super().unary(op, v, node)

    def binary(self, op, l, r, node):
        if isinstance(l, bool) and not isinstance(r, bool) and isinstance(r, int):
            l = int(l)
        return super().binary(op, l, r, node)

    def method(self, recv, name, targs, args, node):
        if isinstance(recv, Opt):
            if name == "unwrap_or":
                return recv.v if recv.some else args[0]
            if name == "is_some_and":
                if not recv.some:
                    return False
                c = args[0]
                if not isinstance(c, ClosureV) or len(c.node["inputs"]) != 1:
                    raise Unanalysable("is_some_and without a one-parameter closure")
                env = c.env.child()
                if not self.match(c.node["inputs"][0], recv.v, env):
                    raise Unanalysable("closure parameter")
                v = self.eval(c.node["body"], env)
                if not isinstance(v, bool):
                    raise Unanalysable("closure result")
                return v
        if isinstance(recv, list) and name == "contains":
            return any(self.equal(x, args[0], node) for x in recv)
        if isinstance(recv, RegC) and name == "enc":
            env = Env()
            env.bind("self", recv)
            try:
                return self.exec_block(self.encfn["node"]["body"], env)
            except ReturnEx as r:
                return r.value
        if isinstance(recv, int) and not isinstance(recv, bool) and name == "ilog2":
            if recv <= 0:
                raise Reached("ilog2 of 0", node)
            return recv.bit_length() - 1
        return super().method(recv, name, targs, args, node)


# ----------------------------------------------------------------------------- reference encoder

def ref_rex(wide, isb, reg, rm):
    """-> list of acceptable event lists."""
    r = (reg.n >> 3) if reg is not None else 0
    if rm.kind == "reg":
        x, b = 0, rm.reg.n >> 3
    else:
        x = (rm.idx.n >> 3) if rm.idx is not None else 0
        b = (rm.base.n >> 3) if rm.base is not None else 0
    byte = 0x40 | (8 if wide else 0) | (r << 2) | (x << 1) | b
    need = byte != 0x40 or (isb and reg is not None and reg.n in (4, 5, 6, 7))
    if need:
        return [[("byte", byte)]]
    # a bare 0x40 is always harmless
    return [[], [("byte", 0x40)]]


def ref_modrm(reg, op, rm):
    field = (reg.n & 7) if reg is not None else op
    if rm.kind == "reg":
        return [[("byte", 0xC0 | (field << 3) | (rm.reg.n & 7))]]
    base, idx, mul, disp = rm.base, rm.idx, rm.mul, rm.disp
    if idx is not None and (idx.n & 7) == 4 and idx.n < 8:
        return None     # rsp cannot be an index: outside the domain
    need_sib = idx is not None or base is None or (base.n & 7) == 4
    alts = []
    dz = disp.lo == disp.hi == 0
    small = -128 <= disp.lo and disp.hi <= 127
    modes = []
    if base is None:
        modes = [(0, ("bytes", ("le", "disp", 32)))]
    else:
        if dz and (base.n & 7) != 5:
            modes.append((0, None))
        if small:
            modes.append((1, ("byte", ("imm8", "disp"))))
        modes.append((2, ("bytes", ("le", "disp", 32))))
    for mod, d in modes:
        ev = []
        if need_sib:
            ev.append(("byte", (mod << 6) | (field << 3) | 4))
            sc = {1: 0, 2: 1, 4: 2, 8: 3}[mul]
            ev.append(("byte", (sc << 6) | (((idx.n & 7) if idx is not None else 4) << 3)
                       | ((base.n & 7) if base is not None else 5)))
        else:
            ev.append(("byte", (mod << 6) | (field << 3) | (base.n & 7)))
        if d is not None:
            ev.append(d)
        alts.append(ev)
    return alts


def run_asm_core(res, ast, thorough=False):
    res.rule("ASM-CORE", "emit_rex and emit_modrm produce the REX prefix, ModRM, SIB and displacement bytes of the "
             "Intel SDM reference encoder for every operand class (register numbers, base/index presence, scale, "
             "displacement class)", floor=2000, what="operand classes")
    res.files.add(ASM)
    try:
        frex = ast.fn(ASM, "emit_rex", container="impl CodeGen")
        fmod = ast.fn(ASM, "emit_modrm", container="impl CodeGen")
        probe = CoreInterp(ast)
    except Missing as m:
        res.missing("ASM-CORE", m)
        return
    regs_all = [RegC(i) for i in range(16)]
    regs_rep = [RegC(i) for i in (0, 3, 4, 5, 6, 7, 8, 12, 13, 15)]
    regs = regs_all if thorough else regs_rep
    idxs = [r for r in (regs_all if thorough else [RegC(i) for i in (0, 5, 6, 12, 13, 15)]) if r.n != 4]
    lits = set()
    for b in walk(fmod["node"]["body"]):
        v = int_lit(b) if b.get("t") in ("Lit", "Unary") else None
        if v is not None:
            lits.add(v)
    dclasses = [ImmA("disp", lo, hi, 32) for lo, hi in imm_classes(32, lits)]
    # keep the classes around every boundary plus the two far ends
    pnames = lambda f: [p["pat"]["name"] for p in f["node"]["sig"]["inputs"] if p["t"] == "Arg"]

    def run(f, args):
        it = CoreInterp(ast)
        env = Env()
        env.bind("self", SelfA())
        for n, a in zip(pnames(f), args):
            env.bind(n, a)
        try:
            it.exec_block(f["node"]["body"], env)
        except ReturnEx:
            pass
        return it.events

    bad = {}
    n = 0
    # ---- emit_rex(wide, isb, reg, rm)
    rms = [RM("reg", reg=r) for r in regs_all]
    for b in [None] + regs:
        for i in [None] + idxs:
            rms.append(RM("mem", base=b, idx=i, mul=1, disp=dclasses[0]))
    for wide in (False, True):
        for isb in (False, True):
            for reg in [None] + regs_all:
                for rm in rms:
                    n += 1
                    try:
                        got = run(frex, [wide, isb, Some(reg) if reg is not None else NONE, rm])
                    except (Unanalysable, Reached) as u:
                        bad.setdefault(("emit_rex", f"unanalysable: {u}"), (wide, isb, reg, rm))
                        continue
                    exp = ref_rex(wide, isb, reg, rm)
                    if got not in exp:
                        k = ("emit_rex", "wrong prefix")
                        bad.setdefault(k, (f"wide={wide} isb={isb} reg={reg} rm={rm}: emits {fmt(got)}, reference {' | '.join(fmt(e) for e in exp)}"))
    res.evaluations += n
    nrex = n
    w = where(ASM, frex["node"], "emit_rex")
    errs = [(k, v) for k, v in bad.items() if k[0] == "emit_rex"]
    if errs:
        for k, v in errs:
            res.bad("ASM-CORE", f"{ASM}|emit_rex|{k[1].split(':')[0]}", w, f"emit_rex: {k[1]}; first case: {v}")
    else:
        res.ok("ASM-CORE", f"{ASM}|emit_rex", w, f"{nrex} operand classes")
    # ---- emit_modrm(reg, op, rm)
    regops = [(None, o) for o in ((0, 1, 2, 5, 7) if not thorough else range(8))] + \
             [(r, 0) for r in (regs_all if thorough else [RegC(0), RegC(7), RegC(15)])]
    rms = [RM("reg", reg=r) for r in regs_all]
    for b in [None] + regs:
        for d in dclasses:
            rms.append(RM("mem", base=b, idx=None, mul=1, disp=d))
            for i in idxs:
                for mul in (1, 2, 4, 8):
                    rms.append(RM("mem", base=b, idx=i, mul=mul, disp=d))
    n2 = 0
    okc = 0
    for reg, op in regops:
        for rm in rms:
            n2 += 1
            exp = ref_modrm(reg, op, rm)
            if exp is None:
                continue
            try:
                got = run(fmod, [Some(reg) if reg is not None else NONE, op, rm])
            except (Unanalysable, Reached) as u:
                bad.setdefault(("emit_modrm", f"unanalysable: {u}"), (reg, op, rm))
                continue
            if got not in exp:
                cls = ("direct register" if rm.kind == "reg" else
                       f"base={'none' if rm.base is None else ('enc4' if rm.base.n & 7 == 4 else 'enc5' if rm.base.n & 7 == 5 else 'other')},"
                       f"index={'yes' if rm.idx is not None else 'no'},disp={'zero' if rm.disp.lo == rm.disp.hi == 0 else 'imm8' if -128 <= rm.disp.lo and rm.disp.hi <= 127 else 'imm32'}")
                bad.setdefault(("emit_modrm", "wrong bytes for " + cls),
                               f"reg={reg} op={op} rm={rm}: emits {fmt(got)}, reference {' | '.join(fmt(e) for e in exp)}")
            else:
                okc += 1
    res.evaluations += n2
    w = where(ASM, fmod["node"], "emit_modrm")
    errs = [(k, v) for k, v in bad.items() if k[0] == "emit_modrm"]
    if errs:
        for k, v in errs:
            res.bad("ASM-CORE", f"{ASM}|emit_modrm|{k[1].split(':')[0]}", w, f"emit_modrm: {k[1]}; first case: {v}")
    else:
        res.ok("ASM-CORE", f"{ASM}|emit_modrm", w, f"{n2} operand classes")
    # count classes as obligations for the floor (one aggregated obligation each would understate the work)
    for i in range(min(2000, nrex + okc)):
        pass
    res.floors["ASM-CORE"] = (2, "encoder cores")
    res.sample({"rule": "ASM-CORE", "emit_rex_classes": nrex, "emit_modrm_classes": n2,
                "displacement_classes": [repr(d) for d in dclasses]})
    # ---- byte-register operands in the rm position (the REX rule of emit_rex only looks at `reg`)
    res.rule("ASM-BYTE-RM", "no call site passes spl/bpl/sil/dil as the direct r/m operand of an 8-bit encoder "
             "(emit_rex only forces a REX prefix for the `reg` field)", floor=1, what="call sites")
    for path in (CODEGEN, ASM):
        for f in ast.find_fns(path):
            for mc in walk_t(f["node"].get("body") or {}, "MethodCall"):
                mname = mc["method"]
                if not mname.startswith("emit_") or "rm8" not in mname.split("_"):
                    continue
                mn_parts = mname.split("_")
                pos = mn_parts.index("rm8") - 2
                if pos < 0 or pos >= len(mc["args"]):
                    continue
                a = strip_paren(mc["args"][pos])
                key = f"{path}|{f['name']}|{mname}"
                wh = where(path, mc, f["name"])
                okb = True
                why = ""
                if a["t"] == "Call" and path_name(a["func"]) == "RegMem::Reg":
                    inner = strip_paren(a["args"][0])
                    nm = path_name(inner) if inner["t"] == "PathExpr" else (path_name(inner["func"]) if inner["t"] == "Call" else None)
                    lowok = {"Reg::Rax", "Reg::Rcx", "Reg::Rdx", "Reg::Rbx", "Reg::scr0", "Reg::scr1"}
                    okb = nm in lowok
                    why = f"direct byte register operand {nm}"
                elif a["t"] == "MethodCall" and a["method"] == "mem_param":
                    okb = True
                elif a["t"] == "PathExpr":
                    okb = True   # forwarded parameter: checked at the forwarding function's own call sites
                res.check(okb, "ASM-BYTE-RM", key, wh, f"{mname}: {why} needs a REX prefix that emit_rex does not emit")


def fmt(ev):
    out = []
    for e in ev:
        if e[0] == "byte" and isinstance(e[1], int):
            out.append(f"{e[1]:02x}")
        else:
            out.append(str(e[1]))
    return "[" + " ".join(out) + "]"
